"""C12 -- read sessions are repeatable and never modify the archive.

Model: coq/theories/RSession.v (session state machine over the decoder cache), theorems in
coq/theories/RSessionProofs.v, statements in coq/props/C12.v.

What this module does with the implementation:
  * builds a small set of archives (single/multi folder, plain/encrypted, intact/damaged) and opens each by
    path, from a nameless stream (BytesIO) and from an open file object;
  * enumerates EVERY call sequence up to a length (3 quick / 4 thorough, 5 on a subset) over the eleven calls
    of the property that obeys the property's discipline (an extract/extractall that follows a decoding call
    has a reset() between), breadth first, not extending a sequence whose last call never returns;
  * runs every sequence on the implementation in child processes (many sequences per child; the file
    operations on the archive are recorded by wrapping the file objects; a call that spins is cut by a
    no-progress detector plus a wall-clock watchdog, and a sample is confirmed without any instrumentation);
  * compares every call's result, file operations and fp position with the extracted model (correspondence),
    and judges the property itself without the model: result == result on a fresh session, verdicts right,
    SHA-256 of the archive unchanged, no write/truncate, every open() of the archive in mode 'rb'.
"""
import hashlib
import io
import json
import os
import random
import shutil
import sys
import tempfile
import time
import zlib

OPS = ["getnames", "list", "getinfo", "archiveinfo", "test", "testzip", "xall_f", "xall_p", "ext_T", "reset",
       "needs_password"]
OPCODE = {o: i for i, o in enumerate(OPS)}
DECODING = {"testzip", "xall_f", "xall_p", "ext_T"}
EXTRACT = {"xall_f", "xall_p", "ext_T"}
ENDINGS = ["close", "with", "exc", "abandon"]

GEN_DEPS = []
LEVEL = "proof"
TRUSTED_BASE = [
    "Coq 8.16.1 kernel, vm_compute; no axioms (Print Assumptions: closed)",
    "theories/RSession.v as a transcription of SevenZipFile's read-mode calls and Worker.extract at the level of whole "
    "decoded streams (a cached SevenZipDecompressor = (packed bytes consumed, decoded bytes delivered)); tied to the "
    "code by the exhaustive sequence correspondence of this harness (results, file operations, fp position)",
    "extraction (ExtrOcamlBasic only) + ocaml/driver.ml for running the model",
    "the recording wrappers around the archive's file objects (py7zr.py7zr.open is shadowed in the child process), the "
    "no-progress detector around SevenZipDecompressor.decompress (a sample of its verdicts is re-run without it), "
    "memoised calculate_key (pure function) in the child process",
    "CPython 3.12 io/zlib/hashlib",
]
ASSUMPTIONS = [
    "archives: one packed stream per folder, packed size <= block size, no folder-level CRC, packpos 0, regular files "
    "and directories, distinct names (checked on every archive used)",
    "test() returning None when the archive stores no packed-stream CRC is read as 'nothing to report' (acceptable)",
    "parallel extraction with more than one failing folder raises whichever exception was queued first; the model "
    "takes folder order (the archives used have at most one damaged folder)",
    "a hang is observed as: 2000 consecutive empty results of an unchanged decoder, or no return within the watchdog "
    "time; replays and a sample of each run use wall-clock only",
    "sequences longer than the tier's bound are covered by the theorems (induction over the sequence), not by runs",
]


# ============================================================================================== child side
class HangDetected(BaseException):
    pass


class _Rec:
    """mixin recording the calls that touch the file's content or position"""

    def _init_rec(self, log, h, name=None):
        self._log = log
        self._h = h
        if name is not None:
            self._vname = name

    def read(self, n=-1):
        r = super().read(n)
        self._log.append(["read", self._h, n if n is not None else -1, len(r)])
        return r

    def readinto(self, b):
        r = super().readinto(b)
        self._log.append(["read", self._h, len(b), r])
        return r

    def seek(self, pos, whence=0):
        r = super().seek(pos, whence)
        self._log.append(["seek", self._h, pos, whence, r])
        return r

    def write(self, b):
        self._log.append(["write", self._h, len(b)])
        return super().write(b)

    def truncate(self, size=None):
        self._log.append(["truncate", self._h, -1 if size is None else size])
        return super().truncate(size)

    def close(self):
        if not self.closed:
            self._log.append(["close", self._h])
        return super().close()


class RecBytesIO(_Rec, io.BytesIO):
    pass


class RecReader(_Rec, io.BufferedReader):
    pass


class RecRandom(_Rec, io.BufferedRandom):
    pass


class RecWriter(_Rec, io.BufferedWriter):
    pass


class Recorder:
    def __init__(self, archive_path):
        self.path = os.path.abspath(archive_path)
        self.log = []
        self.next_h = 100
        self.session_handle_given = False

    def open(self, file, mode="r", *a, **kw):
        """stands in for the builtin open inside py7zr/py7zr.py"""
        try:
            same = os.path.abspath(os.fspath(file)) == self.path
        except TypeError:
            same = False
        if not same or "b" not in mode:
            return open(file, mode, *a, **kw)
        return self.open_archive(mode, by_py7zr=True)

    def open_archive(self, mode, by_py7zr, session=False):
        raw = io.FileIO(self.path, mode.replace("b", ""))   # raises OSError like open()
        if session or (by_py7zr and not self.session_handle_given and self.expect_session_open):
            h = 0
            self.session_handle_given = True
        else:
            h = self.next_h
            self.next_h += 1
        cls = RecRandom if "+" in mode else (RecReader if "r" in mode else RecWriter)
        f = cls(raw)
        f._init_rec(self.log, h)
        self.log.append(["open", h, mode])
        return f

    expect_session_open = False


class Canon:
    """canonical JSON value of a call's result"""

    @staticmethod
    def info(f):
        return [f.filename, f.uncompressed, f.crc32, bool(f.is_directory), bool(f.emptystream)]

    @staticmethod
    def tree(root):
        out = []
        for dp, dns, fns in os.walk(root, followlinks=False):
            for n in sorted(dns + fns):
                p = os.path.join(dp, n)
                rel = os.path.relpath(p, root)
                st = os.lstat(p)
                if os.path.islink(p):
                    out.append([rel, "link", os.readlink(p), 0])
                elif os.path.isdir(p):
                    out.append([rel, "dir", "", 0])
                else:
                    out.append([rel, "file", open(p, "rb").read().hex(), int(st.st_mtime)])
        return sorted(out)


def _do_op(z, op, spec, workdir, counter):
    import py7zr  # noqa
    from harness import arch
    if op == "getnames":
        return ["names", z.getnames()]
    if op == "list":
        return ["list", [[f.filename, f.compressed, f.uncompressed, f.archivable, bool(f.is_directory), f.crc32,
                          None if f.creationtime is None else f.creationtime.isoformat()] for f in z.list()]]
    if op == "getinfo":
        return ["info", Canon.info(z.getinfo(spec["getinfo"]))]
    if op == "archiveinfo":
        a = z.archiveinfo()
        return ["ainfo", [os.path.basename(a.filename), a.size, a.header_size, a.method_names, bool(a.solid), a.blocks,
                          a.uncompressed]]
    if op == "needs_password":
        return ["bool", bool(z.needs_password())]
    if op == "reset":
        r = z.reset()
        return ["unit", r]
    if op == "test":
        return ["verdict", z.test()]
    if op == "testzip":
        return ["zip", z.testzip()]
    if op == "xall_f":
        fac = arch.Collect()
        r = z.extractall(factory=fac)
        return ["deliv", sorted([n, d.hex()] for n, d in fac.as_list()), r]
    if op == "ext_T":
        fac = arch.Collect()
        r = z.extract(targets=list(spec["targets"]), factory=fac)
        return ["deliv", sorted([n, d.hex()] for n, d in fac.as_list()), r]
    if op == "xall_p":
        d = os.path.join(workdir, "x%d" % counter[0])
        counter[0] += 1
        os.mkdir(d)
        try:
            r = z.extractall(path=d)
            return ["tree", Canon.tree(d), r]
        finally:
            shutil.rmtree(d, ignore_errors=True)
    raise ValueError(op)


class _SessionEnd(Exception):
    pass


def _sha(path):
    return hashlib.sha256(open(path, "rb").read()).hexdigest()


def run_sequence(spec, ops, ending, workdir, instrument=True, op_timeout=6.0):
    """one session on the implementation.  Returns a JSON-able observation."""
    import signal
    import threading
    import py7zr
    import py7zr.py7zr as core
    import py7zr.compressor as comp

    rec = Recorder(spec["path"])
    kind = spec["kind"]
    state = {"hang": False}
    obs = {"ops": [], "ctor": None, "end": None}
    sha0 = _sha(spec["path"])
    data0 = open(spec["path"], "rb").read()

    def on_alarm(signum, frame):
        state["hang"] = True
        raise HangDetected()

    old_open = core.__dict__.get("open")
    core.open = rec.open
    old_dec = comp.SevenZipDecompressor.decompress
    old_mem = core.get_memory_limit
    if spec.get("mb"):
        core.get_memory_limit = lambda: spec["mb"]
    if instrument:
        def dec(self, fp, max_length=-1):
            r = old_dec(self, fp, max_length)
            if len(r) == 0 and max_length > 0:
                key = (self.consumed, tuple(self._unpacked), len(self._buf), self._pos, len(self._unused))
                if getattr(self, "_v_key", None) == key:
                    self._v_n += 1
                else:
                    self._v_key, self._v_n = key, 1
                if self._v_n >= 2000:
                    state["hang"] = True
                    raise HangDetected()
            else:
                self._v_key = None
            return r
        comp.SevenZipDecompressor.decompress = dec
    signal.signal(signal.SIGALRM, on_alarm)
    z = None
    stream = None
    counter = [0]
    try:
        # ---- constructor
        try:
            if kind == "path":
                rec.expect_session_open = True
                src = spec["path"]
            elif kind == "stream":
                stream = RecBytesIO(data0)
                stream._init_rec(rec.log, 0)
                src = stream
            else:
                stream = rec.open_archive("rb", by_py7zr=False, session=True)
                del rec.log[:]
                src = stream
            signal.setitimer(signal.ITIMER_REAL, op_timeout)
            z = py7zr.SevenZipFile(src, "r", password=spec.get("password"))
            signal.setitimer(signal.ITIMER_REAL, 0)
            obs["ctor"] = {"events": list(rec.log), "tell": z.fp.tell(), "afterheader": z.afterheader}
        except BaseException as e:  # noqa
            signal.setitimer(signal.ITIMER_REAL, 0)
            obs["ctor"] = {"events": list(rec.log), "error": type(e).__name__ + ": " + str(e)[:200]}
            return obs
        del rec.log[:]
        # ---- calls
        hung = False
        for op in ops:
            state["hang"] = False
            try:
                signal.setitimer(signal.ITIMER_REAL, op_timeout)
                r = ["ok", _do_op(z, op, spec, workdir, counter)]
                signal.setitimer(signal.ITIMER_REAL, 0)
            except HangDetected:
                signal.setitimer(signal.ITIMER_REAL, 0)
                r = ["hang"]
            except Exception as e:  # noqa
                signal.setitimer(signal.ITIMER_REAL, 0)
                r = ["err", type(e).__name__, str(e)[:120]]
            if state["hang"]:
                r = ["hang"]
            try:
                tell = z.fp.tell()
            except Exception:  # noqa
                tell = None
            obs["ops"].append({"op": op, "r": r, "events": list(rec.log), "tell": tell})
            del rec.log[:]
            if r == ["hang"]:
                hung = True
                break
        # ---- end of the session
        spinning = [t for t in threading.enumerate() if t is not threading.main_thread() and t.is_alive()
                    and not t.daemon]
        end = {"how": "hang" if hung else ending}
        if not hung:
            try:
                if ending == "close":
                    z.close()
                elif ending == "with":
                    with z:
                        pass
                elif ending == "exc":
                    try:
                        with z:
                            raise _SessionEnd()
                    except _SessionEnd:
                        pass
                else:
                    pass
            except Exception as e:  # noqa
                end["error"] = type(e).__name__ + ": " + str(e)[:120]
        end["events"] = [e for e in rec.log if e[1] == 0]
        fp = getattr(z, "fp", None)
        end["fp_closed"] = None if fp is None else bool(fp.closed)
        if kind == "stream":
            end["stream_same"] = (not stream.closed) and stream.getvalue() == data0
        end["sha_same"] = _sha(spec["path"]) == sha0
        end["spinning_threads"] = len(spinning)
        obs["end"] = end
        return obs
    finally:
        signal.setitimer(signal.ITIMER_REAL, 0)
        comp.SevenZipDecompressor.decompress = old_dec
        core.get_memory_limit = old_mem
        if old_open is None:
            try:
                del core.open
            except AttributeError:
                pass
        else:
            core.open = old_open


def _memo_key():
    import functools
    import py7zr.compressor as comp
    if not getattr(comp.calculate_key, "_v_memo", False):
        f = functools.lru_cache(maxsize=64)(comp.calculate_key)
        f._v_memo = True
        comp.calculate_key = f


def child_batch(arg):
    """sandbox target: runs arg['jobs'] = [[ops, ending], ...] for one archive spec, appending one JSON line per
    sequence to arg['out'].  Leaves the process at once when a sequence left a spinning thread behind."""
    import threading
    threading.excepthook = lambda a: None
    _memo_key()
    spec = arg["spec"]
    wd = tempfile.mkdtemp(prefix="c12w", dir=arg["workdir"])
    done = 0
    with open(arg["out"], "a") as out:
        for i, (ops, ending) in enumerate(arg["jobs"]):
            if i < arg.get("skip", 0):
                continue
            o = run_sequence(spec, ops, ending, wd, instrument=arg.get("instrument", True),
                             op_timeout=arg.get("op_timeout", 6.0))
            out.write(json.dumps({"i": i, "obs": o}) + "\n")
            out.flush()
            done += 1
            if o.get("end") and o["end"].get("spinning_threads"):
                os._exit(7)
    shutil.rmtree(wd, ignore_errors=True)
    return done


def child_plain(arg):
    """sandbox target without any instrumentation: one sequence, wall-clock only (replays, hang confirmation)"""
    import threading
    threading.excepthook = lambda a: None
    wd = tempfile.mkdtemp(prefix="c12p", dir=arg["workdir"])
    try:
        o = run_sequence(arg["spec"], arg["ops"], arg.get("ending", "close"), wd, instrument=False, op_timeout=3600)
        if o.get("end") and o["end"].get("spinning_threads"):
            sys.stdout.write("\n@@RESULT@@" + json.dumps({"status": "ok", "value": o}))
            sys.stdout.flush()
            os._exit(0)
        return o
    finally:
        shutil.rmtree(wd, ignore_errors=True)


# ============================================================================================== archives
A_TXT = b"alpha-alpha-alpha"          # 17
B_BIN = bytes(range(40))              # 40
C_TXT = b"c" * 25                     # 25
PW = "secret"


def build_archives(root):
    """-> list of dicts {name, path, password, members(name->bytes or None for a directory), damaged(member name or None),
    packed_damaged(bool)}"""
    import py7zr
    from harness import arch
    out = []

    def put(name, data, members, password=None, damaged=None, packed_damaged=False, order=None):
        p = os.path.join(root, name + ".7z")
        open(p, "wb").write(data)
        out.append({"name": name, "path": p, "password": password, "members": members, "damaged": damaged,
                    "packed_damaged": packed_damaged})

    m3 = [("a.txt", A_TXT), ("b.bin", B_BIN), ("c.txt", C_TXT)]
    # S: one solid folder, three members and a zero-length one (written as a non-empty stream of size 0)
    ms = m3 + [("z.nil", b"")]
    put("S", arch.make_archive(ms, "lzma2"), dict(ms))
    # SD: one folder, with a directory and an empty file taken from the filesystem
    src = os.path.join(root, "src")
    os.makedirs(os.path.join(src, "t", "sub"))
    open(os.path.join(src, "t", "a.txt"), "wb").write(A_TXT)
    open(os.path.join(src, "t", "sub", "b.bin"), "wb").write(B_BIN)
    open(os.path.join(src, "t", "sub", "empty"), "wb").close()
    for dp, dns, fns in os.walk(src):
        for n in dns + fns:
            os.utime(os.path.join(dp, n), (1_600_000_000, 1_600_000_000))
    bio = io.BytesIO()
    with py7zr.SevenZipFile(bio, "w", filters=arch.CHAINS["copy"]) as z:
        z.writeall(os.path.join(src, "t"), "t")
    put("SD", bio.getvalue(), {"t": None, "t/a.txt": A_TXT, "t/sub": None, "t/sub/b.bin": B_BIN, "t/sub/empty": b""})
    # M: three folders
    mm = [("a.txt", A_TXT), ("b.bin", B_BIN)]
    s2 = [("d/e.txt", b"eeee" * 5), ("f.txt", b"ffffff")]
    s3 = [("g.bin", bytes(reversed(range(30))))]
    put("M", arch.make_archive(mm, "lzma2", sessions=[(s2, "copy"), (s3, "lzma2")]), dict(mm + s2 + s3))
    # E / EM: encrypted
    put("E", arch.make_archive(m3, "lzma2+aes", password=PW), dict(m3), password=PW)
    put("EM", arch.make_archive(mm, "lzma2+aes", password=PW, sessions=[(s2, "lzma2+aes")]), dict(mm + s2), password=PW)
    # DMG: copy-coded, one payload byte of b.bin flipped
    d = bytearray(arch.make_archive(m3, "copy"))
    assert bytes(d[32:32 + 17]) == A_TXT
    d[32 + 17 + 5] ^= 0x40
    put("DMG", bytes(d), dict(m3), damaged="b.bin")
    # DMGM: three folders, the middle (copy) one damaged in f.txt
    d = bytearray(arch.make_archive(mm, "lzma2", sessions=[(s2, "copy"), (s3, "lzma2")]))
    i = bytes(d).index(b"ffffff")
    d[i + 2] ^= 0x01
    put("DMGM", bytes(d), dict(mm + s2 + s3), damaged="f.txt")
    # DMGE: copy+aes, a ciphertext byte flipped inside the blocks that hold b.bin: packed CRC no longer matches
    d = bytearray(arch.make_archive(m3, "copy+aes", password=PW))
    d[32 + 32 + 3] ^= 0x10
    put("DMGE", bytes(d), dict(m3), password=PW, damaged="b.bin", packed_damaged=True)
    # DMGEM: two copy+aes folders (two packed streams with digests), a ciphertext byte of the FIRST one flipped: the damaged
    # packed stream is followed by an intact one
    d = bytearray(arch.make_archive(mm, "copy+aes", password=PW, sessions=[(s2, "copy+aes")]))
    d[32 + 3] ^= 0x10
    put("DMGEM", bytes(d), dict(mm + s2), password=PW, damaged="a.txt", packed_damaged=True)
    return out


def describe(a, kind, password, mb=None, fix=(0, 0)):
    """the abstract archive of the model for archive `a` opened as `kind`.  Header values (ids, sizes, digests,
    packed sizes) are read through py7zr's parser; the decoded stream of a folder is what a freshly created
    SevenZipDecompressor delivers (the definition of fo_stream); for intact archives it is cross-checked against the
    member contents the archive was built from."""
    import py7zr
    from py7zr.properties import get_memory_limit, get_default_blocksize
    data = open(a["path"], "rb").read()
    with py7zr.SevenZipFile(io.BytesIO(data), "r", password=a["password"]) as z:
        ms = z.header.main_streams
        folders = ms.unpackinfo.folders
        files = []
        names = {}
        for f in z.files:
            files.append([f.id, 1 if f.emptystream else 0, 1 if f.is_directory else 0, f.uncompressed or 0,
                          [] if f.crc32 is None else [f.crc32]])
            assert f.filename not in names.values(), "duplicate names"
            names[f.id] = f.filename
            assert not (f.is_symlink or f.is_socket or f.is_junction)
        assert ms.packinfo.packpos == 0 and len(ms.packinfo.packsizes) == len(folders)
        dd = ms.packinfo.digestdefined or []
        crcs = list(ms.packinfo.crcs or [])
        pos = z.afterheader
        fos = []
        j = 0
        for i, fo in enumerate(folders):
            assert fo.crc is None, "folder-level CRC"
            psize = ms.packinfo.packsizes[i]
            assert psize <= get_default_blocksize()
            pk = []
            if i < len(dd) and dd[i]:
                pk = [1 if (zlib.crc32(data[pos:pos + psize]) & 0xFFFFFFFF) == crcs[j] else 0]
                j += 1
            mems = [[f.id, f.uncompressed, [] if f.crc32 is None else [f.crc32]] for f in fo.files]
            total = fo.unpacksizes[-1]
            dcmp = fo.get_decompressor(psize, reset=True)
            fp = io.BytesIO(data)
            fp.seek(pos)
            stream = b""
            idle = 0
            while idle < 3:     # everything the decoder ever delivers (a cipher's padding can follow the members)
                t = dcmp.decompress(fp, max(1, total - len(stream)) if len(stream) < total else 4096)
                idle = idle + 1 if not t else 0
                stream += bytes(t)
            fo.decompressor = None
            if not a["damaged"]:
                want = b"".join(a["members"][f.filename] for f in fo.files)
                assert stream[:len(want)] == want and len(want) == total, "decoded stream differs from the members the archive was built from"
            fos.append([mems, list(stream), psize, pk])
            pos += psize
        enc = any(py7zr.compressor.SupportedMethods.needs_password(fo.coders) for fo in folders)
        ah = z.afterheader
    kcode = {"path": 0, "stream": 1, "fileobj": 2}[kind]
    tree = [files, fos, ah, kcode, 1 if password is not None else 0, 1 if enc else 0, mb or get_memory_limit(),
            fix[0], fix[1]]
    return tree, names


# ============================================================================================== parent side
def next_dirty(dirty, op):
    if op == "reset":
        return False
    return True if op in DECODING else dirty


def disciplined(seq):
    dirty = False
    for o in seq:
        if o in EXTRACT and dirty:
            return False
        dirty = next_dirty(dirty, o)
    return True


def model_ops(seq, targets_ids):
    return [[OPCODE[o]] + ([targets_ids] if o == "ext_T" else []) for o in seq]


ERRNAME = {1: "Bad7z", 2: "Crc", 3: "Password", 4: "Unsupported", 5: "Eof", 6: "Other", 7: "Hang"}


def canon_model_result(t, names):
    """model result tree -> value comparable with canon_impl_result"""
    if t[0] == 1:
        return ["hang"] if t[1] == 7 else ["err", ERRNAME[t[1]]]
    v = t[1]
    tag = v[0]
    if tag == 0:
        return ["ok", "names", [names[i] for i in v[1]]]
    if tag == 1:
        return ["ok", "pure"]
    if tag == 2:
        return ["ok", "bool", v[1] == 1]
    if tag == 3:
        return ["ok", "verdict", None if v[1] == [] else v[1][0] == 1]
    if tag == 4:
        return ["ok", "zip", None if v[1] == [] else names[v[1][0]]]
    if tag == 5:
        return ["ok", "deliv", sorted([names[i], bytes(d).hex()] for i, d in v[1]), sorted(names[i] for i in v[2])]
    if tag == 6:
        return ["ok", "unit"]
    raise ValueError(t)


def err_class(name):
    return {"CrcError": "Crc", "PasswordRequired": "Password", "Bad7zFile": "Bad7z",
            "UnsupportedCompressionMethodError": "Unsupported"}.get(name, "Other")


def canon_impl_result(r):
    """observed result -> same vocabulary (pure calls collapse to 'pure'; compared among themselves separately)"""
    if r[0] == "hang":
        return ["hang"]
    if r[0] == "err":
        return ["err", err_class(r[1])]
    v = r[1]
    if v[0] == "names":
        return ["ok", "names", v[1]]
    if v[0] in ("list", "info", "ainfo"):
        return ["ok", "pure"]
    if v[0] == "bool":
        return ["ok", "bool", v[1]]
    if v[0] == "unit":
        return ["ok", "unit"] if v[1] is None else ["ok", "unit-returned", v[1]]
    if v[0] == "verdict":
        return ["ok", "verdict", v[1]]
    if v[0] == "zip":
        return ["ok", "zip", v[1]]
    if v[0] == "deliv":
        return ["ok", "deliv", v[1], []] if v[2] is None else ["ok", "deliv-returned", v[2]]
    if v[0] == "tree":
        files = sorted([e[0], e[2]] for e in v[1] if e[1] == "file")
        if any(e[1] == "link" for e in v[1]) or v[2] is not None:
            return ["ok", "tree-odd", v]
        return ["ok", "deliv", files, "dirs", sorted(e[0] for e in v[1] if e[1] == "dir")]
    raise ValueError(r)


def match_deliv(model_r, impl_r, dir_names_from_files):
    """xall_p: the model lists the member directories; the tree also has the parents of files"""
    if impl_r[:2] == ["ok", "deliv"] and len(impl_r) == 5:
        if model_r[:2] != ["ok", "deliv"]:
            return False
        dirs_m = set(model_r[3]) | dir_names_from_files(model_r[2])
        return model_r[2] == impl_r[2] and dirs_m == set(impl_r[4])
    return model_r == impl_r


def parents(files):
    out = set()
    for n, _ in files:
        while "/" in n:
            n = n.rsplit("/", 1)[0]
            out.add(n)
    return out


def canon_events(evs):
    """observed per-call events -> {handle-class: [[kind, arg]...]} with consecutive reads merged, tells dropped,
    extra handles renamed by their first seek position, their close (garbage collection) dropped"""
    per = {}
    for e in evs:
        per.setdefault(e[1], []).append(e)
    out = {}
    odd = []
    for h, es in per.items():
        seq = []
        for e in es:
            if e[0] == "open":
                seq.append(["open", e[2]])
            elif e[0] == "seek":
                if e[3] != 0:
                    odd.append(e)
                seq.append(["seek", e[4]])
            elif e[0] == "read":
                if e[3] == 0:
                    continue
                if seq and seq[-1][0] == "read":
                    seq[-1][1] += e[3]
                else:
                    seq.append(["read", e[3]])
            elif e[0] == "close":
                if h == 0:
                    seq.append(["close", 0])
            else:
                seq.append([e[0], e[2]])
        out[h] = seq
    main = out.pop(0, [])
    others = sorted(json.dumps(s) for s in out.values() if s)
    return {"main": main, "others": others}


MODECODE = {0: "r", 1: "w", 2: "x", 3: "a", 4: "rb", 5: "w+b", 6: "x+b", 7: "r+b", 8: "wb", 9: "xb"}


def canon_model_events(evs):
    per = {}
    for code, h, arg in evs:
        k = {0: "open", 1: "seek", 2: "read", 3: "close", 4: "write", 5: "hdr"}[code]
        seq = per.setdefault(h, [])
        if k == "open":
            seq.append(["open", MODECODE[arg]])
        elif k == "read":
            if arg <= 0:
                continue
            if seq and seq[-1][0] == "read":
                seq[-1][1] += arg
            else:
                seq.append(["read", arg])
        else:
            seq.append([k, arg])
    main = per.pop(0, [])
    return {"main": main, "others": sorted(json.dumps(s) for s in per.values() if s)}


class Variant:
    """one archive opened one way"""

    def __init__(self, a, kind, password="__own__", mb=None, tag="", fix=(0, 0)):
        self.a = a
        self.kind = kind
        self.password = a["password"] if password == "__own__" else password
        self.mb = mb
        self.name = "%s/%s%s" % (a["name"], kind, tag)
        self.tree, self.names = describe(a, kind, self.password, mb, fix)
        ids = {n: i for i, n in self.names.items()}
        data_members = [n for n, d in a["members"].items() if d]
        # extract(T): the second data member of the last folder that has two, else the only one -- leaves the folder's
        # decoder in the middle of its stream
        fos = self.tree[1]
        groups = [[f[0] for f in self.tree[0] if not f[1]]] if len(fos) == 1 else [[m[0] for m in fo[0]] for fo in fos]
        pick = None
        for g in groups:
            if len(g) >= 2:
                pick = g[1]
        if pick is None:
            pick = groups[-1][0]
        self.targets = [self.names[pick]]
        self.target_ids = [pick]
        self.getinfo = data_members[0]
        self.nfolders = len(fos)
        self.pp = (self.password is not None) or bool(self.tree[5])
        self.pw_missing = bool(self.tree[5]) and self.password is None
        self.spec = {"path": a["path"], "kind": kind, "password": self.password, "targets": self.targets,
                     "getinfo": self.getinfo, "mb": mb}
        # verdicts the property asks for, from how the archive was built (not from the model)
        self.want_zip = a["damaged"]
        self.has_pcrc = any(fo[3] != [] for fo in fos)
        self.want_test = (None if not self.has_pcrc else (not a["packed_damaged"]))


def run_jobs(variant, jobs, workdir, instrument=True, timeout=None):
    """run [[ops, ending]...] in sandboxed children, restarting after a child that had to leave; -> list of obs"""
    from harness.sandbox import run_sandboxed
    fd, out = tempfile.mkstemp(prefix="o%s_" % variant.name.replace("/", "_"), suffix=".jsonl", dir=workdir)
    os.close(fd)
    res = {}
    skip = 0
    guard = 0
    while skip < len(jobs) and guard < len(jobs) + 2:
        guard += 1
        arg = {"spec": variant.spec, "jobs": jobs, "out": out, "workdir": workdir, "skip": skip, "instrument": instrument}
        st = run_sandboxed("harness.c12:child_batch", arg, timeout=timeout or (60 + 0.5 * len(jobs)), mem_mb=3000)
        lines = [json.loads(x) for x in open(out) if x.strip()]
        for ln in lines:
            res[ln["i"]] = ln["obs"]
        nxt = (max(res) + 1) if res else 0
        if st["status"] == "ok":
            break
        if nxt == skip:
            # the sequence at `skip` killed or stalled the child before reporting anything
            res[skip] = {"ctor": {"events": []}, "ops": [], "end": None, "child": st}
            nxt = skip + 1
        skip = nxt
    os.remove(out)
    return [res.get(i) for i in range(len(jobs))]


def judge(variant, seq, ending, obs, model_trace, baseline, model_oc):
    """-> (findings, stats); a finding = (what, match_keys, concrete)"""
    finds = []
    v = variant
    base = {"archive": v.name, "seq": seq, "ending": ending}

    def add(kind, what, concrete=True, **extra):
        mk = {"kind": kind}
        mk.update(extra)
        finds.append(("%s: %s [%s]: %s" % (v.name, " ".join(seq), ending, what), mk, concrete))

    if obs is None or obs.get("child") or obs["ctor"] is None or "error" in obs["ctor"]:
        add("session-broken", "the session could not be run: %r" % (obs and (obs.get("child") or obs.get("ctor")),))
        return finds
    # ---- constructor: read-only, ends at afterheader
    cev = obs["ctor"]["events"]
    opens = [e for e in cev if e[0] == "open"]
    if any(e[0] in ("write", "truncate") for e in cev):
        add("archive-written", "the constructor writes to the archive", where="constructor")
    if v.kind == "path" and [e[2] for e in opens] != ["rb"]:
        add("open-mode", "mode 'r' opens the archive with %r" % [e[2] for e in opens], where="constructor")
    mc = canon_model_events(model_oc[0])
    seeks = [e for e in cev if e[0] == "seek" and e[1] == 0]
    want_last = [s for s in mc["main"] if s[0] == "seek"][-1][1]
    if not seeks or seeks[-1][4] != want_last or obs["ctor"]["tell"] != want_last:
        add("model-mismatch", "constructor leaves fp at %r, model %r" % (obs["ctor"]["tell"], want_last), concrete=False,
            where="constructor")
    # ---- calls
    dirty = False
    diverged = False     # after the first disagreement with the model the later ones are its consequences
    for i, o in enumerate(obs["ops"]):
        op = o["op"]
        ir = canon_impl_result(o["r"])
        # (P3) nothing written by this call
        if any(e[0] in ("write", "truncate") for e in o["events"]):
            add("archive-written", "%s writes to the archive: %r" % (op, [e for e in o["events"] if e[0] in ("write", "truncate")][:3]),
                where=op)
        bad_open = [e[2] for e in o["events"] if e[0] == "open" and e[2] != "rb"]
        if bad_open:
            add("open-mode", "%s opens the archive with %r" % (op, bad_open), where=op)
        # (P2) verdicts
        handled = False
        if op == "test":
            if ir != ["ok", "verdict", v.want_test]:
                add("test-verdict-wrong", "test() gives %r, right is %r" % (o["r"], v.want_test), op=op, dirty=dirty)
                handled = True
        elif op == "testzip" and not v.pw_missing:
            if ir != ["ok", "zip", v.want_zip]:
                handled = True
                if o["r"][0] == "err" and o["r"][1] == "InternalError" and v.kind == "stream" and v.nfolders > 1 and not v.pp:
                    add("testzip-stream-multifolder", "testzip() raises %s: %s" % (o["r"][1], o["r"][2]), op=op)
                elif dirty and ir == ["hang"]:
                    add("testzip-after-decode-hangs", "testzip() after a decoding call without reset() never returns",
                        op=op, dirty=True)
                elif dirty and ir[:2] == ["ok", "zip"]:
                    add("testzip-after-decode-wrong-verdict",
                        "testzip() after a decoding call without reset() gives %r, right is %r" % (ir[2], v.want_zip),
                        op=op, dirty=True)
                else:
                    add("testzip-verdict-wrong", "testzip() gives %r, right is %r" % (o["r"], v.want_zip), op=op, dirty=dirty)
        # (P1) same result as on a fresh session
        if not handled and baseline is not None and o["r"] != baseline[op]:
            add("differs-from-fresh", "%s gives %r, on a fresh session %r" % (op, _short(o["r"]), _short(baseline[op])),
                op=op, dirty=dirty)
            handled = True
        # correspondence with the model
        if diverged:
            pass
        elif i < len(model_trace):
            mr_t, mev, mfp = model_trace[i]
            mr = canon_model_result(mr_t, v.names)
            same = match_deliv(mr, ir, parents) if op == "xall_p" else (mr == ir)
            if not same:
                add("model-mismatch", "%s: implementation %r, model %r" % (op, _short(ir), _short(mr)), concrete=False, op=op,
                    part="result")
                diverged = True
            elif ir != ["hang"]:
                ce, me = canon_events(o["events"]), canon_model_events(mev)
                if ce != me:
                    add("model-mismatch", "%s: file operations %r, model %r" % (op, ce, me), concrete=False, op=op, part="events")
                    diverged = True
                elif o["tell"] != mfp:
                    add("model-mismatch", "%s: fp at %r, model %r" % (op, o["tell"], mfp), concrete=False, op=op, part="fp")
                    diverged = True
        else:
            add("model-mismatch", "%s: the model's session ended before this call" % op, concrete=False, op=op, part="length")
            diverged = True
        dirty = next_dirty(dirty, op)
    if not diverged and len(model_trace) > len(obs["ops"]):
        add("model-mismatch", "the implementation's session ended after %d calls, the model's after %d" % (
            len(obs["ops"]), len(model_trace)), concrete=False, part="length")
    # ---- end of the session
    end = obs["end"]
    if end is None:
        add("session-broken", "no end-of-session observation")
        return finds
    if not end["sha_same"]:
        add("archive-changed", "SHA-256 of the archive file differs after the session", where="end")
    if v.kind == "stream" and not end["stream_same"]:
        add("archive-changed", "the stream's content differs after the session (or the stream was closed)", where="end")
    if end.get("error"):
        add("end-raises", "ending the session raises %s" % end["error"], where="end")
    if end["how"] in ("close", "with", "exc"):
        want_closed = (v.kind == "path")
        if end["fp_closed"] is not None and bool(end["fp_closed"]) != want_closed:
            add("model-mismatch", "after %s fp.closed = %r" % (end["how"], end["fp_closed"]), concrete=False, part="close")
        me = canon_model_events(model_oc[1])["main"]
        ce = canon_events(end["events"])["main"]
        if ce != me:
            add("model-mismatch", "close: file operations %r, model %r" % (ce, me), concrete=False, part="close")
    return finds


def _short(x):
    s = json.dumps(x, default=str)
    return s if len(s) < 300 else s[:300] + "..."


def work_variant_round(args):
    """pool worker: run the jobs of one variant, compare with the model; -> (findings, n_ops, hanging indices, dist)"""
    import vlib
    vidx, jobs, workdir, baseline = args
    v = _VARIANTS[vidx]
    model = _RetryModel()
    try:
        oc = model.call("rs_open_close", v.tree)
        obs = run_jobs(v, jobs, workdir)
        finds = []
        hang = []
        nops = 0
        dist = {}
        for k, ((seq, ending), o) in enumerate(zip(jobs, obs)):
            mt = model.call("rs_run", [v.tree, model_ops(seq, v.target_ids)])
            finds += judge(v, seq, ending, o, mt, baseline, oc)
            if o and o.get("ops"):
                nops += len(o["ops"])
                last = o["ops"][-1]["r"]
                if last == ["hang"]:
                    hang.append(k)
                for x in o["ops"]:
                    key = x["r"][0] if x["r"][0] != "err" else "err:" + x["r"][1]
                    dist[key] = dist.get(key, 0) + 1
        smp = None
        if jobs and obs and obs[-1] and obs[-1].get("ops"):
            smp = {"variant": v.name, "sequence": jobs[-1][0], "ending": jobs[-1][1],
                   "results": [_short(x["r"])[:120] for x in obs[-1]["ops"]]}
        return vidx, finds, nops, hang, dist, smp
    finally:
        model.close()


_VARIANTS = []


class _RetryModel:
    """the extracted model; re-started when the process dies (the executable may be rebuilt by a concurrent check)"""

    def __init__(self):
        import vlib
        self.m = None
        self._start()

    def _start(self):
        import vlib
        last = None
        for k in range(30):
            try:
                self.m = vlib.Model()
                self.m.call("rs_disciplined", [])
                return
            except Exception as e:  # noqa
                last = e
                time.sleep(1.0)
        raise last

    def call(self, name, arg):
        for k in range(5):
            try:
                return self.m.call(name, arg)
            except (RuntimeError, OSError, ValueError, IndexError):
                try:
                    self.m.close()
                except Exception:  # noqa
                    pass
                time.sleep(0.5)
                self._start()
        return self.m.call(name, arg)

    def close(self):
        if self.m:
            self.m.close()


def make_variants(archs, tier, fix=(0, 0)):
    vs = []
    for a in archs:
        for kind in ("path", "stream", "fileobj"):
            vs.append(Variant(a, kind, fix=fix))
    by = {a["name"]: a for a in archs}
    vs.append(Variant(by["E"], "stream", password=None, tag="+nopw", fix=fix))       # encrypted, no password given
    vs.append(Variant(by["M"], "stream", password="needless", tag="+pw", fix=fix))   # plain, a password given: not parallel
    vs.append(Variant(by["S"], "path", mb=7, tag="+mb7", fix=fix))                   # decoding in chunks of 7 bytes
    vs.append(Variant(by["M"], "path", mb=7, tag="+mb7", fix=fix))
    return vs


def probe_repairs(archs, root):
    """which of the two proposed repairs the implementation under test has (selects the model's switches; the
    property is judged without the model either way)"""
    by = {a["name"]: a for a in archs}
    o1 = run_jobs(Variant(by["S"], "path"), [[["xall_f", "testzip"], "close"]], root)[0]
    o2 = run_jobs(Variant(by["M"], "stream"), [[["testzip"], "close"]], root)[0]
    fixz = int(bool(o1 and len(o1.get("ops", [])) == 2 and o1["ops"][1]["r"] == ["ok", ["zip", None]]))
    fixp = int(bool(o2 and len(o2.get("ops", [])) == 1 and o2["ops"][0]["r"] == ["ok", ["zip", None]]))
    return fixz, fixp


def chunks(xs, n):
    k = max(1, (len(xs) + n - 1) // n)
    return [xs[i:i + k] for i in range(0, len(xs), k)]


def check_ctor_open(ctx, rep, root):
    """the constructor's modeDict/retry loop against the model, with open() made to fail for chosen modes"""
    import py7zr
    import py7zr.py7zr as core
    from harness import arch
    model = ctx["model"]
    path = os.path.join(root, "ctor.7z")
    data = arch.make_archive([("a", b"a")], "copy")
    code = {v: k for k, v in MODECODE.items()}
    cases = [("r", []), ("r", ["rb"]), ("r", ["r+b", "w+b", "wb"]), ("a", ["r+b"]), ("a", ["w+b"]), ("a", ["wb"]),
             ("a", []), ("w", ["w+b"]), ("w", ["wb"]), ("x", ["x+b"]), ("x", ["xb"]), ("x", [])]
    for mode, can in cases:
        open(path, "wb").write(data)
        if mode == "x":
            os.remove(path)
        tried = []

        def fake_open(file, fmode="r", *a, **kw):
            if os.fspath(file) == path:
                tried.append(fmode)
                if fmode not in can:
                    raise OSError("refused by the harness")
            return open(file, fmode, *a, **kw)
        core.open = fake_open
        try:
            try:
                z = py7zr.SevenZipFile(path, mode)
                got = tried[-1]
                try:
                    z.close()
                except Exception:  # noqa
                    pass
            except OSError:
                got = None
            except Exception:  # noqa  (e.g. an empty file opened for append)
                got = tried[-1] if tried and tried[-1] in can else None
        finally:
            del core.open
        want = model.call("rs_ctor_open", [code[mode], [code[c] for c in can]]) if model else None
        want_m = None if want in (None, []) else MODECODE[want[0]]
        rep.count(("ctor-open", mode, tuple(can)))
        if mode == "r" and got not in (None, "rb"):
            rep.violation("mode 'r' with open() accepting %r opens the archive with %r" % (can, got),
                          {"kind": "ctor-open", "mode": mode, "can": can}, match_keys={"kind": "open-mode", "where": "constructor"})
        elif model and got != want_m:
            rep.violation("constructor mode %r with open() accepting %r: implementation opens %r, model %r" % (mode, can, got, want_m),
                          {"kind": "ctor-open", "mode": mode, "can": can}, concrete=False,
                          match_keys={"kind": "model-mismatch", "part": "ctor-open"})


def run(ctx):
    global _VARIANTS
    import multiprocessing
    rep, tier = ctx["rep"], ctx["tier"]
    rng = random.Random(ctx["seed"])
    rep.cov["rule"] = ("exhaustive: every sequence of the eleven calls up to the tier's length that obeys the discipline, per "
                       "(archive, way of opening); a sequence is not extended past a call that never returns; the ending "
                       "(close / with / exception in with / abandoned) rotates over the sequences; distinct by (archive, "
                       "opening, sequence, ending); non-trivial = the sequence contains a decoding call or test()")
    root = tempfile.mkdtemp(prefix="c12_")
    t0 = time.time()
    try:
        archs = build_archives(root)
        fix = probe_repairs(archs, root)
        rep.extra["repairs_detected"] = {"testzip_resets_decoders": bool(fix[0]), "testzip_parallel_needs_path": bool(fix[1])}
        _VARIANTS = make_variants(archs, tier, fix)
        if ctx["model"] is None:
            rep.violation("the extracted model is not available", {"kind": "no-model"}, concrete=False,
                          match_keys={"kind": "no-model"})
            return
        model = ctx["model"]
        check_ctor_open(ctx, rep, root)
        # model-side sanity of the inputs: every archive is well-formed for the model; verdict specs agree with how
        # the archives were built
        for v in _VARIANTS:
            ts, zs, wf = model.call("rs_verdicts", v.tree)
            zs_n = None if zs == [] else v.names[zs[0]]
            ts_v = None if ts == [] else ts[0] == 1
            if (wf != 1 and not v.pw_missing) or zs_n != v.want_zip or ts_v != v.want_test:
                rep.violation("%s: model input/verdict specification disagree with how the archive was built: wf=%r zip=%r/%r "
                              "test=%r/%r" % (v.name, wf, zs_n, v.want_zip, ts_v, v.want_test), {"kind": "harness", "archive": v.name},
                              concrete=False, match_keys={"kind": "harness"})
                return
        maxlen = 3 if tier == "quick" else 4
        deep = [] if tier == "quick" else ["S/path", "M/path", "M/stream", "E/stream"]   # length 5
        nproc = 16
        findings = []
        total_ops = 0
        dist = {}
        hang_examples = []
        with multiprocessing.Pool(nproc) as pool:
            # the fresh-session results (baseline of "same as on a fresh session"): one call per session
            baselines = {}
            frontier = {}
            bl = pool.map(_baseline_worker, [(i, root) for i in range(len(_VARIANTS))])
            for vidx, b, hung in bl:
                baselines[vidx] = b
                frontier[vidx] = [[]]
            n_seq = 0
            ei = 0
            for length in range(1, 6):
                tasks = []
                meta = []
                for vidx, v in enumerate(_VARIANTS):
                    lim = 5 if v.name in deep else maxlen
                    if tier == "quick" and v.kind == "fileobj" and v.nfolders == 1:
                        lim = 2      # differs from the stream case only in archiveinfo()
                    if length > lim:
                        frontier[vidx] = []
                        continue
                    seqs = [p + [o] for p in frontier[vidx] for o in OPS if disciplined(p + [o])]
                    jobs = []
                    for s in seqs:
                        jobs.append([s, ENDINGS[ei % 4]])
                        ei += 1
                    for part in chunks(jobs, max(1, min(nproc, len(jobs) // 150 + 1))):
                        tasks.append((vidx, part, root, baselines[vidx]))
                        meta.append(part)
                    frontier[vidx] = []
                if not tasks:
                    break
                order = sorted(range(len(tasks)), key=lambda i: -len(tasks[i][1]))
                results = pool.map(work_variant_round, [tasks[i] for i in order], chunksize=1)
                for oi, (vidx, finds, nops, hang, d, smp) in zip(order, results):
                    part = meta[oi]
                    if smp and length >= 3 and any(o in DECODING for o in smp["sequence"]):
                        rep.sample(smp)
                    findings += finds
                    total_ops += nops
                    for k, n in d.items():
                        dist[k] = dist.get(k, 0) + n
                    hs = set(hang)
                    for k, (s, e) in enumerate(part):
                        rep.count((_VARIANTS[vidx].name, tuple(s), e), nontrivial=any(o in DECODING or o == "test" for o in s))
                        n_seq += 1
                        if k in hs:
                            if len(hang_examples) < 40:
                                hang_examples.append((vidx, s))
                        else:
                            frontier[vidx].append(s)
            # endings: every ending on every sequence of length <= 2 (quick) / 3 (thorough) of two variants
            for vname in ("S/path", "M/stream"):
                vidx = [i for i, v in enumerate(_VARIANTS) if v.name == vname][0]
                L = 2 if tier == "quick" else 3
                seqs = [[]]
                allseqs = []
                for _ in range(L):
                    seqs = [p + [o] for p in seqs for o in OPS if disciplined(p + [o]) and not (p and _hangs(p, hang_examples, vidx))]
                    allseqs += seqs
                jobs = [[s, e] for s in allseqs for e in ENDINGS]
                parts = chunks(jobs, nproc)
                for (vi, finds, nops, hang, d, smp), part in zip(pool.map(work_variant_round, [(vidx, p, root, baselines[vidx]) for p in parts]), parts):
                    findings += finds
                    total_ops += nops
                    for s, e in part:
                        rep.count((vname, tuple(s), e, "endings"), nontrivial=True)
                        n_seq += 1
            # hangs confirmed without instrumentation (wall clock only)
            confirm = []
            seen = set()
            for vidx, s in hang_examples:
                key = (_VARIANTS[vidx].a["name"], _VARIANTS[vidx].kind, s[-2] if len(s) > 1 else "")
                if key in seen:
                    continue
                seen.add(key)
                confirm.append((vidx, s, root))
            confirm = confirm[: (4 if tier == "quick" else 16)]
            confirmed = pool.map(_confirm_hang, confirm)
            for (vidx, s, _), ok in zip(confirm, confirmed):
                if not ok:
                    findings.append(("%s: %s: the no-progress detector reported a hang that a plain run does not show" % (
                        _VARIANTS[vidx].name, " ".join(s)), {"kind": "harness", "part": "hang-detector"}, False))
            rep.extra["hangs_confirmed_without_instrumentation"] = sum(1 for x in confirmed if x)
        rep.extra["sequences_run"] = n_seq
        rep.extra["calls_run"] = total_ops
        rep.extra["variants"] = [v.name for v in _VARIANTS]
        rep.extra["max_sequence_length"] = {"all": maxlen, "deep": deep and 5}
        rep.extra.setdefault("distribution", {})["call_outcome"] = dist
        rep.extra["exploration_seconds"] = round(time.time() - t0, 1)
        # report: concrete violations first, shortest sequence first; one per distinct (match keys, archive)
        def seq_of(what):
            head = what.split(" [")[0]
            vname, seqs = head.split(": ", 1)
            return vname, seqs.split(" ")
        findings.sort(key=lambda f: (not f[2], len(seq_of(f[0])[1]), len(f[0]), f[0]))
        seen = set()
        n_mm = 0
        for what, mk, concrete in findings:
            vname, seq = seq_of(what)
            key = json.dumps(mk, sort_keys=True) + ("" if mk["kind"] == "model-mismatch" else vname.split("/")[0])
            if key in seen:
                continue
            seen.add(key)
            if mk["kind"] == "model-mismatch":
                n_mm += 1
                if n_mm > 4:
                    continue
            if len(rep.violations) >= 10:
                break
            ending = what.split(" [", 1)[1].split("]")[0] if " [" in what else "close"
            rep.violation(what, {"kind": mk["kind"], "variant": vname, "seq": seq, "ending": ending},
                          concrete=concrete, match_keys=mk)
    finally:
        shutil.rmtree(root, ignore_errors=True)


def _hangs(prefix, hang_examples, vidx):
    return any(vi == vidx and s == prefix for vi, s in hang_examples)


def _baseline_worker(args):
    vidx, root = args
    v = _VARIANTS[vidx]
    obs = run_jobs(v, [[[o], "close"] for o in OPS], root)
    b = {}
    hung = []
    for o, ob in zip(OPS, obs):
        r = ob["ops"][0]["r"] if ob and ob.get("ops") else ["err", "NoObservation", ""]
        b[o] = r
        if r == ["hang"]:
            hung.append(o)
    return vidx, b, hung


def _confirm_hang(args):
    from harness.sandbox import run_sandboxed
    vidx, seq, root = args
    v = _VARIANTS[vidx]
    st = run_sandboxed("harness.c12:child_plain", {"spec": v.spec, "ops": seq, "workdir": root}, timeout=4.0, mem_mb=3000)
    return st["status"] == "timeout"


# ============================================================================================== replay
def replay(d):
    """re-run the recorded sequence without instrumentation; 1 = still fails"""
    from harness.sandbox import run_sandboxed
    r = d["replay"]
    if r.get("kind") == "ctor-open":
        print("constructor open-mode case: re-run the check (needs the model)")
        return 2
    if "variant" not in r:
        print(json.dumps(r)[:1500])
        return 2
    root = tempfile.mkdtemp(prefix="c12r_")
    try:
        archs = build_archives(root)
        vs = make_variants(archs, "quick")
        v = [x for x in vs if x.name == r["variant"]][0]
        seq = r["seq"]
        st = run_sandboxed("harness.c12:child_plain", {"spec": v.spec, "ops": seq, "ending": r.get("ending", "close"),
                                                      "workdir": root}, timeout=15.0, mem_mb=3000)
        print("archive %s, calls %s" % (v.name, " ".join(seq)))
        if st["status"] == "timeout":
            print("the session does not return within 15 s (spinning)")
            return 1
        if st["status"] != "ok":
            print("child:", st)
            return 1
        obs = st["value"]
        base = {}
        for o in set(seq):
            s1 = run_sandboxed("harness.c12:child_plain", {"spec": v.spec, "ops": [o], "workdir": root}, timeout=15.0)
            base[o] = s1["value"]["ops"][0]["r"] if s1["status"] == "ok" and s1["value"]["ops"] else ["hang"]
        bad = 0
        for o in obs["ops"]:
            print("  %-15s -> %s" % (o["op"], _short(o["r"])))
            if o["r"] != base.get(o["op"]):
                print("      differs from a fresh session: %s" % _short(base.get(o["op"])))
                bad = 1
            if o["op"] == "testzip" and not v.pw_missing and canon_impl_result(o["r"]) != ["ok", "zip", v.want_zip]:
                print("      right verdict: %r" % (v.want_zip,))
                bad = 1
            if o["op"] == "test" and canon_impl_result(o["r"]) != ["ok", "verdict", v.want_test]:
                print("      right verdict: %r" % (v.want_test,))
                bad = 1
            if any(e[0] in ("write", "truncate") or (e[0] == "open" and e[2] != "rb") for e in o["events"]):
                print("      writes / opens writable:", [e for e in o["events"] if e[0] in ("write", "truncate", "open")])
                bad = 1
        end = obs.get("end") or {}
        if end and (not end.get("sha_same", True) or end.get("stream_same") is False):
            print("  the archive's bytes changed")
            bad = 1
        if any(e[0] == "open" and e[2] != "rb" for e in obs["ctor"]["events"]):
            print("  constructor opens", [e for e in obs["ctor"]["events"] if e[0] == "open"])
            bad = 1
        return bad
    finally:
        shutil.rmtree(root, ignore_errors=True)
