"""sandbox.py -- run a call sequence on the implementation in a child process under a
wall-clock and address-space limit, so that hangs and memory blow-ups of the code
under test become observations instead of taking the check down.

    from harness.sandbox import run_sandboxed
    out = run_sandboxed("harness.c05:worker", arg, timeout=10, mem_mb=1500)
    # out = {"status": "ok", "value": <json>} | {"status": "exc", "type": "...", "msg": "..."}
    #     | {"status": "timeout"} | {"status": "crash", "rc": n} | {"status": "memory"}

`target` names a function "module:function" importable with tools/ on sys.path; it receives
the JSON-decoded argument and must return something JSON-encodable."""
import json
import os
import subprocess
import sys

_CHILD = r"""
import sys, json, resource, importlib, os
sys.path.insert(0, %(tools)r)
mem = %(mem)d
if mem > 0:
    resource.setrlimit(resource.RLIMIT_AS, (mem << 20, mem << 20))
mod, fn = %(target)r.split(":")
arg = json.loads(sys.stdin.read())
try:
    f = getattr(importlib.import_module(mod), fn)
    val = f(arg)
    out = {"status": "ok", "value": val}
except MemoryError as e:
    out = {"status": "memory"}
except BaseException as e:
    out = {"status": "exc", "type": type(e).__name__, "msg": str(e)[:300]}
sys.stdout.write("\n@@RESULT@@" + json.dumps(out, default=str))
"""


def run_sandboxed(target, arg, timeout=10.0, mem_mb=2048, cwd=None):
    tools = os.path.dirname(os.path.dirname(os.path.abspath(__file__)))
    env = dict(os.environ)
    env.setdefault("PYTHONPATH", "/repo")
    env["PYTHONHASHSEED"] = "0"
    code = _CHILD % {"tools": tools, "mem": mem_mb, "target": target}
    try:
        p = subprocess.run([sys.executable, "-c", code], input=json.dumps(arg), capture_output=True, text=True,
                           timeout=timeout, env=env, cwd=cwd)
    except subprocess.TimeoutExpired:
        return {"status": "timeout"}
    if "@@RESULT@@" in p.stdout:
        return json.loads(p.stdout.split("@@RESULT@@")[-1])
    if "MemoryError" in p.stderr:
        return {"status": "memory"}
    return {"status": "crash", "rc": p.returncode, "stderr": p.stderr[-500:]}
