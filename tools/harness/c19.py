"""C19 -- The command line mirrors the library and its exit status tells the truth.

Three layers:
  A  correspondence of coq/theories/Cli.v with py7zr/cli.py
       * _check_volumesize_valid / _volumesize_unitconv on every short string over a boundary alphabet,
       * the exit-status logic of run_test / run_extract / run_list / run_create / run_append: the real
         Cli().run(argv) with the library calls replaced by stubs that produce each modelled outcome
         (the real SevenZipFile.testzip runs on top of a stub Worker),
       * the volume-suffix test of run_list;
  B  property on the implementation, model as oracle: documented volume sizes are accepted; no outcome that
     is not a success yields status 0;
  C  exploration with real processes (`python -m py7zr ...`): c/x/l/t/a round trips on small trees, volumes,
     damaged / truncated / encrypted / unsupported archives.
"""
import concurrent.futures
import contextlib
import io
import itertools
import json
import lzma
import os
import random
import re
import shutil
import struct
import subprocess
import sys
import tempfile
import types
import zlib

import py7zr
import py7zr.archiveinfo as ai
import py7zr.cli as cli_mod
import py7zr.exceptions as pex
import py7zr.py7zr as core
from py7zr.properties import PROPERTY

from harness import arch

GEN_DEPS = ["Cli._check_volumesize_valid", "Cli._volumesize_unitconv"]
LEVEL = "proof"
TRUSTED_BASE = [
    "Coq 8.16.1 kernel, vm_compute (no native_compute); no axioms (Print Assumptions: closed)",
    "tools/translate.py + theories/PyPrims.v, PyStr.v, PyRe.v (semantics of the Python primitives, of the one regular-"
    "expression family and of int(str)/dict lookups; differential-tested here by harness/prims.py): the C19_gen_* theorems "
    "are about coq/gen/CliVol.v, regenerated from class Cli of py7zr/cli.py on this run",
    "theories/Cli.v as a transcription of py7zr/cli.py (dunits, unit_pattern, _check_volumesize_valid, "
    "_volumesize_unitconv, run_test, run_extract, run_list, run_create, run_append) and of SevenZipFile.testzip; "
    "tied to the code by the correspondence run of this check (exhaustive over the modelled outcome space)",
    "semantics of Python's re for ^([0-9]+)([bkmg]?)$ with IGNORECASE and of int() (4300-digit limit) as modelled; "
    "differential-tested here",
    "CPython process exit status: sys.exit(None)=0, sys.exit(n)=n, SystemExit(n)=n, uncaught exception=1",
    "in_help_grammar/help_size as a reading of docs/user_guide.rst `-v | --volume {Size}[b|k|m|g]`",
    "extraction (ExtrOcamlBasic only) + ocaml/driver.ml for running the model",
]
ASSUMPTIONS = [
    "the theorems quantify over what the library calls do (return / raise which class); that a damaged archive makes "
    "the library raise is the subject of C04/C12, here only explored with real processes",
    "printed text (tables, progress, messages) is not modelled; argparse's own errors (status 2) are not modelled",
    "getpass (-P) is only modelled as 'may raise GetPassWarning'; no real terminal is driven",
]

PYEXE = "/venv/bin/python"


def _repo():
    import vlib
    return vlib.REPO


# ====================================================================== A1: volume sizes

def cps(s):
    return [ord(c) for c in s]


def volsize_alphabet():
    # digits (boundary ones), the unit letters of both cases, and characters around the grammar:
    # another lower/upper letter, '-', '.', ' ', newline, U+212A KELVIN SIGN (lower() == 'k'),
    # a full-width and an Arabic-Indic digit (\d but not [0-9])
    return list("019") + list("bkmgBKMG") + ["x", "P", "-", ".", " ", "\n", "\u212a", "\uff11", "\u0663"]


def volsize_strings(tier):
    alpha = volsize_alphabet()
    maxlen = 3 if tier == "quick" else 4
    for n in range(0, maxlen + 1):
        for t in itertools.product(alpha, repeat=n):
            yield "".join(t)
    # one more letter over a reduced alphabet
    for t in itertools.product(["0", "1", "b", "k", "K", "G", "x", "\n", "\u212a", "-"], repeat=maxlen + 1):
        yield "".join(t)
    # all ten digits with every unit
    for d in "0123456789":
        for u in [""] + list("bkmgBKMG"):
            yield d + u
            yield "1" + d + u
    for s in ["1000", "10240", "4294967296", "18446744073709551616", "0000012k", "007", "2147483648b", "1kk", "1k\n\n",
              "\n1k", "1\nk", "1k ", "1\r", "1k\r\n", "1\u212a\n", "12\u00b5", "1\u1e9e", "1\u0131", "1\u017f"]:
        yield s
    for n in ((999, 4300, 4301) if tier == "quick" else (999, 1000, 4299, 4300, 4301, 4302, 5000)):
        for lead in (("1", "0") if tier == "quick" else ("1", "0", "9")):
            for u in (("", "k", "x") if tier == "quick" else ("", "k", "G", "\n", "x")):
                yield lead * n + u
                yield "0" * (n - 1) + "7" + u


def impl_volsize(cli, s):
    try:
        v = cli._check_volumesize_valid(s)
    except Exception as e:  # noqa
        v = "raise " + type(e).__name__
    try:
        u = [0, cli._volumesize_unitconv(s)]
    except KeyError:
        u = [1]
    except ValueError:
        u = [2]
    except Exception as e:  # noqa
        u = ["raise " + type(e).__name__]
    return v, u


HELP_RE = re.compile(r"[0-9]+[bkmg]?\Z")   # docs/user_guide.rst: -v | --volume {Size}[b|k|m|g]
MULT = {"": 1, "b": 1, "k": 1024, "m": 1024 ** 2, "g": 1024 ** 3}


def ref_help(s):
    """the documented grammar, transcribed independently of the model: (in grammar, size denoted)"""
    if not HELP_RE.match(s) or "\n" in s:
        return False, None
    unit = s[-1] if s[-1] in "bkmg" else ""
    num = s[:-1] if unit else s
    return True, (int(num) if len(num) <= 4300 else None, unit)


def check_volsize(ctx, rep, rng, tier):
    model = ctx["model"]
    cli = cli_mod.Cli()
    # the documentation the grammar was read from is still there
    doc = os.path.join(_repo(), "docs", "user_guide.rst")
    if os.path.exists(doc):
        txt = open(doc, encoding="utf-8").read()
        if "{Size}[b|k|m|g]" not in txt:
            rep.violation("docs/user_guide.rst no longer documents `-v | --volume {Size}[b|k|m|g]`; in_help_grammar of "
                          "Cli.v is no longer the documented grammar", {"kind": "help-grammar-source"}, concrete=False,
                          match_keys={"kind": "help-grammar-source"})
    n = 0
    reported = set()
    observations = rep.extra.setdefault("observations", [])
    for s in volsize_strings(tier):
        n += 1
        valid, conv = impl_volsize(cli, s)
        in_g, denoted = ref_help(s)
        rep.count(("vs", s), nontrivial=bool(valid))
        if len(s) <= 6:
            rep.dist("volsize_class", ("valid" if valid else "invalid") + "/" + {0: "value", 1: "KeyError", 2: "ValueError"}.get(
                conv[0], str(conv[0])))
        if model is not None:
            mv, mc, mg, mh, mu = model.call("cli_volsize_all", cps(s))
            if (mv == 1) != bool(valid) or not isinstance(valid, bool) or mc != conv:
                corr_violation(rep, "volsize", "volume size %r: cli.py gives valid=%r conv=%r, Cli.v gives valid=%r conv=%r" % (
                    s[:40], valid, _short(conv), mv, _short(mc)), {"kind": "volsize", "s": cps(s)},
                    {"kind": "volsize-correspondence"})
            if (mg == 1) != in_g or (in_g and denoted[0] is not None and mh != denoted[0] * MULT[denoted[1]]):
                corr_violation(rep, "grammar", "in_help_grammar/help_size of Cli.v disagree with the documented grammar on %r" % s[:40],
                               {"kind": "volsize", "s": cps(s)}, {"kind": "help-grammar-model"})
        # property on the implementation: a documented size is accepted and converted to what it denotes
        if in_g:
            want = None if denoted[0] is None else denoted[0] * MULT[denoted[1]]
            if valid is True and want is not None and conv == [0, want]:
                continue
            if want is None:
                # more than 4300 digits: int() refuses; sizes of 10^4300 bytes -- recorded, not a finding
                if "digits>4300" not in reported:
                    reported.add("digits>4300")
                    observations.append("a SIZE of more than 4300 digits passes the validity check and then raises "
                                        "ValueError (int() digit limit): valid=%r conv=%r" % (valid, _short(conv)))
                continue
            if want == 0:
                continue            # a volume size of 0 bytes: nothing to require
            unitless = denoted[1] == ""
            key = "volsize-no-unit" if unitless else "volsize-unit"
            if key in reported:
                continue
            reported.add(key)
            rep.violation("volume size %r is documented ({Size}[b|k|m|g]) and passes _check_volumesize_valid=%r, but "
                          "_volumesize_unitconv gives %s instead of %d" % (
                              s, valid, {1: "KeyError", 2: "ValueError"}.get(conv[0], _short(conv)), want),
                          {"kind": "volsize", "s": cps(s)}, match_keys={"kind": key})
        elif valid and conv[0] != 0 and len(s) < 100:
            tag = "accepted-then-%s" % {1: "KeyError", 2: "ValueError"}.get(conv[0], conv[0])
            if tag + repr(s[-1:]) not in reported:
                reported.add(tag + repr(s[-1:]))
                observations.append("undocumented SIZE %r passes the validity check and then raises %s" % (s, tag[14:]))
    rep.extra["volsize_strings"] = n
    rep.sample({"volsize": "2k", "impl": impl_volsize(cli, "2k")})


def check_translation(ctx, rep, rng, tier):
    """translation validation: the functions generated from the current py7zr/cli.py (coq/gen/CliVol.v, extracted) against
    Cli._check_volumesize_valid / Cli._volumesize_unitconv on the strings of check_volsize; and the primitives they are
    built from (re, int(str), dict) against CPython (harness/prims.py)"""
    import vlib
    from harness import prims
    model = ctx["model"]
    if model is None or "gen_cli_volsize" not in vlib.fn_table():
        return
    prims.check_prims(ctx, rep)
    if model.call("gen_cli_volsize", cps("2k")) != [[0, 1], [0, 2048]]:
        if model.call("gen_cli_volsize", cps("2k"))[:1] == [[0, 1]]:
            pass     # a changed multiplier: compared below
        else:
            return   # not the executable that contains the generated functions (its build failure is reported by verif.py)
    cli = cli_mod.Cli()
    n = 0
    for s in volsize_strings(tier):
        valid, conv = impl_volsize(cli, s)
        gv, gc = model.call("gen_cli_volsize", cps(s))
        n += 1
        want_v = [0, 1 if valid else 0] if isinstance(valid, bool) else [1]
        want_c = [0, conv[1]] if conv[0] == 0 else [1]
        if gv[:len(want_v)] != want_v or gc[:len(want_c)] != want_c:
            rep.violation("the functions translated from Cli._check_volumesize_valid/_volumesize_unitconv disagree with the "
                          "Python on %r: generated %s %s, Python valid=%r conv=%s" % (s[:40], _short(gv), _short(gc), valid, _short(conv)),
                          {"kind": "translation", "s": cps(s)[:200]}, concrete=False, match_keys={"kind": "translation"})
            return
    rep.extra["translation_validation_cases"] = n
    rep.count(("translation", n), nontrivial=True, n=n)


_CORR = {}


def corr_violation(rep, key, what, replay, mk):
    """model and implementation disagree: at most 3 reports per part, the run goes on so that the property
    checks below can still turn the disagreement into a concrete failing input"""
    _CORR[key] = _CORR.get(key, 0) + 1
    if _CORR[key] <= 3:
        rep.violation(what, replay, concrete=False, match_keys=mk)


def _short(x):
    try:
        s = repr(x)
    except ValueError:      # int with more than 4300 digits
        s = "<%s with a huge int>" % type(x).__name__
    return s if len(s) < 60 else s[:57] + "..."


# ====================================================================== A2: exit-status logic with a stub library

class _Sentinel(Exception):
    pass


EXC_MAKERS = {
    1: [lambda: pex.Bad7zFile("stub")],
    2: [lambda: pex.PasswordRequired("stub")],
    3: [lambda: pex.UnsupportedCompressionMethodError(b"\x04\xf7\x11\x04", "stub")],
    4: [lambda: pex.DecompressionError("stub")],
    5: [lambda: lzma.LZMAError("stub")],
    6: [lambda: pex.CrcError(1, 2, "member.txt"), lambda: pex.CrcError(1, 2, "")],
    7: [lambda: pex.CrcError(1, 2, None)],
    8: [lambda: KeyError("stub")],
    9: [lambda: ValueError("stub")],
    10: [lambda: AttributeError("stub"), lambda: OSError("stub"), lambda: EOFError("stub"), lambda: pex.InternalError("stub"),
         lambda: struct.error("stub"), lambda: zlib.error("stub"), lambda: TypeError("stub"), lambda: pex.AbsolutePathError("stub"),
         lambda: IndexError("stub"), lambda: ZeroDivisionError("stub"), lambda: pex.ArchiveError("stub"), lambda: RuntimeError("stub"),
         lambda: MemoryError("stub"), lambda: UnicodeDecodeError("utf-16", b"", 0, 1, "stub")],
}


def exc_code(e):
    if isinstance(e, pex.CrcError):
        return 7 if e.args[2] is None else 6
    for code, cls in ((1, pex.Bad7zFile), (2, pex.PasswordRequired), (3, pex.UnsupportedCompressionMethodError),
                      (4, pex.DecompressionError), (5, lzma.LZMAError), (8, KeyError), (9, ValueError)):
        if type(e) is cls:
            return code
    return 10


class StubLib:
    """what the library calls of one CLI run do: lib = [is7z, getpass_warn, open, info, work] with
    open/info/work = [] or [exception code]"""

    def __init__(self, lib, variant=0):
        self.lib = lib
        self.variant = variant
        self.calls = []

    def mk(self, code):
        ms = EXC_MAKERS[code]
        return ms[self.variant % len(ms)]()

    def maybe_raise(self, idx, where):
        self.calls.append(where)
        if self.lib[idx]:
            raise self.mk(self.lib[idx][0])


def make_fake_py7zr(st, record):
    class FakeWorker:
        def __init__(self, *a, **k):
            pass

        def register_filelike(self, *a, **k):
            pass

        def extract(self, *a, **k):
            st.maybe_raise(4, "work")

    class FakeArchive(core.SevenZipFile):
        """the real class (so that the real testzip / reset run) with everything that touches an archive replaced"""

        def __init__(self, file, mode="r", *a, **k):
            record["open"] = {"file": file, "mode": mode, "kw": dict(k)}
            st.maybe_raise(2, "open")
            self.filename = getattr(file, "name", None) or str(file)
            self.mode = mode
            self.fp = io.BytesIO(b"")
            self._filePassed = True
            self.afterheader = 0
            self.files = []
            self.mp = False
            self.password_protected = False
            self.worker = FakeWorker()
            folder = types.SimpleNamespace(decompressor=None, files=[], coders=[])
            unpackinfo = types.SimpleNamespace(folders=[folder], numfolders=1)
            self.header = types.SimpleNamespace(size=40, main_streams=types.SimpleNamespace(
                unpackinfo=unpackinfo, substreamsinfo=types.SimpleNamespace(num_unpackstreams_folders=[2]),
                packinfo=types.SimpleNamespace(packpositions=[0, 0], packsizes=[0], crcs=[], digestdefined=[], packpos=0)))

        def __enter__(self):
            return self

        def __exit__(self, *a):
            return False

        def close(self):
            pass

        # run_test -> print_archiveinfo
        def _get_method_names(self):
            st.maybe_raise(3, "info")
            return ["LZMA2"]

        def _is_solid(self):
            return True

        # testzip (and the reset it may call) are the real ones, on top of the stub worker: py7zr.py7zr.Worker
        # is patched while a case runs

        # run_list / run_extract --verbose
        def archiveinfo(self):
            st.maybe_raise(3, "info")
            return types.SimpleNamespace(filename=self.filename, stat=types.SimpleNamespace(st_size=1), header_size=40,
                                         method_names=["LZMA2"], solid=True, blocks=1, uncompressed=10)

        def list(self):
            st.maybe_raise(4, "work")
            return []

        def extractall(self, path=None, callback=None, **k):
            record["extract"] = {"path": path, "callback": callback is not None}
            st.maybe_raise(4, "work")

        def writeall(self, path, arcname=None):
            record.setdefault("written", []).append(str(path))
            st.maybe_raise(4, "work")

        def write(self, path, arcname=None):
            record.setdefault("written", []).append(str(path))
            st.maybe_raise(4, "work")

    def is_7zfile(f):
        record["is7z_arg"] = f
        return bool(st.lib[0])

    fake = types.SimpleNamespace(SevenZipFile=FakeArchive, is_7zfile=is_7zfile, exceptions=pex,
                                 __version__=py7zr.__version__, __copyright__=py7zr.__copyright__)
    return fake, FakeWorker


class FakeMV:
    def __init__(self, record, *a, **k):
        record["mv"] = {"args": [str(x) for x in a], "kw": {kk: (str(v) if not isinstance(v, int) else v) for kk, v in k.items()}}
        self.name = str(a[0]) if a else None

    def __enter__(self):
        return self

    def __exit__(self, *a):
        return False


@contextlib.contextmanager
def patched(st, record):
    fake, fake_worker = make_fake_py7zr(st, record)
    warn = bool(st.lib[1])

    class GetPassWarning(Warning):
        pass

    def getpass_():
        record["getpass"] = True
        if warn:
            raise GetPassWarning("stub")
        return "secret"

    saved = (cli_mod.py7zr, cli_mod.getpass, cli_mod.multivolumefile, core.Worker)
    cli_mod.py7zr = fake
    cli_mod.getpass = types.SimpleNamespace(getpass=getpass_, GetPassWarning=GetPassWarning)
    class MV(FakeMV):
        def __init__(self, *a, **k):
            FakeMV.__init__(self, record, *a, **k)

    cli_mod.multivolumefile = types.SimpleNamespace(MultiVolume=MV)
    core.Worker = fake_worker
    try:
        yield
    finally:
        cli_mod.py7zr, cli_mod.getpass, cli_mod.multivolumefile, core.Worker = saved


def impl_run(cli, argv, st, record):
    """run the real Cli.run with the stub library; result in the model's encoding"""
    out, err = io.StringIO(), io.StringIO()
    stdin = sys.stdin
    try:
        with patched(st, record), contextlib.redirect_stdout(out), contextlib.redirect_stderr(err):
            sys.stdin = io.StringIO("")      # builtin exit() closes sys.stdin
            try:
                v = cli.run(argv)
                res = [0] if v is None else [0, v]
            except SystemExit as e:
                res = [1, e.code if isinstance(e.code, int) else (0 if e.code is None else 1)]
            except Exception as e:  # noqa
                res = [2, exc_code(e)]
    finally:
        sys.stdin = stdin
    record["stdout"] = out.getvalue()[-300:]
    return res


def libs(tier, rng):
    codes = [[]] + [[c] for c in range(1, 11)]
    for is7z in (1, 0):
        for warn in (0, 1):
            for o in codes:
                for i in codes:
                    for w in codes:
                        yield [is7z, warn, o, i, w]


def check_status_logic(ctx, rep, rng, tier):
    model = ctx["model"]
    cli = cli_mod.Cli()
    tmp = tempfile.mkdtemp(prefix="c19s_")
    cwd = os.getcwd()
    n = 0
    bad_zero = set()
    try:
        os.chdir(tmp)
        arc = os.path.join(tmp, "stub.7z")
        open(arc, "wb").write(b"7z\xbc\xaf\x27\x1c stub")
        all_libs = list(libs(tier, rng))
        cmds = [("t", []), ("x", []), ("x", ["-P"]), ("x", ["--verbose"]), ("x", ["-P", "--verbose"]), ("l", []), ("l", ["--verbose"])]
        for ci, (cmd, flags) in enumerate(cmds):
            for li, lib in enumerate(all_libs):
                if tier == "quick" and lib[0] == 0 and (lib[2] or lib[3] or lib[4]) and (li % 7):
                    continue            # not-a-7z: nothing else is looked at; thinned in the quick tier
                if cmd != "x" and lib[1] and tier == "quick" and (li % 5):
                    continue            # getpass is only reachable from x -P
                st = StubLib(lib, variant=n)
                record = {}
                odir = ["odir"] if (cmd == "x" and (li + ci) % 2) else []
                argv = [cmd] + flags + [arc] + odir
                got = impl_run(cli, argv, st, record)
                n += 1
                key = ("status", cmd, tuple(flags), json.dumps(lib))
                success = bool(lib[0]) and not lib[2] and not lib[4] and \
                    (not lib[3] or (cmd == "x" and "--verbose" not in flags)) and \
                    not (cmd == "x" and "-P" in flags and lib[1])
                rep.count(key, nontrivial=bool(lib[0]))
                rep.dist("status_outcome", "%s:%s" % (cmd, {0: "return", 1: "exit", 2: "raise"}[got[0]]))
                replay = {"kind": "status", "argv": [cmd] + flags + ["<arc>"] + odir, "lib": lib, "variant": st.variant}
                if model is not None:
                    if cmd == "t":
                        want = model.call("cli_run_test", lib)
                    elif cmd == "x":
                        want = model.call("cli_run_extract", [1 if "-P" in flags else 0, 1 if "--verbose" in flags else 0, lib])
                    else:
                        want = model.call("cli_run_list", lib)
                    if want != got:
                        corr_violation(rep, "status-" + cmd, "%s with library behaviour %s: cli.py gives %s, Cli.v gives %s" % (
                            " ".join([cmd] + flags), _libstr(lib), got, want), replay, {"kind": "status-correspondence", "cmd": cmd})
                # property on the implementation: status 0 exactly on success
                status = {0: lambda: 0 if len(got) == 1 else got[1], 1: lambda: got[1], 2: lambda: 1}[got[0]]()
                if model is not None:
                    code = {"l": 0, "t": 5}.get(cmd, 1 + (1 if "-P" in flags else 0) + (2 if "--verbose" in flags else 0))
                    ms = model.call("cli_proc_status", [0, code, lib])
                    if ms != status:
                        corr_violation(rep, "procstatus", "%s with %s: exit status %d from cli.py's result %s, Cli.v's proc_status gives %d" % (
                            " ".join([cmd] + flags), _libstr(lib), status, got, ms), replay, {"kind": "status-correspondence", "cmd": cmd})
                if (status == 0) != success:
                    via = "folder-crc" if (cmd == "t" and lib[4] == [7] and status == 0) else _first_failure(cmd, flags, lib)
                    mk = {"kind": "%s-exit0-damaged" % cmd if status == 0 else "%s-nonzero-on-success" % cmd, "via": via}
                    if (cmd, via) in bad_zero:
                        continue
                    bad_zero.add((cmd, via))
                    rep.violation("%s: library behaviour %s (success=%s) gives exit status %d%s" % (
                        " ".join([cmd] + flags), _libstr(lib), success, status,
                        " -- testzip() returns None for a CrcError whose filename is None (folder-level digest)" if via == "folder-crc" else ""),
                        replay, match_keys=mk)
                # x: odir is passed on, callback only with --verbose
                if cmd == "x" and "extract" in record:
                    e = record["extract"]
                    if ((e["path"] != ("odir" if odir else None)) or e["callback"] != ("--verbose" in flags)) and "x-arguments" not in _CORR:
                        _CORR["x-arguments"] = 1
                        rep.violation("x passes path=%r callback=%r to extractall for argv %r" % (e["path"], e["callback"], argv[:-1]),
                                      replay, match_keys={"kind": "x-arguments"})
        rep.extra["status_cases"] = n
        check_create_append(ctx, rep, rng, tier, cli, tmp)
        check_list_suffix(ctx, rep, rng, tier, cli, tmp)
    finally:
        os.chdir(cwd)
        shutil.rmtree(tmp, ignore_errors=True)


def _first_failure(cmd, flags, lib):
    """the library step responsible for a non-success, in the order the sub-command performs them"""
    if not lib[0]:
        return "not-a-7z-file"
    if cmd == "x" and "-P" in flags and lib[1]:
        return "getpass"
    for idx, nm in ((2, "open"), (3, "info"), (4, "work")):
        if nm == "info" and cmd == "x" and "--verbose" not in flags:
            continue
        if lib[idx]:
            return "%s:%s" % (nm, EXC_NAMES[lib[idx][0]])
    return "none"


EXC_NAMES = {1: "Bad7zFile", 2: "PasswordRequired", 3: "UnsupportedCompressionMethodError", 4: "DecompressionError", 5: "LZMAError",
             6: "CrcError", 7: "CrcError-no-filename", 8: "KeyError", 9: "ValueError", 10: "other"}


def _libstr(lib):
    names = {1: "Bad7zFile", 2: "PasswordRequired", 3: "UnsupportedCompressionMethodError", 4: "DecompressionError", 5: "LZMAError",
             6: "CrcError(name)", 7: "CrcError(filename=None)", 8: "KeyError", 9: "ValueError", 10: "other exception"}
    f = lambda x: "ok" if not x else names[x[0]]  # noqa
    return "{is_7zfile=%s, open: %s, info: %s, work: %s%s}" % (bool(lib[0]), f(lib[2]), f(lib[3]), f(lib[4]),
                                                              ", getpass warns" if lib[1] else "")


def check_create_append(ctx, rep, rng, tier, cli, tmp):
    model = ctx["model"]
    vols = [None, "2k", "2K", "10m", "1g", "3B", "1000", "0", "2P", "k", "", "1kb", "12 k", "1K", "1k\n", "1\n", "007b", "1.5k",
            "9" * 30 + "g"]
    arcs = ["a", "a.7z", "a.7", "a7z", ".7z", "x.7Z", "a.7z.7z", "dir.7z/a", "a.7z ", "7z", "ä.7z", "b.tar"]
    wlibs = [[1, 0, [], [], []], [1, 1, [], [], []], [1, 0, [10], [], []], [1, 0, [], [], [10]], [1, 0, [9], [], []],
             [1, 0, [], [], [4]], [1, 0, [1], [], [3]]]
    os.makedirs(os.path.join(tmp, "dir.7z"), exist_ok=True)
    os.makedirs(os.path.join(tmp, "srcdir"), exist_ok=True)
    open(os.path.join(tmp, "srcfile"), "w").write("x")
    n = 0
    for vol in vols:
        for arcname in arcs:
            for exists in (False, True):
                for pw in (False, True):
                    for lib in (wlibs if tier != "quick" or (vol in (None, "2k", "1000")) else wlibs[:3]):
                        target = arcname if arcname.endswith(".7z") else arcname + ".7z"
                        tp = os.path.join(tmp, target)
                        if exists:
                            open(tp, "w").write("x")
                        elif os.path.exists(tp):
                            os.remove(tp)
                        st = StubLib(lib, variant=n)
                        record = {}
                        argv = ["c", arcname, "srcdir", "srcfile"] + (["-v", vol] if vol is not None else []) + (["-P"] if pw else [])
                        got = impl_run(cli, argv, st, record)
                        n += 1
                        rep.count(("create", vol, arcname, exists, pw, json.dumps(lib)), nontrivial=vol is not None)
                        gt = None
                        gv = None
                        if "mv" in record:
                            gt = record["mv"]["args"][0]
                            gv = record["mv"]["kw"].get("volume")
                        elif "open" in record:
                            gt = str(record["open"]["file"])
                        if model is not None:
                            r, mt, mv = model.call("cli_run_create", [[] if vol is None else [cps(vol)], cps(arcname),
                                                                      1 if exists else 0, 1 if pw else 0, lib])
                            mt = "".join(chr(c) for c in mt)
                            reached = gt is not None
                            ok = r == got and (not reached or (os.path.normpath(mt) == os.path.normpath(gt) and (mv == ([] if gv is None else [gv]))))
                            if ok and reached and "mv" in record and record["mv"]["kw"].get("ext_digits") != 4:
                                ok = False
                            if not ok:
                                corr_violation(rep, "create", "c %r -v %r (exists=%s, -P=%s, lib=%s): cli.py gives %s target=%r volume=%r, Cli.v gives %s %r %r" % (
                                    arcname, vol, exists, pw, lib, got, gt, gv, r, mt, mv),
                                    {"kind": "create", "argv": argv, "lib": lib, "exists": exists}, {"kind": "create-correspondence"})
                        # property on the implementation: the archive c writes is named *.7z; a documented size with a unit
                        # letter reaches multivolumefile as the number of bytes it denotes
                        if gt is not None and not gt.endswith(".7z") and "create-target" not in _CORR:
                            _CORR["create-target"] = 1
                            rep.violation("c %s writes the archive to %r (not *.7z)" % (arcname, gt),
                                          {"kind": "create", "argv": argv, "lib": lib, "exists": exists}, match_keys={"kind": "create-target-suffix"})
                        if gt is not None and vol is not None and ref_help(vol)[0] and ref_help(vol)[1][1] != "":
                            den = ref_help(vol)[1]
                            if gv != den[0] * MULT[den[1]] and "create-volume" not in _CORR:
                                _CORR["create-volume"] = 1
                                rep.violation("c -v %s hands volume=%r to multivolumefile, the size denotes %d bytes" % (vol, gv, den[0] * MULT[den[1]]),
                                              {"kind": "create", "argv": argv, "lib": lib, "exists": exists}, match_keys={"kind": "create-volume-size"})
                        if os.path.exists(tp) and os.path.isfile(tp):
                            os.remove(tp)
    # append
    for arcname in arcs:
        for exists in (False, True):
            for lib in wlibs:
                tp = os.path.join(tmp, arcname)
                if exists:
                    if not os.path.exists(tp):
                        open(tp, "w").write("x")
                elif os.path.isfile(tp):
                    os.remove(tp)
                if os.path.isdir(tp):
                    continue
                st = StubLib(lib, variant=n)
                record = {}
                got = impl_run(cli, ["a", arcname, "srcdir", "srcfile"], st, record)
                n += 1
                rep.count(("append", arcname, exists, json.dumps(lib)))
                if model is not None:
                    want = model.call("cli_run_append", [cps(arcname), 1 if exists else 0, lib])
                    if want != got or ("open" in record and (str(record["open"]["file"]) != os.path.normpath(arcname) or record["open"]["mode"] != "a")):
                        corr_violation(rep, "append", "a %r (exists=%s, lib=%s): cli.py gives %s (%r), Cli.v gives %s" % (
                            arcname, exists, lib, got, record.get("open"), want),
                            {"kind": "append", "arc": arcname, "lib": lib, "exists": exists}, {"kind": "append-correspondence"})
                if os.path.isfile(tp):
                    os.remove(tp)
    rep.extra["create_append_cases"] = n


def check_list_suffix(ctx, rep, rng, tier, cli, tmp):
    """run_list: which names are taken for a volume of a multi-volume archive, and the MultiVolume arguments"""
    model = ctx["model"]
    alpha = ["0", "1", "2", "a", "."]
    n = 0
    for ln in range(0, 5 if tier == "quick" else 7):
        for t in itertools.product(alpha, repeat=ln):
            name = "arc.7z" + ("." + "".join(t) if ln else "")
            st = StubLib([0, 0, [], [], []])
            record = {}
            got = impl_run(cli, ["l", name], st, record)
            import pathlib
            suffix = pathlib.Path(name).suffix
            n += 1
            rep.count(("lsuffix", name), nontrivial="mv" in record)
            if got != [0, 1]:
                rep.violation("l %r with is_7zfile False returns %s" % (name, got), {"kind": "list-suffix", "name": name},
                              match_keys={"kind": "list-suffix"})
                continue
            if model is not None:
                want = model.call("cli_list_volume_args", cps(suffix))
                if "mv" in record:
                    kw = record["mv"]["kw"]
                    g = [[kw.get("ext_digits"), kw.get("ext_start")]]
                    base_ok = record["mv"]["args"][0] == name[: -len(suffix)] and kw.get("mode") == "rb"
                else:
                    g, base_ok = [], True
                if g != want or not base_ok:
                    corr_violation(rep, "lsuffix", "l %r: cli.py opens MultiVolume %r, Cli.v expects %r" % (name, record.get("mv"), want),
                                   {"kind": "list-suffix", "name": name}, {"kind": "list-suffix-correspondence"})
    rep.extra["list_suffix_cases"] = n


# ====================================================================== C: real processes

def run_cli(args, cwd, timeout=60):
    env = dict(os.environ)
    env["PYTHONPATH"] = _repo()
    env["PYTHONHASHSEED"] = "0"
    env.setdefault("TZ", "UTC")
    env["COLUMNS"] = "100"
    try:
        p = subprocess.run([PYEXE, "-m", "py7zr"] + args, cwd=cwd, env=env, stdin=subprocess.DEVNULL, capture_output=True,
                           timeout=timeout)
        return p.returncode, p.stdout.decode("utf-8", "replace"), p.stderr.decode("utf-8", "replace")
    except subprocess.TimeoutExpired:
        return "timeout", "", ""


def build_tree(root, spec, seed):
    """spec: list of ["f", rel, size, texture, mode] | ["d", rel] | ["l", rel, target]"""
    rng = random.Random(seed)
    os.makedirs(root, exist_ok=True)
    for e in spec:
        p = os.path.join(root, e[1])
        if e[0] == "d":
            os.makedirs(p, exist_ok=True)
        elif e[0] == "f":
            os.makedirs(os.path.dirname(p), exist_ok=True)
            with open(p, "wb") as f:
                f.write(arch.pattern_bytes(rng, e[2], e[3]))
            os.chmod(p, e[4])
        else:
            os.makedirs(os.path.dirname(p), exist_ok=True)
            os.symlink(e[2], p)
    # deterministic, distinct, 100ns-representable times, set deepest first
    t0 = 1600000000
    ents = []
    for dp, dns, fns in os.walk(root):
        for nme in dns + fns:
            ents.append(os.path.join(dp, nme))
    for i, p in enumerate(sorted(ents, key=lambda x: -x.count(os.sep))):
        if not os.path.islink(p):
            os.utime(p, ns=((t0 + i) * 10 ** 9 + 123456700, (t0 + i) * 10 ** 9 + 123456700))
    os.utime(root, ns=(t0 * 10 ** 9, t0 * 10 ** 9))


def snap(root, with_times=False):
    """(rel, kind, mode-of-files, size-or-target, sha-of-content[, mtime of files])"""
    import hashlib
    out = []
    for rel, kind, mode, sz, mt in arch.tree_snapshot(root):
        p = os.path.join(root, rel)
        if kind == "file":
            h = hashlib.sha1(open(p, "rb").read()).hexdigest()[:16]
            out.append([rel, kind, mode, sz, h] + ([(mt + 500) // 1000] if with_times else []))
        elif kind == "dir":
            out.append([rel, kind, 0, 0, ""])
        else:
            out.append([rel, kind, 0, sz, ""])
    return out


def parse_listing(out):
    """names printed by `l`, and the member count of the 'total' line"""
    lines = out.splitlines()
    idx = [i for i, ln in enumerate(lines) if ln.startswith("------------------- -----")]
    if len(idx) < 2:
        return None, None
    names = [ln[53:] for ln in lines[idx[0] + 1: idx[-1]]]
    m = re.search(r"total (\d+) files and directories", out)
    return names, int(m.group(1)) if m else None


def lib_names(path):
    with py7zr.SevenZipFile(path, "r") as z:
        return z.getnames()


def finding(what, mk, **detail):
    return {"what": what, "match_keys": mk, "detail": detail}


def has_link(spec):
    return any(e[0] == "l" for e in spec)


def sc_roundtrip(p):
    """c then l, t, x on one tree; returns findings"""
    out = []
    tmp = tempfile.mkdtemp(prefix="c19r_")
    try:
        w = os.path.join(tmp, "w")
        build_tree(os.path.join(w, "top"), p["tree"], p["seed"])
        src = snap(os.path.join(w, "top"), True)
        arcname = p["arcname"]
        rc, so, se = run_cli(["c", arcname, "top"], w)
        target = arcname if arcname.endswith(".7z") else arcname + ".7z"
        if rc != 0 or not os.path.isfile(os.path.join(w, target)):
            return [finding("c %s top exits %s (archive present: %s): %s" % (arcname, rc, os.path.isfile(os.path.join(w, target)), se[-300:]),
                            {"kind": "roundtrip", "step": "c"})]
        names = lib_names(os.path.join(w, target))
        verbose = ["--verbose"] if p["verbose"] else []
        rc, so, se = run_cli(["l"] + verbose + [target], w)
        got, total = parse_listing(so)
        if rc != 0 or got != names or total != len(names):
            out.append(finding("l%s lists %r (total %r, exit %s), the library reports %r: %s" % (
                " --verbose" if verbose else "", got, total, rc, names, se[-200:]), {"kind": "roundtrip", "step": "l"}))
        rc, so, se = run_cli(["t", target], w)
        with py7zr.SevenZipFile(os.path.join(w, target), "r") as z:
            tz = z.testzip()
        if (rc == 0) != (tz is None) or rc != 0:
            out.append(finding("t exits %s on an archive just created by c (library testzip() = %r): %s" % (rc, tz, se[-300:]),
                               {"kind": "roundtrip", "step": "t"}))
        # x, with or without an output directory
        if p["odir"]:
            xcwd, args, dest = w, ["x"] + verbose + [target, "out"], os.path.join(w, "out")
        else:
            xcwd = os.path.join(tmp, "cwd2")
            os.makedirs(xcwd)
            args, dest = ["x"] + verbose + [os.path.join(w, target)], xcwd
        rc, so, se = run_cli(args, xcwd)
        ext = snap(os.path.join(dest, "top"), True) if os.path.isdir(os.path.join(dest, "top")) else None
        if rc != 0 or ext != src:
            if not p["odir"] and has_link(p["tree"]) and "is_path_valid" in se and "AttributeError" in se:
                out.append(finding("x without an output directory on an archive holding a symbolic link: exit %s, AttributeError in "
                                   "is_path_valid(..., None) ('NoneType' object has no attribute 'is_absolute'); tree not reproduced" % rc,
                                   {"kind": "x-no-odir-symlink"}))
            else:
                diff = _snapdiff(src, ext)
                out.append(finding("c then x%s%s does not reproduce the tree (exit %s): %s %s" % (
                    " --verbose" if verbose else "", " <odir>" if p["odir"] else " (no odir)", rc, diff, se[-300:]),
                    {"kind": "roundtrip", "step": "x", "odir": p["odir"]}))
        elif "Traceback" in se:
            out.append(finding("x%s exits 0 and reproduces the tree but prints a traceback: %s" % (" --verbose" if verbose else "", se[-200:]),
                               {"kind": "observation", "what": "x-traceback-exit0"}))
        # the library on the same archive gives the same tree
        if p["odir"] and rc == 0 and ext == src:
            lo = os.path.join(tmp, "libout")
            with py7zr.SevenZipFile(os.path.join(w, target), "r") as z:
                z.extractall(path=lo)
            if snap(os.path.join(lo, "top"), True) != ext:
                out.append(finding("x and SevenZipFile.extractall give different trees", {"kind": "roundtrip", "step": "x-vs-library"}))
        return out
    finally:
        shutil.rmtree(tmp, ignore_errors=True)


def _snapdiff(a, b):
    if b is None:
        return "nothing extracted"
    da = {x[0]: x for x in a}
    db = {x[0]: x for x in b}
    d = []
    for k in sorted(set(da) | set(db)):
        if da.get(k) != db.get(k):
            d.append("%s: %s -> %s" % (k, da.get(k), db.get(k)))
    return "; ".join(d[:4])


def with_packpos(path, k=7):
    """rewrite the archive at `path` into an equivalent one whose packed streams start k bytes after the signature header
    (PackPos = k: valid by the format, written by other tools, never by py7zr); raw header"""
    import io
    import py7zr
    from py7zr.archiveinfo import SignatureHeader
    data = open(path, "rb").read()
    with py7zr.SevenZipFile(io.BytesIO(data), "r") as z:
        h, ah = z.header, z.afterheader
        pi = h.main_streams.packinfo
        packed = data[ah + pi.packpos: ah + pi.packpos + sum(pi.packsizes)]
        pi.packpos = k
        out = io.BytesIO()
        out.write(bytes(32))
        out.write(bytes((i * 37 + 11) & 0xFF for i in range(k)))
        out.write(packed)
        pos, hlen, hcrc = h.write(out, 32, encoded=False)
        sig = SignatureHeader()
        sig.nextheaderofs = pos - 32
        sig.calccrc(hlen, hcrc)
        sig.write(out)
    open(path, "wb").write(out.getvalue())


def sc_append(p):
    out = []
    tmp = tempfile.mkdtemp(prefix="c19a_")
    try:
        w = os.path.join(tmp, "w")
        build_tree(os.path.join(w, "top1"), p["tree1"], p["seed"])
        build_tree(os.path.join(w, "top2"), p["tree2"], p["seed"] + 1)
        s1, s2 = snap(os.path.join(w, "top1")), snap(os.path.join(w, "top2"))
        rc, so, se = run_cli(["c", "arc.7z", "top1"], w)
        if rc != 0:
            return [finding("c exits %s: %s" % (rc, se[-200:]), {"kind": "append", "step": "c"})]
        if p.get("base") == "packpos":
            # the same base as another conforming writer lays it out: packed streams not directly after the signature header
            with_packpos(os.path.join(w, "arc.7z"), p.get("packpos", 7))
            rc, so, se = run_cli(["x", "arc.7z", "chk"], w)
            if rc != 0 or snap(os.path.join(w, "chk", "top1")) != s1:
                return [finding("the base rewritten with PackPos > 0 is not read back by x (exit %s): %s" % (rc, se[-200:]),
                                {"kind": "append", "step": "packpos-base"})]
            shutil.rmtree(os.path.join(w, "chk"), ignore_errors=True)
        names1 = lib_names(os.path.join(w, "arc.7z"))
        what = p.get("append", ["top2"])
        rc, so, se = run_cli(["a", "arc.7z"] + what, w)
        if rc != 0:
            return [finding("a exits %s: %s" % (rc, se[-300:]), {"kind": "append", "step": "a"})]
        rc, so, se = run_cli(["l", "arc.7z"], w)
        got, total = parse_listing(so)
        names = lib_names(os.path.join(w, "arc.7z"))
        if rc != 0 or got != names:
            out.append(finding("after a, l lists %r (exit %s), library %r" % (got, rc, names), {"kind": "append", "step": "l"}))
        if names[:len(names1)] != names1 or len(names) <= len(names1):
            out.append(finding("a disturbed the member list: before %r after %r" % (names1, names), {"kind": "append", "step": "names"}))
        rct, so, se = run_cli(["t", "arc.7z"], w)
        rc, so, se2 = run_cli(["x", "arc.7z", "out"], w)
        e1 = snap(os.path.join(w, "out", "top1")) if os.path.isdir(os.path.join(w, "out", "top1")) else None
        if e1 != s1:
            out.append(finding("a disturbed earlier members: %s (x exit %s)" % (_snapdiff(s1, e1), rc), {"kind": "append", "step": "earlier-members"}))
        e2 = snap(os.path.join(w, "out", "top2")) if os.path.isdir(os.path.join(w, "out", "top2")) else None
        if what != ["top2"]:
            rels = [os.path.relpath(y, "top2") for y in what]
            s2 = [x for x in s2 if x[0] in rels]
            e2 = None if e2 is None else [x for x in e2 if x[0] in rels]
        if rc != 0 or rct != 0 or e2 != s2:
            out.append(finding("a exits 0 but the members it added cannot be read back: t exits %s, x exits %s (%s); %s" % (
                rct, rc, (se2.strip().splitlines() or [""])[-1][:160], _snapdiff(s2, e2)),
                {"kind": "a-new-members-unreadable", "shape": p["shape"]}))
        return out
    finally:
        shutil.rmtree(tmp, ignore_errors=True)


def sc_volume(p):
    out = []
    tmp = tempfile.mkdtemp(prefix="c19v_")
    try:
        w = os.path.join(tmp, "w")
        build_tree(os.path.join(w, "top"), p["tree"], p["seed"])
        src = snap(os.path.join(w, "top"))
        size = p["size"]
        rc, so, se = run_cli(["c", "arc", "top", "-v", size], w, timeout=120)
        vols = sorted(f for f in os.listdir(w) if f.startswith("arc.7z."))
        # the documented grammar; upper-case unit letters are an (undocumented) extension the code accepts
        in_g, den = ref_help(size[:-1] + size[-1:].lower())
        want = den[0] * MULT[den[1]] if in_g else None
        if not in_g:
            if rc == 0 or vols:
                out.append(finding("c -v %r (not a documented size) exits %s and leaves %r" % (size, rc, vols), {"kind": "volume", "step": "reject"}))
            elif rc != 1 or "Specified volume size is invalid" not in se:
                out.append(finding("c -v %r (not a documented size) exits %s: %s" % (size, rc, se[-200:]), {"kind": "observation", "what": "invalid-size-not-clean"}))
            return out
        if rc != 0:
            last = (se.strip().splitlines() or [""])[-1]
            if den[1] == "" and "KeyError" in last:
                return [finding("c -v %s: the documented unit-less SIZE passes the validity check, then _volumesize_unitconv raises KeyError '' "
                                "(dunits[\"\"]); exit %s, no archive" % (size, rc), {"kind": "volsize-no-unit"})]
            if "RecursionError" in last or "Too many open files" in last:
                return [finding("c -v %s on a %d-byte tree: %s in multivolumefile after %d volumes (one recursive call and one open file per volume)" % (
                    size, sum(x[3] for x in src if x[1] == "file"), last[:80], len(vols)), {"kind": "volsize-many-volumes", "where": "multivolumefile"})]
            return [finding("c -v %s exits %s: %s" % (size, rc, last[:200]), {"kind": "volume", "step": "c"})]
        sizes = [os.path.getsize(os.path.join(w, v)) for v in vols]
        exp = ["arc.7z.%04d" % (i + 1) for i in range(len(vols))]
        if vols != exp or not vols or any(s != want for s in sizes[:-1]) or not (0 <= sizes[-1] <= want):
            out.append(finding("c -v %s: volumes %r of sizes %r, expected %d bytes each" % (size, vols[:5], sizes[:5], want), {"kind": "volume", "step": "sizes"}))
            return out
        with open(os.path.join(w, "cat.7z"), "wb") as f:
            for v in vols:
                f.write(open(os.path.join(w, v), "rb").read())
        rc, so, se = run_cli(["t", "cat.7z"], w)
        rc2, so2, se2 = run_cli(["x", "cat.7z", "out"], w)
        ext = snap(os.path.join(w, "out", "top")) if os.path.isdir(os.path.join(w, "out", "top")) else None
        if rc != 0 or rc2 != 0 or ext != src:
            out.append(finding("c -v %s: the concatenated volumes do not give the tree back (t %s, x %s): %s" % (size, rc, rc2, _snapdiff(src, ext)),
                               {"kind": "volume", "step": "concat"}))
            return out
        names = lib_names(os.path.join(w, "cat.7z"))
        rc, so, se = run_cli(["l", "arc.7z.0001"], w)
        got, total = parse_listing(so)
        if rc != 0 or got != names:
            last = (se.strip().splitlines() or [""])[-1]
            out.append(finding("l arc.7z.0001 on %d volumes of %s: exit %s, lists %r; the concatenation lists fine (%s)" % (
                len(vols), size, rc, None if got is None else len(got), last[:120]),
                {"kind": "l-multivolume", "via": "short-read" if ("invalid header data" in last or "struct.error" in last or "Bad7zFile" in last) else "other"}))
        return out
    finally:
        shutil.rmtree(tmp, ignore_errors=True)


# ---------------------------------------------------------------------- damaged archives

def folder_crc_archive(name, data, chain="copy"):
    """a one-file archive whose CRC is stored at folder level only (the layout 7-Zip writes for non-solid
    archives); py7zr's own writer never produces it"""
    bio = io.BytesIO()
    with py7zr.SevenZipFile(bio, "w", filters=arch.CHAINS[chain]) as z:
        z.set_encoded_header_mode(False)
        z.writestr(data, name)
    raw = bio.getvalue()
    z = py7zr.SevenZipFile(io.BytesIO(raw))
    h, ms = z.header, z.header.main_streams
    out = io.BytesIO()
    out.write(PROPERTY.HEADER)
    out.write(PROPERTY.MAIN_STREAMS_INFO)
    ms.packinfo.write(out)
    ui = ms.unpackinfo
    out.write(PROPERTY.UNPACK_INFO)
    out.write(PROPERTY.FOLDER)
    ai.write_uint64(out, ui.numfolders)
    out.write(b"\x00")
    for f in ui.folders:
        f.write(out)
    out.write(PROPERTY.CODERS_UNPACK_SIZE)
    for f in ui.folders:
        for s in f.unpacksizes:
            ai.write_uint64(out, s)
    out.write(PROPERTY.CRC)
    out.write(b"\x01")
    ai.write_uint32(out, zlib.crc32(data))
    out.write(PROPERTY.END)
    out.write(PROPERTY.SUBSTREAMS_INFO)
    out.write(PROPERTY.END)
    out.write(PROPERTY.END)
    h.files_info.write(out)
    out.write(PROPERTY.END)
    return _assemble(raw[32:32 + z.sig_header.nextheaderofs], out.getvalue())


def no_streams_archive(names):
    """a valid archive holding only directories and hence no streams section, as
    7-Zip writes it (py7zr's writer always emits a streams section)"""
    bio = io.BytesIO()
    tmp = tempfile.mkdtemp(prefix="c19n_")
    try:
        for n in names:
            if n.endswith("/"):
                os.makedirs(os.path.join(tmp, "e", n))
            else:
                os.makedirs(os.path.dirname(os.path.join(tmp, "e", n)), exist_ok=True)
                open(os.path.join(tmp, "e", n), "wb").close()
        with py7zr.SevenZipFile(bio, "w") as z:
            z.set_encoded_header_mode(False)
            z.writeall(os.path.join(tmp, "e"), "e")
    finally:
        shutil.rmtree(tmp, ignore_errors=True)
    z = py7zr.SevenZipFile(io.BytesIO(bio.getvalue()))
    out = io.BytesIO()
    out.write(PROPERTY.HEADER)
    z.header.files_info.write(out)
    out.write(PROPERTY.END)
    return _assemble(b"", out.getvalue())


def _assemble(packed, hdr):
    tail = struct.pack("<QQL", len(packed), len(hdr), zlib.crc32(hdr))
    return b"7z\xbc\xaf\x27\x1c\x00\x04" + struct.pack("<L", zlib.crc32(tail)) + tail + packed + hdr


def members_for(seed):
    rng = random.Random(seed)
    return [("a.txt", arch.pattern_bytes(rng, 60, "text")), ("d/b.bin", arch.pattern_bytes(rng, 90, "random")),
            ("d/c.dat", arch.pattern_bytes(rng, 50, "period"))]


def base_archive(p):
    kind = p["archive"]
    if "data_hex" in p:
        return bytes.fromhex(p["data_hex"]), [(n, bytes.fromhex(d)) for n, d in p["members_hex"]]
    if kind == "chain":
        ms = members_for(p["seed"])
        return arch.make_archive(ms, chain=p["chain"], encoded=p.get("encoded", True)), ms
    if kind == "folder-crc":
        rng = random.Random(p["seed"])
        d = arch.pattern_bytes(rng, 400, "text")
        return folder_crc_archive("f.txt", d, p.get("chain", "copy")), [("f.txt", d)]
    if kind == "multi-folder":
        return multi_folder_archive(p)
    raise ValueError(kind)


def multi_folder_sessions(seed):
    rng = random.Random(seed)
    return [[("s1/a.txt", arch.pattern_bytes(rng, 70, "text")), ("s1/b.bin", arch.pattern_bytes(rng, 90, "random"))],
            [("s2/c.txt", arch.pattern_bytes(rng, 60, "text")), ("s2/d.bin", arch.pattern_bytes(rng, 80, "random"))],
            [("s3/e.dat", arch.pattern_bytes(rng, 50, "period")), ("s3/f.bin", arch.pattern_bytes(rng, 40, "random"))]]


def multi_folder_archive(p):
    """an archive of 2-3 folders, one per writing session.  how == "cli": `py7zr c` then `py7zr a` (real
    processes, the command's default filter chain); how == "lib": the same sessions through
    SevenZipFile(..., "w") / (..., "a") with the chain asked for"""
    sessions = multi_folder_sessions(p["seed"])[: p.get("folders", 3)]
    members = [m for ses in sessions for m in ses]
    if p.get("how") == "cli":
        tmp = tempfile.mkdtemp(prefix="c19f_")
        try:
            for ses in sessions:
                for n, d in ses:
                    os.makedirs(os.path.dirname(os.path.join(tmp, n)), exist_ok=True)
                    open(os.path.join(tmp, n), "wb").write(d)
            for i in range(len(sessions)):
                rc, so, se = run_cli((["c"] if i == 0 else ["a"]) + ["arc.7z", "s%d" % (i + 1)], tmp)
                if rc != 0:
                    raise RuntimeError("building the multi-folder archive: %s exits %s: %s" % ("c" if i == 0 else "a", rc, se[-300:]))
            data = open(os.path.join(tmp, "arc.7z"), "rb").read()
        finally:
            shutil.rmtree(tmp, ignore_errors=True)
    else:
        data = arch.make_archive(sessions[0], chain=p["chain"], sessions=[(ms, p["chain"]) for ms in sessions[1:]])
    return data, members


def folder_ranges(data):
    """byte ranges of each folder's packed streams in the archive file"""
    z = py7zr.SevenZipFile(io.BytesIO(data))
    ms = z.header.main_streams
    pos = ms.packinfo.packpositions
    base = 32 + ms.packinfo.packpos
    out, k = [], 0
    for f in ms.unpackinfo.folders:
        n = len(f.packed_indices) if getattr(f, "packed_indices", None) else 1
        out.append([base + pos[k], base + pos[k + n]])
        k += n
    return out


def variant_bytes(data, v):
    if v[0] == "flip":
        b = bytearray(data)
        b[v[1]] ^= 1 << v[2]
        return bytes(b)
    if v[0] == "trunc":
        return data[:v[1]]
    if v[0] == "same":
        return data
    raise ValueError(v)


def sc_damage(p):
    """t and x on variants (bit flips, truncations) of one archive; a variant is benign if x exits 0 and
    gives exactly the original members"""
    out = []
    data, members = base_archive(p)
    tmp = tempfile.mkdtemp(prefix="c19d_")
    stats = {"variants": 0, "benign": 0, "timeout": 0, "t_nonzero": 0, "x_nonzero": 0}
    try:
        def one(iv):
            i, v = iv
            d = os.path.join(tmp, "v%d" % i)
            os.makedirs(d)
            open(os.path.join(d, "arc.7z"), "wb").write(variant_bytes(data, v))
            rt, so, se = run_cli(["t", "arc.7z"], d, timeout=p.get("timeout", 25))
            rx, so2, se2 = run_cli(["x", "arc.7z", "out"], d, timeout=p.get("timeout", 25))
            same = True
            for n, content in members:
                fp = os.path.join(d, "out", n)
                if not (os.path.isfile(fp) and open(fp, "rb").read() == content):
                    same = False
            last_t = (se.strip().splitlines() or so.strip().splitlines() or [""])[-1][:120]
            last_x = (se2.strip().splitlines() or so2.strip().splitlines() or [""])[-1][:120]
            shutil.rmtree(d, ignore_errors=True)
            return v, rt, rx, same, last_t, last_x

        with concurrent.futures.ThreadPoolExecutor(max_workers=p.get("workers", 16)) as ex:
            results = list(ex.map(one, list(enumerate(p["variants"]))))
        seen = set()
        for v, rt, rx, same, last_t, last_x in results:
            stats["variants"] += 1
            if "timeout" in (rt, rx):
                stats["timeout"] += 1
            stats["t_nonzero"] += rt != 0
            stats["x_nonzero"] += rx != 0
            if v[0] == "same":
                if rt != 0 or rx != 0 or not same:
                    out.append(finding("intact %s archive: t exits %s, x exits %s, members reproduced: %s (%s)" % (
                        p.get("chain", p["archive"]), rt, rx, same, last_t), {"kind": "intact-archive-fails", "archive": p["archive"]}))
                continue
            if rt == 0 and rx == 0 and same:
                stats["benign"] += 1
                continue
            mk = None
            if rt == 0:
                via = "folder-crc" if p["archive"] == "folder-crc" else (
                    "multi-folder-%s" % p.get("chain", "cli") if p["archive"] == "multi-folder" else p.get("chain", "?"))
                mk = {"kind": "t-exit0-damaged", "via": via}
                what = "t exits 0 on a damaged archive (%s, %s): x exits %s (%s), members reproduced: %s" % (
                    _arcname(p), _vstr(v, p), rx, last_x, same)
            elif rx == 0:
                mk = {"kind": "x-exit0-damaged", "via": ("multi-folder-%s" % p.get("chain", "cli")) if p["archive"] == "multi-folder" else
                      p.get("chain", p["archive"])}
                what = "x exits 0 on a damaged archive (%s, %s) but the members differ; t exits %s (%s)" % (_arcname(p), _vstr(v, p), rt, last_t)
            if mk and json.dumps(mk, sort_keys=True) not in seen:
                seen.add(json.dumps(mk, sort_keys=True))
                f = finding(what, mk, variant=v)
                f["params_override"] = {"variants": [v]}
                out.append(f)
        out.append({"stats": stats})
        return out
    finally:
        shutil.rmtree(tmp, ignore_errors=True)


def _arcname(p):
    if p["archive"] == "folder-crc":
        return "one file, CRC stored at folder level"
    if p["archive"] == "multi-folder":
        return "%d folders, %s" % (len(p.get("folder_ranges", [])), "made by `c` then `a`" if p.get("how") == "cli" else
                                   "sessions w/a with chain %s" % p.get("chain"))
    return "chain %s" % p.get("chain")


def _vstr(v, p=None):
    if v[0] != "flip":
        return "truncated to %d bytes" % v[1]
    where = ""
    for i, (lo, hi) in enumerate((p or {}).get("folder_ranges", [])):
        if lo <= v[1] < hi:
            where = " (packed data of folder %d)" % i
    return "bit %d of byte %d flipped%s" % (v[2], v[1], where)


def damage_variants(data, rng, tier, hdr_start, step=1):
    n = len(data)
    vs = [["same"]]
    if tier == "quick":
        pos = {0, 5, 6, 7, 8, 11, 12, 19, 20, 27, 28, 31}
        pos |= set(rng.sample(range(32, hdr_start), min(6, hdr_start - 32)))
        pos |= set(rng.sample(range(hdr_start, n), min(2, n - hdr_start))) | {hdr_start, n - 1, 32}
        for q in sorted(pos):
            vs.append(["flip", q, rng.randrange(8)])
        for t in (0, 31, 33, hdr_start - 1, hdr_start + 1, n - 1):
            vs.append(["trunc", t])
    else:
        for q in range(n):
            if q < 32 or q % step == 0:
                vs.append(["flip", q, rng.randrange(8)])
        for t in list(range(0, 40, 3)) + list(range(40, n, 17)) + [n - 1]:
            vs.append(["trunc", t])
    return vs


def sc_special(p):
    """named single archives: expectation is (t status zero?, x status zero?, l status zero?)"""
    out = []
    tmp = tempfile.mkdtemp(prefix="c19x_")
    try:
        name = p["name"]
        path = os.path.join(tmp, "arc.7z")
        expect_ok = False
        if name.startswith("fixture:"):
            src = os.path.join(_repo(), "tests", "data", name[8:])
            if not os.path.exists(src):
                return []
            shutil.copy(src, path)
        elif name == "encrypted":
            arch.make_archive(members_for(1), chain=p["chain"], password="secret", target=path)
        elif name == "encrypted-header":
            arch.make_archive(members_for(1), chain=p["chain"], password="secret", header_enc=True, target=path)
        elif name == "not-7z":
            open(path, "wb").write(b"PK\x03\x04 this is not a 7z archive" * 4)
        elif name == "missing":
            pass
        elif name == "empty-file":
            open(path, "wb").write(b"")
        elif name == "signature-only":
            open(path, "wb").write(b"7z\xbc\xaf\x27\x1c")
        elif name == "no-streams":
            open(path, "wb").write(no_streams_archive(p["names"]))
        expect_ok = bool(p.get("expect_ok"))
        res = {}
        for cmd in ((["t"], ["x"], ["x", "--verbose"], ["l"], ["l", "--verbose"]) if expect_ok or p.get("all_cmds") else (["t"], ["x"], ["l"])):
            args = cmd + ["arc.7z"] + (["out%d" % len(res)] if cmd[0] == "x" else [])
            rc, so, se = run_cli(args, tmp)
            res[" ".join(cmd)] = (rc, (se.strip().splitlines() or so.strip().splitlines() or [""])[-1][:140])
        if expect_ok:
            libn = lib_names(path)
            with py7zr.SevenZipFile(path) as z:
                tz = z.testzip()
            with py7zr.SevenZipFile(path) as z:
                z.extractall(path=os.path.join(tmp, "libout"))
            for cmd, (rc, last) in res.items():
                if rc != 0:
                    out.append(finding("%s exits %s (%s) on a valid archive of %d empty members without a streams section; the library "
                                       "reports getnames()=%r, testzip()=%r and extracts it" % (cmd, rc, last, len(libn), libn[:3], tz),
                                       {"kind": "valid-archive-fails", "via": "no-main-streams", "cmd": cmd}))
        else:
            for cmd, (rc, last) in res.items():
                if rc == 0 and cmd[0] in p.get("must_fail", "tx"):
                    out.append(finding("%s exits 0 on %s (%s)" % (cmd, name, last), {"kind": "%s-exit0-damaged" % cmd[0], "via": name}))
                if rc not in (0, 1):
                    out.append(finding("%s exits %s on %s" % (cmd, rc, name), {"kind": "observation", "what": "status-not-0-1"}))
        out.append({"stats": {"special": name, "res": {k: v[0] for k, v in res.items()}}})
        return out
    finally:
        shutil.rmtree(tmp, ignore_errors=True)


def sc_misc(p):
    out = []
    tmp = tempfile.mkdtemp(prefix="c19m_")
    try:
        os.makedirs(os.path.join(tmp, "top"))
        open(os.path.join(tmp, "top", "f.txt"), "w").write("hello\n" * 50)
        checks = [
            (["i"], 0, None), (["--version"], 0, None), ([], 0, None), (["--version", "i"], 0, None),
            (["c", "arc", "top"], 0, None), (["c", "arc", "top"], 1, "Archive file exists"), (["c", "arc.7z", "top"], 1, "Archive file exists"),
            (["a", "arc", "top"], 1, "specified archive file is invalid"), (["a", "nope.7z", "top"], 1, "does not exists"),
            (["c", "v", "top", "-v", "2P"], 1, "Specified volume size is invalid"), (["c", "v", "top", "-v", "k"], 1, "Specified volume size is invalid"),
            (["t", "nope.7z"], 1, "not a 7z file"), (["x", "nope.7z"], 1, "not a 7z file"), (["l", "nope.7z"], 1, "not a 7z file"),
            (["q"], 2, None), (["t"], 2, None),
        ]
        for args, want, text in checks:
            rc, so, se = run_cli(args, tmp)
            if rc != want or (text and text not in so + se):
                out.append(finding("py7zr %s exits %s (expected %s%s): %s" % (" ".join(args), rc, want, ", message %r" % text if text else "",
                                                                              (se.strip().splitlines() or [""])[-1][:150]),
                                   {"kind": "misc-status", "args": " ".join(args)}))
        out.append({"stats": {"misc": len(checks)}})
        return out
    finally:
        shutil.rmtree(tmp, ignore_errors=True)


SCENARIOS = {"roundtrip": sc_roundtrip, "append": sc_append, "volume": sc_volume, "damage": sc_damage, "special": sc_special,
             "misc": sc_misc}


# ---------------------------------------------------------------------- trees

def tree_specs(rng, tier):
    T = []
    T.append(("files+dirs+links", [["f", "a.txt", 6, "text", 0o644], ["f", "empty.txt", 0, "zeros", 0o600], ["d", "emptyd"],
                                   ["f", "sub/r.bin", 5000, "random", 0o755], ["f", "sub/deep/d.txt", 70, "text", 0o640],
                                   ["l", "lnk", "a.txt"], ["l", "sub/up", "../a.txt"]]))
    T.append(("plain", [["f", "one.txt", 100, "text", 0o644], ["f", "two.bin", 70000, "period", 0o644], ["d", "e1"], ["d", "e2/e3"],
                        ["f", "n/m/o.dat", 1, "random", 0o444]]))
    T.append(("names", [["f", "with space.txt", 10, "text", 0o644], ["f", "ümläut/日本.txt", 33, "text", 0o644],
                        ["f", "dot.dir/.hidden", 5, "text", 0o600], ["f", "x86.exe", 3000, "code", 0o755]]))
    T.append(("only-empty", [["f", "z.txt", 0, "zeros", 0o644], ["d", "dd"]]))
    T.append(("single", [["f", "single.bin", 40000, "random", 0o644]]))
    T.append(("link-to-dir", [["f", "d/f.txt", 12, "text", 0o644], ["l", "ld", "d"]]))
    if tier != "quick":
        for k in range(14):
            spec = []
            nd = rng.randrange(0, 4)
            dirs = [""] + ["d%d" % i if rng.random() < 0.6 else "d%d/s%d" % (i, i) for i in range(nd)]
            for d in dirs[1:]:
                spec.append(["d", d])
            for i in range(rng.randrange(1, 7)):
                d = rng.choice(dirs)
                spec.append(["f", os.path.join(d, "f%d.%s" % (i, rng.choice(["txt", "bin", "exe"]))), rng.choice([0, 1, 17, 4096, 65536, 100000]),
                             rng.choice(["text", "random", "period", "zeros", "code"]), rng.choice([0o644, 0o600, 0o755, 0o444])])
            if rng.random() < 0.4:
                fs = [e for e in spec if e[0] == "f"]
                tgt = rng.choice(fs)[1]
                spec.append(["l", "link%d" % k, tgt])
            T.append(("random%d" % k, spec))
    return T


def explore(ctx, rep, rng, tier):
    jobs = []   # (scenario, params)
    trees = tree_specs(rng, tier)
    for ti, (tname, spec) in enumerate(trees):
        combos = [(a, o, v) for a in ("arc", "arc.7z") for o in (True, False) for v in (False, True)]
        if tier == "quick":     # every option value occurs with every tree; pairs rotate with the tree
            pick = [(0, 7), (1, 6), (2, 5), (3, 4)][ti % 4]
            extra = [i for i, c in enumerate(combos) if has_link(spec) and not c[1] and i not in pick][ti % 2: ti % 2 + 1]
            combos = [c for i, c in enumerate(combos) if i in pick or i in extra]
        for a, o, v in combos:
            jobs.append(("roundtrip", {"tree": spec, "tname": tname, "arcname": a, "odir": o, "verbose": v, "seed": ctx["seed"] + ti}))
    two = [["f", "p.txt", 40, "text", 0o644], ["f", "q.bin", 900, "random", 0o644]]
    one = [["f", "only.txt", 40, "text", 0o644]]
    mixed = [["f", "a.txt", 4, "text", 0o644], ["d", "emptyd"], ["f", "sub/s.txt", 2, "text", 0o644], ["f", "z.txt", 5, "text", 0o644]]
    for shape, t1, t2, what in [
        ("multi-file-first/one-file", two, one, ["top2/only.txt"]),
        ("multi-file-first/dir-one-file", two, one, ["top2"]),
        ("multi-file-first/dir-two-files", two, [["f", "r.txt", 10, "text", 0o644], ["f", "s.txt", 20, "text", 0o644]], ["top2"]),
        ("one-file-first/one-file", one, [["f", "more.txt", 10, "text", 0o644]], ["top2/more.txt"]),
        ("one-file-first/dir-two-files", one, two, ["top2"]),
        ("multi-file-first/dir-with-empty-dir-between", two, mixed, ["top2"]),
    ]:
        if tier == "quick" and shape in ("multi-file-first/dir-one-file", "one-file-first/one-file"):
            continue
        jobs.append(("append", {"tree1": t1, "tree2": t2, "append": what, "shape": shape, "seed": ctx["seed"]}))
    # `a` on a base laid out by another conforming writer (PackPos > 0)
    jobs.append(("append", {"tree1": two, "tree2": one, "append": ["top2"], "shape": "packpos-base/dir-one-file", "seed": ctx["seed"],
                            "base": "packpos", "packpos": 7}))
    jobs.append(("append", {"tree1": one, "tree2": two, "append": ["top2"], "shape": "packpos-base/dir-two-files", "seed": ctx["seed"],
                            "base": "packpos", "packpos": 100}))
    vol_tree = [["f", "r.bin", 9000, "random", 0o644], ["f", "t.txt", 3000, "text", 0o644], ["d", "e"]]
    sizes = ["2k", "4096B", "1g", "4096", "700", "2P", "700b"]
    if tier != "quick":
        sizes += ["2K", "3000b", "1m", "1G", "10000", "1kb", "1k", "1M", "512b", "100000", "0x10", "12 k", "0012k", "5000"]
    for s in sizes:
        jobs.append(("volume", {"tree": vol_tree, "size": s, "seed": ctx["seed"]}))
    jobs.append(("volume", {"tree": [["f", "r.bin", 1500, "random", 0o644]], "size": "1b", "seed": ctx["seed"]}))
    # damaged archives
    chains = ["copy", "lzma2", "deflate"] + ([] if tier == "quick" else ["bzip2", "zstd", "lzma", "ppmd", "delta+lzma2", "x86+lzma2", "brotli"])
    for ch in chains:
        for encoded in ((True,) if (tier == "quick" or ch not in ("copy", "lzma2")) else (True, False)):
            p = {"archive": "chain", "chain": ch, "encoded": encoded, "seed": ctx["seed"]}
            data, ms = base_archive(p)
            p["data_hex"], p["members_hex"] = data.hex(), [[n, d.hex()] for n, d in ms]
            hdr_start = 32 + struct.unpack("<Q", data[12:20])[0]
            p["variants"] = damage_variants(data, rng, tier, hdr_start, step=(1 if ch == "copy" else 2) if encoded and ch in ("copy", "lzma2") else 3)
            jobs.append(("damage", p))
    for ch in ("copy", "lzma2"):
        p = {"archive": "folder-crc", "chain": ch, "seed": ctx["seed"]}
        data, ms = base_archive(p)
        p["data_hex"], p["members_hex"] = data.hex(), [[n, d.hex()] for n, d in ms]
        hdr_start = 32 + struct.unpack("<Q", data[12:20])[0]
        step = 5 if tier == "quick" else 1
        p["variants"] = [["same"]] + [["flip", q, rng.randrange(8)] for q in range(32, hdr_start, step * 8)] + [["trunc", hdr_start - 3]]
        jobs.append(("damage", p))
    # multi-folder archives (one folder per session): damage inside each folder's packed bytes
    for mp in ({"how": "cli"}, {"how": "lib", "chain": "copy"}, {"how": "lib", "chain": "lzma2"}):
        p = dict({"archive": "multi-folder", "folders": 3, "seed": ctx["seed"]}, **mp)
        data, ms = base_archive(p)
        p["data_hex"], p["members_hex"] = data.hex(), [[n, d.hex()] for n, d in ms]
        p["folder_ranges"] = folder_ranges(data)
        if len(p["folder_ranges"]) < 2:
            raise RuntimeError("multi-folder archive has %d folder(s)" % len(p["folder_ranges"]))
        vs = [["same"]]
        for lo, hi in p["folder_ranges"]:
            if tier == "quick":
                qs = sorted({lo, (lo + hi) // 2, hi - 1, rng.randrange(lo, hi)})
            else:
                qs = range(lo, hi, 1 if mp.get("chain") == "copy" else 2)
            vs += [["flip", q, rng.randrange(8)] for q in qs]
        p["variants"] = vs
        jobs.append(("damage", p))
    fixtures = ["lz4.7z", "lzma_bcj2_1.7z", "crc_corrupted.7z", "encrypted_3.7z"]
    if tier != "quick":
        fixtures += ["lzma2bcj2.7z", "data_corrupted.7z", "encrypted_1.7z", "filename_encryption.7z"]
    for nm in fixtures:
        jobs.append(("special", {"name": "fixture:" + nm}))
    for ch in (("lzma2+aes",) if tier == "quick" else ("lzma2+aes", "copy+aes")):
        jobs.append(("special", {"name": "encrypted", "chain": ch}))
        jobs.append(("special", {"name": "encrypted-header", "chain": ch, "must_fail": "txl"}))
    for nm in (("not-7z", "missing", "signature-only") if tier == "quick" else ("not-7z", "missing", "empty-file", "signature-only")):
        jobs.append(("special", {"name": nm, "must_fail": "txl"}))
    jobs.append(("special", {"name": "no-streams", "names": ["dir1/", "dir2/sub/"], "expect_ok": True}))
    jobs.append(("special", {"name": "fixture:test_folder.7z", "expect_ok": True}))
    jobs.append(("misc", {}))

    def runjob(j):
        name, params = j
        try:
            return j, SCENARIOS[name](params)
        except Exception as e:  # noqa
            import traceback
            return j, [finding("scenario %s crashed: %s: %s" % (name, type(e).__name__, e), {"kind": "harness-exception", "scenario": name},
                               trace=traceback.format_exc()[-1200:])]

    light = [j for j in jobs if j[0] != "damage"]
    heavy = [j for j in jobs if j[0] == "damage"]
    results = []
    with concurrent.futures.ThreadPoolExecutor(max_workers=12) as ex:
        results += list(ex.map(runjob, light))
    for j in heavy:     # each damage scenario runs 16 processes at a time itself
        results.append(runjob(j))
    observations = rep.extra.setdefault("observations", [])
    dstats = rep.extra.setdefault("damage", {})
    seen_mk = set()
    for (name, params), fs in results:
        keyp = {k: v for k, v in params.items() if k not in ("variants", "data_hex", "members_hex")}
        if name == "damage":
            for v in params["variants"]:
                rep.count(("damage", json.dumps(keyp, sort_keys=True), json.dumps(v)), nontrivial=v[0] != "same")
        else:
            rep.count((name, json.dumps(keyp, sort_keys=True)), nontrivial=True)
        rep.dist("scenario", name)
        for f in fs:
            if "stats" in f:
                if name == "damage":
                    dstats["%s/%s%s" % (params["archive"], params.get("chain"), "" if params.get("encoded", True) else "/plain-header")] = f["stats"]
                continue
            mk = f["match_keys"]
            if mk.get("kind") == "observation":
                if f["what"] not in observations:
                    observations.append(f["what"])
                continue
            if json.dumps(mk, sort_keys=True) in seen_mk:
                continue            # one report (and one replay) per failing shape
            seen_mk.add(json.dumps(mk, sort_keys=True))
            pr = dict(params)
            pr.update(f.get("params_override", {}))
            rep.violation(f["what"], {"kind": "scenario", "name": name, "params": pr, "match_keys": mk, "detail": f.get("detail")}, match_keys=mk)
    rep.extra["process_scenarios"] = len(jobs)
    rep.sample({"scenario": "roundtrip", "tree": trees[0][1]})


def run(ctx):
    rep, tier = ctx["rep"], ctx["tier"]
    _CORR.clear()
    rep.extra["model_available"] = ctx["model"] is not None
    rng = random.Random(ctx["seed"])
    rep.cov["rule"] = ("volume sizes: every string of length <= 3 (quick; length 4 over a 10-letter subset) / 4 (thorough; length 5 over the subset) over {0,1,9,b,k,m,g,B,K,M,G,x,P,-,.,space,newline,"
                       "U+212A,U+FF11,U+0663} plus all digit x unit pairs and digit strings around the 4300-digit limit (non-trivial = passes the "
                       "validity check); exit status: every (is_7zfile, getpass, open, info, work) in {ok, 10 exception classes}^3 x t / x with "
                       "every flag combination / l (non-trivial = is_7zfile true); c/a: sizes x archive names x exists x -P x library behaviour; "
                       "processes: trees x archive name with/without .7z x odir given or not x --verbose, appends by shape, volume sizes with "
                       "and without unit, bit flips / truncations of small archives of each chain (non-trivial = actually altered); distinct by input")
    for part in (check_translation, check_volsize, check_status_logic, explore):
        try:
            part(ctx, rep, rng, tier)
        except Exception as e:  # noqa
            import traceback
            rep.violation("%s raised %s: %s" % (part.__name__, type(e).__name__, e),
                          {"kind": "exception", "part": part.__name__, "trace": traceback.format_exc()[-1500:]},
                          match_keys={"kind": "exception", "part": part.__name__})
    rep.violations.sort(key=lambda v: not v["concrete"])     # failing inputs first (the first five get replay files)


def replay(d):
    r = d["replay"]
    kind = r.get("kind")
    if kind == "volsize":
        s = "".join(chr(c) for c in r["s"])
        cli = cli_mod.Cli()
        valid, conv = impl_volsize(cli, s)
        in_g, den = ref_help(s)
        print("size %r: documented=%s _check_volumesize_valid=%r _volumesize_unitconv=%s" % (s, in_g, valid, _short(conv)))
        if in_g and den[0] is not None:
            return 0 if (valid is True and conv == [0, den[0] * MULT[den[1]]]) else 1
        return 0
    if kind == "status":
        cli = cli_mod.Cli()
        tmp = tempfile.mkdtemp(prefix="c19s_")
        cwd = os.getcwd()
        try:
            os.chdir(tmp)
            arc = os.path.join(tmp, "stub.7z")
            open(arc, "wb").write(b"7z\xbc\xaf\x27\x1c stub")
            argv = [arc if a == "<arc>" else a for a in r["argv"]]
            lib = r["lib"]
            got = impl_run(cli, argv, StubLib(lib, r.get("variant", 0)), {})
            status = 1 if got[0] == 2 else (0 if len(got) == 1 else got[1])
            cmd = argv[0]
            success = bool(lib[0]) and not lib[2] and not lib[4] and (not lib[3] or (cmd == "x" and "--verbose" not in argv)) and \
                not (cmd == "x" and "-P" in argv and lib[1])
            print("%s with %s: result %s, status %d, success %s" % (" ".join(r["argv"]), _libstr(lib), got, status, success))
            return 0 if (status == 0) == success else 1
        finally:
            os.chdir(cwd)
            shutil.rmtree(tmp, ignore_errors=True)
    if kind == "create":
        cli = cli_mod.Cli()
        tmp = tempfile.mkdtemp(prefix="c19s_")
        cwd = os.getcwd()
        try:
            os.chdir(tmp)
            os.makedirs("dir.7z")
            os.makedirs("srcdir")
            open("srcfile", "w").write("x")
            argv = r["argv"]
            arcname = argv[1]
            target = arcname if arcname.endswith(".7z") else arcname + ".7z"
            if r.get("exists"):
                open(target, "w").write("x")
            record = {}
            got = impl_run(cli, argv, StubLib(r["lib"]), record)
            gt = record["mv"]["args"][0] if "mv" in record else (str(record["open"]["file"]) if "open" in record else None)
            gv = record["mv"]["kw"].get("volume") if "mv" in record else None
            print("py7zr %s: result %s, archive written to %r, volume size %r" % (" ".join(argv), got, gt, gv))
            bad = gt is not None and not gt.endswith(".7z")
            if "-v" in argv and gt is not None:
                vol = argv[argv.index("-v") + 1]
                in_g, den = ref_help(vol)
                if in_g and den[1] != "" and gv != den[0] * MULT[den[1]]:
                    bad = True
            return 1 if bad else 0
        finally:
            os.chdir(cwd)
            shutil.rmtree(tmp, ignore_errors=True)
    if kind == "scenario":
        fs = SCENARIOS[r["name"]](r["params"])
        hit = [f for f in fs if "stats" not in f and f["match_keys"] == r.get("match_keys")]
        for f in fs:
            if "stats" not in f:
                print(f["what"])
        return 1 if hit else 0
    print(json.dumps(r, default=str)[:2000])
    return 2
