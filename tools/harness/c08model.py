"""c08model.py -- correspondence between coq/theories/Append.v (`append_session`, `append_position`,
`open_names`, `enable_digests`, re-serialisation through Header.v) and the real append path of py7zr
(SevenZipFile(..., "a"): _real_get_contents, _prepare_append, Header.initialize, Worker._after_write,
Worker.flush_archive, Header.write), property C08.

Every case runs a REAL append session through the public API on a real file image and compares
  * the seek position chosen by _prepare_append with the model's `append_position`,
  * the header graph py7zr holds after opening with `open_names (parse_header bytes)`,
  * the header graph py7zr holds when the session is closed with the model's `append_session`,
  * the header bytes written (raw header mode) / the graph after re-opening with the model's
    write_header + parse_header (`append_reopen`),
  * on the file image: the old packed area is byte-identical, the new packed stream starts where the
    model says and ends where the header area starts (the packed streams tile),
  * the executable form of the theorem: the plans (impl_plans) of the base are a prefix of the plans
    after the session and after re-opening, whenever the model's hypothesis `base_ok` holds.
Bases: (A) random py7zr-like header graphs (hdr.gen_py7zr_like_header + foreign variations) written by
the real Header.write in front of a junk packed area of the declared size, (B) real archives: py7zr
sessions over several chains, reference-writer layouts (tools/ref), fixtures of tests/data.
Called from c08.run() as check_append_model(ctx, rep, rng, tier)."""
import glob
import io
import os
import shutil
import tempfile
import zlib

import py7zr
import py7zr.archiveinfo as ai

from harness import arch, hdr

CONTENTS = [ord(c) for c in "contents"]
ERRN = {1: "Bad7z", 2: "Crc", 3: "Password", 4: "Unsupported", 5: "Eof", 6: "Other", 7: "Fuel"}


# ------------------------------------------------------------------ file image helpers
def assemble(packed, header_raw):
    """signature header + packed area + raw header"""
    sh = ai.SignatureHeader()
    out = io.BytesIO()
    sh._write_skeleton(out)
    out.write(packed)
    sh.nextheaderofs = len(packed)
    sh.calccrc(len(header_raw), zlib.crc32(header_raw))
    out.write(header_raw)
    sh.write(out)
    return out.getvalue()


def header_area(data):
    """(start of the header area = end of the packed streams, 'raw'|'encoded', raw header bytes or None)"""
    ofs = int.from_bytes(data[12:20], "little")
    size = int.from_bytes(data[20:28], "little")
    hb = data[32 + ofs: 32 + ofs + size]
    if hb[:1] == b"\x01":
        return 32 + ofs, "raw", hb
    if hb[:1] == b"\x17":
        st = ai.HeaderStreamsInfo.retrieve(io.BytesIO(hb[1:]))
        return 32 + st.packinfo.packpos, "encoded", None
    return 32 + ofs, "?", None


def junk(n, salt=0):
    return bytes((i * 37 + 11 + salt) & 0xFF for i in range(n))


# ------------------------------------------------------------------ the real session
def real_session(data, members, chain, raw_mode, tmp, password=None):
    """members: list of (kind, name, bytes), kind in str|file|dir.  Returns a dict describing what happened."""
    out = {"opened": False, "closed": False, "exc": None}
    bio = io.BytesIO(data)
    try:
        z = py7zr.SevenZipFile(bio, "a", filters=arch.CHAINS[chain], password=password)
    except Exception as e:  # noqa
        out["exc"] = ("open", type(e).__name__, str(e)[:120])
        out["data"] = bio.getvalue()
        return out
    out["opened"] = True
    H = z.header
    try:
        out["pos"] = z.worker.src_start
        out["tell"] = bio.tell()
        out["afterheader"] = z.afterheader
        out["graph_open"] = hdr.header_tree(H)
        if raw_mode:
            z.set_encoded_header_mode(False)
        for kind, nm, d in members:
            if kind == "str":
                z.writestr(d, nm)
            elif kind == "file":
                p = os.path.join(tmp, "src_%d" % len(os.listdir(tmp)))
                with open(p, "wb") as f:
                    f.write(d)
                z.write(p, nm)
            else:
                p = os.path.join(tmp, "dir_%d" % len(os.listdir(tmp)))
                os.mkdir(p)
                z.write(p, nm)
        out["written"] = True
        z.close()
        out["closed"] = True
    except Exception as e:  # noqa
        out["exc"] = ("close" if out.get("written") else "write", type(e).__name__, str(e)[:120])
        try:
            z._fpclose()
        except Exception:  # noqa
            pass
    out["graph_end"] = hdr.header_tree(H)
    out["H"] = H
    out["data"] = bio.getvalue()
    return out


def reopen_graph(data, password=None):
    try:
        with py7zr.SevenZipFile(io.BytesIO(data), "r", password=password) as z:
            return ("ok", hdr.header_tree(z.header), z.afterheader)
    except Exception as e:  # noqa
        return ("err", type(e).__name__, str(e)[:120])


# ------------------------------------------------------------------ model side
def m_res(r):
    return ("ok", r[1]) if r[0] == 0 else ("err", ERRN.get(r[1], r[1]))


def model_members(graph_end, members):
    """the session's members as the model wants them: the entries py7zr registered (names, times, attributes
    as observed) with the sizes and CRCs computed here from the bytes handed in"""
    k = len(members)
    files = graph_end[1][0][-k:] if k else []
    out = []
    for ft, (kind, nm, d) in zip(files, members):
        out.append([ft, [] if kind == "dir" else [[len(d), zlib.crc32(d)]]])
    return out


def strip_dir_slash(nm):
    import pathlib
    return pathlib.Path(nm).as_posix()


# ------------------------------------------------------------------ one comparison
def compare_case(ctx, rep, key, data, members, chain, raw_mode, tmp, what, password=None, base_raw=None, feats="plain"):
    M = ctx["model"]
    mk_base = {"kind": "append-model", "base": what, "base_features": feats}
    old_area = None
    r0 = reopen_graph(data, password)
    res = real_session(data, members, chain, raw_mode, tmp, password)
    rep.count(key, nontrivial=bool(members))
    rep.dist("model_base", what)
    rep.dist("model_session_members", len(members))
    rep.dist("model_session_chain", chain)
    rep.dist("model_session_header", "raw" if raw_mode else "encoded")

    def disagree(msg, extra=None):
        rep.violation("Append.v and py7zr disagree: %s [%s; features %s]" % (msg, what, feats),
                      dict({"kind": "append-model", "base": data.hex()[:100000], "members": [[k, n, d.hex()] for k, n, d in members],
                            "chain": chain, "raw": raw_mode}, **(extra or {})), concrete=False,
                      match_keys=dict(mk_base, kind="append-model-disagree"))

    # ---- base graph as the model sees it
    if base_raw is not None:
        mp = m_res(M.call("open_for_append", [hdr.LIM, CONTENTS, list(base_raw)]))
        if mp[0] == "err":
            # an existing 7z file whose header cannot be read: the exception is passed on, nothing is written
            if res["opened"]:
                fresh = res.get("pos") == 32 and res["graph_open"] == [[], [], []]
                if fresh and spec_names(ctx, base_raw):
                    rep.violation("mode 'a' on a valid archive whose header py7zr rejects (%s) starts a NEW archive over it: the "
                                  "existing members are dropped without an error [%s]" % (mp[1], feats),
                                  {"kind": "append-replaces-archive", "base": data.hex()[:100000]},
                                  match_keys={"kind": "append-replaces-archive", "base_features": feats})
                else:
                    disagree("model cannot read the base header (%s) but the implementation opened it" % mp[1])
            elif res["data"] != data:
                rep.violation("opening an unreadable archive for append failed (%r) but modified the file [%s]" % (res["exc"], feats),
                              {"kind": "append-open-modifies", "base": data.hex()[:100000]},
                              match_keys={"kind": "append-open-modifies", "base_features": feats})
            else:
                rep.dist("model_open", "both refuse the base, file untouched (%s)" % mp[1])
            return None
        base_parsed = mp[1]
    else:
        if r0[0] != "ok":
            if res["opened"]:
                disagree("base not readable in r mode (%s) but opened in a mode" % (r0[1],))
            return None
        base_parsed = None
    if not res["opened"]:
        # the model: impl_plans fails (the member loop of _real_get_contents raises) or append_position fails
        if base_parsed is not None:
            ip = m_res(M.call("impl_plans", base_parsed))
            ap = m_res(M.call("append_position", [base_parsed, 32]))
            if ip[0] == "ok" and ap[0] == "ok":
                disagree("implementation cannot open the base for append (%r), model can" % (res["exc"],))
            else:
                rep.dist("model_open", "both refuse the base")
        return None
    g_open = res["graph_open"]
    if base_parsed is not None:
        want = base_parsed
        if want != g_open:
            disagree("graph after opening differs from open_for_append", {"model": repr(want)[:2000], "impl": repr(g_open)[:2000]})
            return None
    # ---- file image: the packed streams of the base are where they were, byte for byte
    if res["closed"] and g_open[0] and g_open[0][0][0]:
        p = g_open[0][0][0][0]
        a0 = res["afterheader"] + p[0]
        a1 = a0 + sum(p[2][:p[1]])
        if res["data"][a0:a1] != data[a0:a1]:
            first = next(i for i in range(a0, a1) if res["data"][i:i + 1] != data[i:i + 1])
            rep.violation("append overwrote packed data of existing members at offset %d (packed area %d..%d, new data written at %d) "
                          "[%s; features %s]" % (first, a0, a1, res["pos"], what, feats),
                          {"kind": "packed-overwritten", "base": data.hex()[:100000], "members": [[k, n, d.hex()] for k, n, d in members],
                           "chain": chain, "raw": raw_mode}, match_keys={"kind": "packed-overwritten"})
            return None
    # ---- position
    ap = m_res(M.call("append_position", [g_open, res["afterheader"]]))
    if ap[0] != "ok" or ap[1] != res["pos"] or res["tell"] != res["pos"]:
        disagree("append position: model %r, Worker.src_start %r, fp.tell() %r" % (ap, res["pos"], res["tell"]))
        return None
    pos = res["pos"]
    # ---- session
    en = M.call("append_enable_digests", [1 if password is not None else 0, g_open])
    new = res["data"]
    if not res["closed"]:
        # the implementation raised: the model must fail too (in the session or when writing the header)
        ok_model = False
        if res["exc"][0] == "close":
            # the write calls went through: the arguments of the model session can be reconstructed
            mm = model_members(res["graph_end"], members)
            H = res["H"]
            try:
                nf = hdr.folder_tree(H.main_streams.unpackinfo.folders[-1]) if members else [[], [], [], [], 0, []]
                ms = m_res(M.call("append_session", [1 if password is not None else 0, g_open, nf, mm, 0, 0]))
                ok_model = ms[0] == "ok" and M.call("write_header", [en, 0, ms[1]])[0] == 0
            except Exception:  # noqa
                ok_model = False
        if ok_model:
            disagree("implementation raised %r, model session and header writer succeed" % (res["exc"],))
        # a session that raises after the position was taken: is the old archive still readable?
        after = reopen_graph(new, password)
        rep.violation("append session raises %s: %s; afterwards the archive is %s [%s; features %s]" % (
            res["exc"][1], res["exc"][2], "still readable" if after[0] == "ok" else "unreadable (%s)" % after[1], what, feats),
            {"kind": "append-raises", "base": data.hex()[:100000], "members": [[k, n, d.hex()] for k, n, d in members], "chain": chain,
             "raw": raw_mode},
            match_keys={"kind": "append-raises", "exc": res["exc"][1], "base_features": feats, "source": "model-correspondence"})
        return None
    H = res["H"]
    if members:
        nf = hdr.folder_tree(H.main_streams.unpackinfo.folders[-1])
    else:
        nf = [[], [], [], [], 0, []]
    area_start, hmode, raw_hdr = header_area(new)
    packsize = area_start - pos if members else 0
    packcrc = zlib.crc32(new[pos:pos + packsize]) if members else 0
    if members:
        # the header py7zr wrote must describe the file it wrote: packed streams tile up to the header area
        ge = res["graph_end"][0][0][0][0]
        if res["afterheader"] + ge[0] + sum(ge[2]) != area_start or ge[1] != len(ge[2]):
            rep.violation("after an append the packed sizes in the header (packpos %d, sizes %r) do not tile the file up to the "
                          "header area at %d [%s; features %s]" % (ge[0], ge[2], area_start, what, feats),
                          {"kind": "pack-sizes-wrong", "base": data.hex()[:100000], "members": [[k, n, d.hex()] for k, n, d in members],
                           "chain": chain, "raw": raw_mode}, match_keys={"kind": "pack-sizes-wrong"})
            return None
    mm = model_members(res["graph_end"], members)
    # the entries py7zr registered carry the names handed in
    for (ft, _), (kind, nm, d) in zip(mm, members):
        if ft[1] != [[ord(c) for c in strip_dir_slash(nm)]] or ft[0] != (1 if kind == "dir" else 0):
            disagree("registered entry %r for member %r" % (ft[:2], (kind, nm)))
            return None
    ms = m_res(M.call("append_session", [1 if password is not None else 0, g_open, nf, mm, packsize, packcrc]))
    if ms[0] != "ok":
        disagree("model session fails (%s), implementation succeeds" % ms[1])
        return None
    if ms[1] != res["graph_end"]:
        a, b = ms[1], res["graph_end"]
        where = "streams" if a[0] != b[0] else ("files" if a[1] != b[1] else "emptyfiles")
        disagree("header graph at close differs in %s" % where, {"model": repr(a)[:3000], "impl": repr(b)[:3000]})
        return None
    # ---- file image: old packed area untouched, packed streams tile up to the header area
    st = g_open[0]
    if st:
        p = st[0][0][0]
        a0 = res["afterheader"] + p[0]
        if new[a0:pos] != data[a0:pos]:
            rep.violation("append overwrote packed data of existing members (packed area %d..%d) [%s]" % (a0, pos, what),
                          {"kind": "packed-overwritten", "base": data.hex()[:100000]}, match_keys={"kind": "packed-overwritten"})
            return None
    # ---- re-serialisation: bytes (raw mode) and graph after re-opening
    hpos = area_start if hmode == "raw" else 0
    if hmode == "raw":
        w = M.call("write_header", [en, hpos, ms[1]])
        if w[0] != 0 or bytes(w[1]) != raw_hdr:
            disagree("header bytes written at close differ from write_header of the model graph")
            return None
    r1 = reopen_graph(new, password)
    mr = m_res(M.call("append_reopen", [hdr.LIM, en, hpos, CONTENTS, ms[1]]))
    if r1[0] != mr[0] or (r1[0] == "ok" and r1[1] != mr[1]):
        disagree("graph after re-opening: implementation %s, model %s" % (r1[0], mr[0]),
                 {"model": repr(mr[1])[:3000], "impl": repr(r1[1])[:3000]})
        return None
    # ---- creation / access times of earlier entries survive (AppendProofs.v append_then_reopen_times; regression test of
    #      the repaired finding C08-append-drops-ctime-atime), and the session's own entries carry none
    if r1[0] == "ok" and g_open[1] and r1[1][1]:
        old_files, new_files = g_open[1][0], r1[1][1][0]
        flat = lambda x: None if x in ([], [[]]) else x[0][0]  # noqa: E731
        lost = [i for i, (a, b) in enumerate(zip(old_files, new_files)) if (flat(a[2]), flat(a[3])) != (flat(b[2]), flat(b[3]))]
        if any(flat(a[2]) is not None or flat(a[3]) is not None for a in old_files):
            rep.dist("model_times", "base entries with creation/access time re-read after the session")
        extra_t = [i for i, b in enumerate(new_files[len(old_files):]) if flat(b[2]) is not None or flat(b[3]) is not None]
        if extra_t:
            rep.violation("the entries a session adds carry a creation/access time (%d of %d) [%s; features %s]" % (
                len(extra_t), len(new_files) - len(old_files), what, feats),
                {"kind": "append-new-times", "base": data.hex()[:100000], "members": [[k, n, d.hex()] for k, n, d in members],
                 "chain": chain, "raw": raw_mode}, match_keys={"kind": "append-new-times"})
        if lost:
            rep.violation("append drops or changes the creation/access times of %d earlier member(s) (FilesInfo.write must write them back) "
                          "[%s; features %s]" % (len(lost), what, feats),
                          {"kind": "append-drops-times", "base": data.hex()[:100000], "members": [[k, n, d.hex()] for k, n, d in members],
                           "chain": chain, "raw": raw_mode},
                          match_keys={"kind": "append-drops-times"})
        if base_raw is not None:
            pr = m_res(M.call("parse_header", [hdr.LIM, list(base_raw)]))
            if pr[0] == "ok" and pr[1][1]:
                unnamed = [i for i, f in enumerate(pr[1][1][0]) if f[1] == []]
                if unnamed and any(new_files[i][1] != [] for i in unnamed if i < len(new_files)):
                    rep.violation("append stores the generated name %r for %d earlier member(s) that had no name [%s; features %s]" % (
                        "".join(chr(c) for c in new_files[unnamed[0]][1][0]), len(unnamed), what, feats),
                        {"kind": "append-names-unnamed", "base": data.hex()[:100000], "members": [[k, n, d.hex()] for k, n, d in members],
                         "chain": chain, "raw": raw_mode},
                        match_keys={"kind": "append-names-unnamed"})
    # ---- the theorem, run: plans of the base are a prefix of the plans after the session / after re-opening
    okb = M.call("append_base_ok", g_open)
    p0 = m_res(M.call("impl_plans", g_open))
    p1 = m_res(M.call("impl_plans", ms[1]))
    p2 = m_res(M.call("impl_plans", mr[1])) if mr[0] == "ok" else ("err", "reopen")
    rep.dist("model_hypothesis", "base_ok" if okb == 1 else "base outside base_ok")
    if okb == 1 and p0[0] == "ok":
        n0 = len(p0[1])
        if p1[0] != "ok" or p1[1][:n0] != p0[1] or p2[0] != "ok" or p2[1] != p1[1]:
            rep.violation("append changes the meaning of earlier entries (plans before/after differ) [%s; features %s]" % (what, feats),
                          {"kind": "plans-changed", "base": data.hex()[:100000], "members": [[k, n, d.hex()] for k, n, d in members],
                           "chain": chain}, match_keys=dict(mk_base, kind="plans-changed"))
            return None
        # the new entries sit in the new folder at cumulative offsets
        nfold = len(g_open[0][0][1][0]) if g_open[0] else 0
        off = 0
        for pl, (kind, nm, d) in zip(p1[1][n0:], members):
            if kind == "dir":
                continue
            if pl[2] != nfold or pl[3] != off or pl[4] != len(d) or pl[5] != [zlib.crc32(d)]:
                disagree("plan of new member %r: %r, expected folder %d offset %d" % (nm, pl, nfold, off))
                return None
            off += len(d)
    return "ok"


# ------------------------------------------------------------------ (A) random graphs through real bytes
def vary_graph(rng, t):
    """foreign variations of a py7zr-like graph; returns (tree, feature string)"""
    feats = []
    st = t[0]
    if st:
        pack = st[0][0][0]
        n = pack[1]
        pack[2] = [rng.choice([0, 1, 3, 17, 40]) for _ in range(n)]     # packed area that fits in memory
        pack[0] = rng.choice([0, 0, 0, 5])
        if pack[0]:
            feats.append("packpos")
        r = rng.random()
        if pack[3] and r < 0.5 and n >= 2:
            k = rng.randrange(n)
            pack[3] = [1 if i != k else 0 for i in range(n)]
            feats.append("partial_pack_crc")
        elif pack[3]:
            feats.append("pack_crc")
        sub = st[0][2][0]
        if sub[0] and rng.random() < 0.25:
            k = rng.randrange(len(sub[2])) if sub[2] else None
            if k is not None:
                sub[2][k] = 0
                feats.append("partial_crc")
        if sub[0] and all(x == 1 for x in sub[0]) and rng.random() < 0.4:
            # one sub-stream per folder: the section may be absent altogether (_real_get_contents installs the default
            # object, Assign.install_sub; the member CRCs, which Header.write keeps nowhere else, are then unknown)
            st[0][2] = []
            feats.append("no_substreams")
    files = t[1][0]
    if files and rng.random() < 0.12:
        for f in files:
            f[1] = []
        feats.append("no_names")
    if files and rng.random() < 0.15:
        for f in files:
            if rng.random() < 0.5:
                f[2] = [[rng.getrandbits(60)]]
            if rng.random() < 0.5:
                f[3] = [[rng.getrandbits(60)]]
        feats.append("ctime_atime")
    return t, ",".join(feats) or "plain"


def gen_members(rng, used, idx):
    n = rng.choice([0, 1, 1, 2, 3, 4])
    out = []
    for j in range(n):
        nm = "n%d_%d%s" % (idx, j, rng.choice(["", ".txt", "/x", " ü"]))
        kind = rng.choice(["str", "str", "str", "file", "dir"])
        d = b"" if kind == "dir" else arch.pattern_bytes(rng, rng.choice([0, 0, 1, 5, 16, 17, 300]), rng.choice(["random", "text", "zeros"]))
        out.append((kind, nm, d))
    return out


_COPY = [[0], 1, 1, []]
MAINFIRST = [[[[[0, 1, [9], [], []]],
               [[[[_COPY, _COPY], [[0, 1]], [], [5, 7], 0, []]]],
               [[[1], [], [1], [33]]]]],
             [[[0, [[97]], [], [], [[1000]], [[32]]]]],
             []]


def graph_case(ctx, rep, rng, idx):
    if idx % 40 == 7:
        # AppendProofs.v append_needs_last_is_main_refuted: a folder whose main output is not its last unpack size
        # (header-level replay: the declared sizes are not those of real Copy coders)
        import copy
        t, feats = copy.deepcopy(MAINFIRST), "main_output_not_last"
    else:
        t = hdr.gen_py7zr_like_header(rng, with_partial=(idx % 3 == 0))
        t, feats = vary_graph(rng, t)
    st = t[0]
    plen = (st[0][0][0][0] + sum(st[0][0][0][2])) if st else 0
    en_w = bool(st and st[0][0][0][3])
    w = hdr.impl_write(t, 32 + plen, en_w)
    if w[0] != "ok":
        rep.dist("model_open", "generated graph not writable by Header.write (%s)" % w[1])
        return
    raw = w[1]
    if idx % 17 == 5:
        # ArchiveProperties (id 2) in front of MainStreamsInfo: legal, and rejected by py7zr's reader with Bad7zFile
        raw = raw[:1] + bytes([2, 0x99, 1, 7, 0]) + raw[1:]
        feats = "archive_properties"
    data = assemble(junk(plen, idx), raw)
    members = gen_members(rng, set(), idx)
    tmp = tempfile.mkdtemp(prefix="c08m_")
    try:
        compare_case(ctx, rep, ("c08model", "graph", idx), data, members, rng.choice(["copy", "copy", "deflate", "lzma2"]),
                         rng.random() < 0.6, tmp, "generated graph", base_raw=raw, feats=feats)
    finally:
        shutil.rmtree(tmp, ignore_errors=True)


def spec_names(ctx, raw):
    """names of the members by the strict specification reader (Spec.v), [] when it rejects the header"""
    r = ctx["model"].call("spec_header", [hdr.LIM, list(raw)])
    if r[0] != 0 or r[1][0] != 1:
        return []
    return [p[0] for p in r[1][1]]


# ------------------------------------------------------------------ (B) real archives
def real_case(ctx, rep, rng, idx):
    from harness import c06
    from ref import refwriter
    kind = ["py7zr", "py7zr", "ref", "fixture"][idx % 4]
    password = None
    feats = "plain"
    if kind == "py7zr":
        chain = rng.choice(arch.FAST_CHAINS + ["lzma", "x86+lzma2", "copy+aes", "lzma2+aes"])
        password = "pw-é" if arch.needs_pw(chain) else None
        nm = rng.choice([0, 1, 2, 3])
        members0 = [("b%d_%d" % (idx, j), arch.pattern_bytes(rng, rng.choice([0, 1, 17, 500]), "text")) for j in range(nm)]
        sess = []
        for s in range(rng.choice([0, 0, 1, 2])):
            sess.append(([("s%d_%d_%d" % (idx, s, j), arch.pattern_bytes(rng, rng.choice([0, 3, 40]), "random"))
                          for j in range(rng.choice([1, 2]))], chain if password else rng.choice(arch.FAST_CHAINS)))
        data = arch.make_archive(members0, chain=chain, password=password, encoded=rng.random() < 0.5, sessions=sess)
        what = "py7zr archive (%d+%d sessions)" % (1, len(sess))
    elif kind == "ref":
        members0 = c06.gen_members(rng)
        if rng.random() < 0.25:
            for m in members0:
                m["ctime"] = c06.FT + rng.randrange(10 ** 9) * 10 if rng.random() < 0.7 else None
                m["atime"] = c06.FT + rng.randrange(10 ** 9) * 10 if rng.random() < 0.7 else None
        feature = rng.choice([None, None, "partial_vectors", "packpos", "zero_folder", "partial_crc", "no_substreams"])
        lay = c06.gen_layout(rng, members0, feature)
        fl = c06.classify(members0, lay)
        if lay.get("pack_crc"):
            fl = fl + ["pack_crc"]
        if lay.get("crc") in ("folder", "folder-partial"):
            fl = fl + ["folder_crc"]
        if any(m.get("ctime") is not None or m.get("atime") is not None for m in members0):
            fl = fl + ["ctime_atime"]
        feats = ",".join(sorted(set(fl))) or "plain"
        data = refwriter.write_archive(members0, lay)
        what = "reference-writer archive"
    else:
        fx = sorted(glob.glob(os.path.join(os.environ.get("VERIF_REPO", "/repo"), "tests", "data", "*.7z")))
        fx = [p for p in fx if os.path.getsize(p) < 200000]
        path = rng.choice(fx)
        data = open(path, "rb").read()
        what = "fixture"
        feats = os.path.basename(path)
        if reopen_graph(data)[0] != "ok":
            rep.dist("model_open", "fixture not readable without password / unsupported")
            return
    members = gen_members(rng, set(), idx)
    chain2 = rng.choice(["copy+aes", "lzma2+aes"]) if password else rng.choice(arch.FAST_CHAINS + ["lzma", "ppmd"])
    tmp = tempfile.mkdtemp(prefix="c08m_")
    try:
        compare_case(ctx, rep, ("c08model", "real", idx), data, members, chain2, rng.random() < 0.5, tmp, what,
                     password=password, feats=feats)
    finally:
        shutil.rmtree(tmp, ignore_errors=True)


def check_append_model(ctx, rep, rng, tier):
    if ctx.get("model") is None:
        return
    rep.cov["model_rule"] = ("append-model correspondence: one real append session per case (0..4 members via writestr/write(file)/"
                             "write(directory), chain, raw or encoded header) on (A) generated header graphs written by Header.write in "
                             "front of a packed area of the declared size [packpos, pack CRCs all/partly defined, undefined sub-stream "
                             "CRCs, no names, ctime/atime, ArchiveProperties] and (B) py7zr / reference-writer / fixture archives; "
                             "compared: seek position, graph after open, graph at close, header bytes, graph after re-open, tiling of "
                             "the packed streams on the file image, plans before/after")
    na, nb = (160, 60) if tier == "quick" else (4000, 1500)
    for i in range(na):
        graph_case(ctx, rep, rng, i)
        if len(rep.violations) > 25:
            return
    for i in range(nb):
        real_case(ctx, rep, rng, i)
        if len(rep.violations) > 25:
            return


# ------------------------------------------------------------------ development driver
if __name__ == "__main__":
    import random
    import sys
    sys.path.insert(0, os.path.join(os.path.dirname(__file__), ".."))
    import vlib

    class PrivModel(vlib.Model):
        def __init__(self, exe):
            import subprocess
            self.p = subprocess.Popen([exe], stdin=subprocess.PIPE, stdout=subprocess.PIPE, text=True, bufsize=1)
            self.calls = 0

    if len(sys.argv) > 2:
        import re
        vlib._FN = vlib.fn_table()
        vlib._FN.update({name: int(num) for num, name in re.findall(r"\(\*\s*FN\s+(\d+)\s+([A-Za-z0-9_]+)", open(sys.argv[2]).read())})
        model = PrivModel(sys.argv[1])
    else:
        model = vlib.Model()
    rep = vlib.Report("C08", "quick", 1)
    ctx = {"rep": rep, "tier": sys.argv[3] if len(sys.argv) > 3 else "quick", "seed": 1, "model": model}
    check_append_model(ctx, rep, random.Random(int(os.environ.get("SEED", "1"))), ctx["tier"])
    print("evaluations", rep.cov["evaluations"], "distinct", rep.cov["distinct_nontrivial"], "violations", len(rep.violations))
    for v in rep.violations[:30]:
        print("-", (v.get("what") if isinstance(v, dict) else str(v))[:600])
    for k, v in rep.extra.get("distribution", {}).items():
        print(k, dict(v))
