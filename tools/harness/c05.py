"""C05 -- any input terminates in bounded time and memory; the interpreter survives.

Proof side: coq/theories/Cost.v + coq/props/C05.v (consumption lemmas, resource answers of the
header-parser model, step counts of the loops whose trip count is a declared number, termination /
non-termination of the two decompress loops).

This module ties the model to the code and explores the code:
  1. correspondence of the cost model (packpositions, read_utf16 iterations, bind-pair search steps,
     _read_digest trip count, the two decompress loops with toy stages) with the Python;
  2. structure-aware mutation of header token streams (declared numbers set to boundary values, sections
     dropped / duplicated / reordered, CRCs re-sealed) + truncations, bit flips, splices of whole archives +
     wrong / missing passwords, each run under call sequences in sandboxed children with a wall-clock
     budget per call, an RSS watcher, an address-space limit and a detector for the modelled `stuck`
     state of the decompress loops; the header-parser model predicts returns / raises / resource answer;
  3. measurement of time and RSS against input size for the known blow-ups.
"""
import io
import json
import math
import os
import random
import shutil
import struct
import sys
import tempfile
import time
import zlib
from concurrent.futures import ThreadPoolExecutor

import py7zr
import py7zr.archiveinfo as ai

from harness import arch, hdr
from harness.sandbox import run_sandboxed

GEN_DEPS = ["SevenZipDecompressor", "SevenZipDecompressor._decompress", "SevenZipDecompressor._read_data", "SevenZipDecompressor.decompress", "calculate_crc32"]
LEVEL = "proof"
TRUSTED_BASE = [
    "Coq 8.16.1 kernel, vm_compute (no native_compute); no axioms (Print Assumptions: closed)",
    "theories/Header.v (hand model of the header parser; differential-tested against archiveinfo.py by tools/harness/hdr.py "
    "and here on every mutant: status classes returns / raises / resource)",
    "theories/Decomp.v (hand model of SevenZipDecompressor.decompress and Worker.decompress) and theories/Cost.v "
    "(step counts of four Python loops, Header._read's loop); differential-tested here with toy stages and counting readers",
    "extraction (ExtrOcamlBasic only) + ocaml/driver.ml for running the model",
    "the sandbox: wall-clock per call, RSS watcher, RLIMIT_AS, child exit status are observations of the runtime, not proofs; "
    "behaviour inside the C codecs (liblzma, zlib, bz2, zstd, ppmd, brotli) is observed only",
]
ASSUMPTIONS = [
    "termination of the two decode loops is proved for the guarded loops of Cost.v (worker_guarded, header_guarded: at most 16 "
    "stalled rounds in a row) for every behaviour of the decoder stages; that these are the loops of the code is the "
    "correspondence with toy stages run here (result, exception class, number of decompress calls through the fuel)",
    "a hash-set lookup (Folder._read bound_inputs) is counted as one step",
    "time and memory of the real interpreter are measured, with thresholds: a call may use 2 s of CPU time (3 s thorough; "
    "inputs are below 64 kB), with a wall-clock backstop of 8 times that + 5 s; resident memory may grow by 300 MB per call",
]

MAGIC = b"7z\xbc\xaf\x27\x1c"
BOUNDARY = [0, 1, 2, 127, 128, 255, 256, 2 ** 14 - 1, 2 ** 14, 2 ** 16, 2 ** 21 - 1, 2 ** 21, 2 ** 24, 2 ** 28 - 1, 2 ** 28,
            2 ** 31 - 1, 2 ** 31, 2 ** 32 - 1, 2 ** 32, 2 ** 35, 2 ** 42, 2 ** 49, 2 ** 56 - 1, 2 ** 56, 2 ** 63 - 1, 2 ** 63,
            2 ** 64 - 1]

# ------------------------------------------------------------------ archive framing


def seal(header, packed=b"", ofs=None, size=None, hcrc=None, version=b"\x00\x04"):
    """a complete archive: signature header with matching CRCs, packed area, header"""
    nh_crc = (zlib.crc32(header) & 0xFFFFFFFF) if hcrc is None else hcrc
    tail = struct.pack("<QQL", len(packed) if ofs is None else ofs, len(header) if size is None else size, nh_crc)
    return MAGIC + version + struct.pack("<L", zlib.crc32(tail) & 0xFFFFFFFF) + tail + packed + header


def split(a):
    """(packed area, header bytes) of a well-formed archive"""
    ofs, size, _ = struct.unpack("<QQL", a[12:32])
    return a[32:32 + ofs], a[32 + ofs:32 + ofs + size]


def num(v):
    b = io.BytesIO()
    ai.write_uint64(b, v)
    return b.getvalue()


# ------------------------------------------------------------------ header <-> token stream
# a token is [label, kind, value]; kinds: id (one byte), num (NUMBER), u32, u64, byte, bytes, bits (list of bool, MSB first)


def _boolvec(label, bits, T):
    """write_boolean(..., all_defined=True)"""
    if all(bits):
        T.append([label + ".alldefined", "byte", 1])
    else:
        T.append([label + ".alldefined", "byte", 0])
        T.append([label + ".bits", "bits", [bool(b) for b in bits]])


def tokens_of(tree):
    """token stream of the raw header Header.write(encoded=False) produces for this graph (hdr.header_tree format)"""
    T = [["header", "id", 1]]
    st, files, emptyfiles = tree
    if st:
        pack, folders, sub = st[0]
        T.append(["streams", "id", 4])
        if pack:
            p = pack[0]
            T.append(["pack", "id", 6])
            T.append(["pack.packpos", "num", p[0]])
            T.append(["pack.numstreams", "num", p[1]])
            T.append(["pack.sizes", "id", 9])
            for s in p[2]:
                T.append(["pack.sizes.size", "num", s])
            if any(p[3]):
                T.append(["pack.crc", "id", 10])
                _boolvec("pack.crc", p[3], T)
                vals = list(p[4])
                for c in vals:
                    T.append(["pack.crc.value", "u32", c])
            T.append(["pack.end", "id", 0])
        if folders:
            fs = folders[0]
            T.append(["unpack", "id", 7])
            T.append(["unpack.folder", "id", 11])
            T.append(["unpack.numfolders", "num", len(fs)])
            T.append(["unpack.external", "byte", 0])
            for f in fs:
                coders, bonds, packed, _us, _dd, _crc = f
                T.append(["unpack.folder.numcoders", "num", len(coders)])
                for c in coders:
                    method, nin, nout, props = c
                    simple = nin == 1 and nout == 1
                    flag = (len(method) & 15) | (0 if simple else 16) | (32 if props else 0)
                    T.append(["unpack.folder.coder.flag", "byte", flag])
                    T.append(["unpack.folder.coder.method", "bytes", bytes(method)])
                    if not simple:
                        T.append(["unpack.folder.coder.nin", "num", nin])
                        T.append(["unpack.folder.coder.nout", "num", nout])
                    if props:
                        T.append(["unpack.folder.coder.proplen", "num", len(props[0])])
                        T.append(["unpack.folder.coder.props", "bytes", bytes(props[0])])
                for a, b in bonds:
                    T.append(["unpack.folder.bond.in", "num", a])
                    T.append(["unpack.folder.bond.out", "num", b])
                if sum(c[1] for c in coders) - sum(c[2] for c in coders) > 0:
                    for pi in packed:
                        T.append(["unpack.folder.packed", "num", pi])
            T.append(["unpack.sizes", "id", 12])
            for f in fs:
                for s in f[3]:
                    T.append(["unpack.sizes.size", "num", s])
            if any(f[4] for f in fs):
                T.append(["unpack.crc", "id", 10])
                _boolvec("unpack.crc", [f[4] for f in fs], T)
                for f in fs:
                    if f[4]:
                        T.append(["unpack.crc.value", "u32", f[5][0] if f[5] else 0])
            T.append(["unpack.end", "id", 0])
        if sub:
            nums, sizes, dd, dg = sub[0]
            T.append(["sub", "id", 8])
            if any(n != 1 for n in nums):
                T.append(["sub.nums", "id", 13])
                for n in nums:
                    T.append(["sub.nums.n", "num", n])
            if any(n > 1 for n in nums) and sizes:
                T.append(["sub.sizes", "id", 9])
                idx = 0
                for n in nums:
                    for j in range(n):
                        if j + 1 != n and idx < len(sizes[0]):
                            T.append(["sub.sizes.size", "num", sizes[0][idx]])
                        idx += 1
            if any(dd):
                T.append(["sub.crc", "id", 10])
                _boolvec("sub.crc", dd, T)
                for d, g in zip(dd, dg):
                    if d:
                        T.append(["sub.crc.value", "u32", g])
            T.append(["sub.end", "id", 0])
        T.append(["streams.end", "id", 0])
    if files:
        fl = files[0]
        T.append(["files", "id", 5])
        T.append(["files.numfiles", "num", len(fl)])
        es = [bool(f[0]) for f in fl]
        if any(es):
            T.append(["files.emptystream", "id", 14])
            T.append(["files.emptystream.size", "num", (len(fl) + 7) // 8])
            T.append(["files.emptystream.bits", "bits", es])
            if any(emptyfiles):
                T.append(["files.emptyfile", "id", 15])
                T.append(["files.emptyfile.size", "num", (len(emptyfiles) + 7) // 8])
                T.append(["files.emptyfile.bits", "bits", [bool(b) for b in emptyfiles]])
        names = [f[1][0] for f in fl if f[1]]
        if names:
            body = b"".join("".join(chr(c) for c in n).encode("utf-16LE", "surrogatepass") + b"\0\0" for n in names)
            T.append(["files.names", "id", 17])
            T.append(["files.names.size", "num", len(body) + 1])
            T.append(["files.names.external", "byte", 0])
            for n in names:
                T.append(["files.names.name", "bytes", "".join(chr(c) for c in n).encode("utf-16LE", "surrogatepass")])
                T.append(["files.names.term", "bytes", b"\0\0"])
        for key, idx, pid, kind, w in (("mtime", 4, 20, "u64", 8), ("attr", 5, 21, "u32", 4)):
            defined = [bool(f[idx] and f[idx][0]) for f in fl]
            if not fl:
                continue
            ndef = sum(defined)
            size = ndef * w + 2 + (0 if all(defined) else (len(fl) + 7) // 8)
            T.append(["files.%s" % key, "id", pid])
            T.append(["files.%s.size" % key, "num", size])
            _boolvec("files.%s" % key, defined, T)
            T.append(["files.%s.external" % key, "byte", 0])
            for f in fl:
                if f[idx] and f[idx][0]:
                    T.append(["files.%s.value" % key, kind, f[idx][0][0]])
        T.append(["files.end", "id", 0])
    T.append(["header.end", "id", 0])
    return T


def assemble(T):
    out = bytearray()
    for _label, kind, v in T:
        if kind in ("id", "byte"):
            out.append(v & 0xFF)
        elif kind == "num":
            out += num(v & (2 ** 64 - 1))
        elif kind == "u32":
            out += struct.pack("<L", v & 0xFFFFFFFF)
        elif kind == "u64":
            out += struct.pack("<Q", v & (2 ** 64 - 1))
        elif kind == "bytes":
            out += v
        elif kind == "bits":
            o = bytearray((len(v) + 7) // 8)
            for i, b in enumerate(v):
                if b:
                    o[i // 8] |= 1 << (7 - i % 8)
            out += o
    return bytes(out)


SECTIONS = ["pack", "unpack", "sub", "files", "files.names", "files.mtime", "files.attr", "files.emptystream", "pack.crc",
            "unpack.crc", "sub.crc", "sub.nums", "sub.sizes", "pack.sizes", "unpack.sizes", "unpack.folder", "streams"]


def _section_span(T, name):
    idx = [i for i, t in enumerate(T) if t[0] == name or t[0].startswith(name + ".")]
    return (idx[0], idx[-1] + 1) if idx else None


def mutate_tokens(T, rng):
    """one structure-aware mutation; returns (tokens, description)"""
    T = [list(t) for t in T]
    r = rng.random()
    nums = [i for i, t in enumerate(T) if t[1] == "num"]
    if r < 0.45 and nums:
        i = rng.choice(nums)
        # counts and sizes are the interesting numbers: weight them
        counts = [j for j in nums if T[j][0].split(".")[-1] in ("numfiles", "numstreams", "numfolders", "numcoders", "n", "nin",
                                                                 "nout", "proplen", "size", "packpos")]
        if counts and rng.random() < 0.7:
            i = rng.choice(counts)
        old = T[i][2]
        v = rng.choice(BOUNDARY + [old + 1, max(0, old - 1), old * 2, old + 8, old + 50, old + 1000])
        T[i][2] = v
        return T, "%s: %d -> %d" % (T[i][0], old, v)
    if r < 0.55:
        fixed = [i for i, t in enumerate(T) if t[1] in ("u32", "u64", "byte")]
        if fixed:
            i = rng.choice(fixed)
            old = T[i][2]
            T[i][2] = rng.choice([0, 1, 255, 2 ** 31, 2 ** 32 - 1, 2 ** 63, 2 ** 64 - 1, rng.getrandbits(32)])
            return T, "%s: %d -> %d" % (T[i][0], old, T[i][2])
    if r < 0.62:
        ids = [i for i, t in enumerate(T) if t[1] == "id"]
        if not ids:
            return T + [["header.end", "id", 0]], "END appended"
        i = rng.choice(ids)
        old = T[i][2]
        if rng.random() < 0.3:
            lab = T[i][0]
            del T[i]
            return T, "%s: id %d removed" % (lab, old)
        T[i][2] = rng.choice([0, 1, 4, 5, 6, 7, 8, 9, 10, 11, 12, 13, 14, 15, 16, 17, 18, 19, 20, 21, 22, 23, 24, 25, 255])
        return T, "%s: id %d -> %d" % (T[i][0], old, T[i][2])
    if r < 0.70:
        bits = [i for i, t in enumerate(T) if t[1] == "bits"]
        if bits:
            i = rng.choice(bits)
            b = list(T[i][2])
            how = rng.choice(["flip", "all", "none", "shrink", "grow", "empty"])
            if how == "flip" and b:
                j = rng.randrange(len(b))
                b[j] = not b[j]
            elif how == "all":
                b = [True] * len(b)
            elif how == "none":
                b = [False] * len(b)
            elif how == "shrink":
                b = b[:len(b) // 2]
            elif how == "grow":
                b = b + [True] * rng.choice([1, 8, 64])
            else:
                b = []
            T[i][2] = b
            return T, "%s: bits %s" % (T[i][0], how)
    if r < 0.78:
        bs = [i for i, t in enumerate(T) if t[1] == "bytes"]
        if bs:
            i = rng.choice(bs)
            old = T[i][2]
            how = rng.choice(["empty", "trunc", "rand", "grow", "zero"])
            if how == "empty":
                v = b""
            elif how == "trunc":
                v = old[:len(old) // 2]
            elif how == "rand":
                v = bytes(rng.randrange(256) for _ in old)
            elif how == "grow":
                v = old + bytes(rng.randrange(256) for _ in range(rng.choice([1, 2, 17])))
            else:
                v = bytes(len(old))
            T[i][2] = v
            return T, "%s: bytes %s" % (T[i][0], how)
    if r < 0.93:
        present = [s for s in SECTIONS if _section_span(T, s)]
        if present:
            s = rng.choice(present)
            a, b = _section_span(T, s)
            how = rng.choice(["drop", "dup", "move", "swap"])
            sec = T[a:b]
            if how == "drop":
                return T[:a] + T[b:], "section %s dropped" % s
            if how == "dup":
                return T[:b] + [list(t) for t in sec] + T[b:], "section %s duplicated" % s
            if how == "move":
                rest = T[:a] + T[b:]
                k = rng.randrange(0, len(rest) + 1)
                return rest[:k] + sec + rest[k:], "section %s moved to token %d" % (s, k)
            others = [x for x in present if x != s and not x.startswith(s + ".") and not s.startswith(x + ".")]
            if others:
                s2 = rng.choice(others)
                a2, b2 = _section_span(T, s2)
                if b <= a2:
                    return T[:a] + T[a2:b2] + T[b:a2] + sec + T[b2:], "sections %s and %s swapped" % (s, s2)
                if b2 <= a:
                    return T[:a2] + sec + T[b2:a] + T[a2:b2] + T[b:], "sections %s and %s swapped" % (s, s2)
            return T[:a] + T[b:], "section %s dropped" % s
    k = rng.randrange(1, max(2, len(T)))
    keep_end = rng.random() < 0.5
    return T[:k] + ([["header.end", "id", 0]] if keep_end else []), "token stream cut at %d%s" % (k, " + END" if keep_end else "")


# ------------------------------------------------------------------ the child: run call sequences under watch
OPS = ["getnames", "list", "test", "testzip", "extractall", "extract1", "reset", "needs_password"]
EXTRACTING = ("extractall", "extract1", "testzip")


def _sites(frame, limit=12):
    """innermost-first list of 'Class.func|source line' for frames of the package under test"""
    import linecache
    out = []
    f = frame
    while f is not None and len(out) < limit:
        fn = f.f_code.co_filename
        if os.sep + "py7zr" + os.sep in fn:
            slf = f.f_locals.get("self")
            cls = type(slf).__name__ + "." if slf is not None else ""
            if cls == "" and "cls" in f.f_locals:
                cls = getattr(f.f_locals["cls"], "__name__", "") + "."
            extra = ""
            if cls == "PackInfo.":
                try:
                    extra = "[packsizes=%d]" % len(slf.packsizes)
                except Exception:  # noqa
                    pass
            out.append("%s%s%s|%s|after: %s" % (cls, f.f_code.co_name, extra, linecache.getline(fn, f.f_lineno).strip()[:80],
                                               linecache.getline(fn, f.f_lineno - 1).strip()[:60]))
        f = f.f_back
    return out


class _Timeout(BaseException):
    pass


class _Blowup(BaseException):
    pass


class SpinDetected(Exception):
    """the decompressor returned nothing, without reading input, SPIN_LIMIT times in a row: the state
    `stuck` of Decomp.v, from which Worker.decompress / Header._read never leave their loop"""


SPIN_LIMIT = 3000


def _install_spin_detector():
    from py7zr import compressor
    orig = compressor.SevenZipDecompressor.decompress
    if getattr(orig, "_c05", False):
        return

    def decompress(self, fp, max_length=-1):
        before = (self.consumed, sum(self._unpacked))     # packed input taken, bytes put out by the coders of the chain
        res = orig(self, fp, max_length)
        if len(res) == 0 and (self.consumed, sum(self._unpacked)) == before and max_length != 0:
            n = getattr(self, "_c05_quiet", 0) + 1
            self._c05_quiet = n
            if n >= SPIN_LIMIT:
                caller = sys._getframe(1)
                info = {"consumed": self.consumed, "input_size": self.input_size, "unused": len(self._unused),
                        "buf_left": len(self._buf) - self._pos, "unpacked": list(self._unpacked),
                        "unpacksizes": [int(x) if x is not None else None for x in self._unpacksizes],
                        "max_length": max_length, "sites": _sites(caller)}
                raise SpinDetected(json.dumps(info))
        else:
            self._c05_quiet = 0
        return res

    decompress._c05 = True
    compressor.SevenZipDecompressor.decompress = decompress


class _NullWriter(py7zr.io.Py7zIO):
    def __init__(self, counter):
        self.counter = counter
        self.n = 0

    def write(self, s):
        self.n += len(s)
        self.counter[0] += len(s)
        return len(s)

    def read(self, size=None):
        return b""

    def seek(self, offset, whence=0):
        return 0

    def flush(self):
        pass

    def size(self):
        return self.n


class _NullFactory(py7zr.io.WriterFactory):
    def __init__(self):
        self.counter = [0]
        self.names = []

    def create(self, filename):
        self.names.append(filename)
        return _NullWriter(self.counter)


def _rss_kb():
    with open("/proc/self/statm") as f:
        return int(f.read().split()[1]) * (os.sysconf("SC_PAGE_SIZE") // 1024)


def _rss_mb():
    return _rss_kb() // 1024


def _do_op(z, op):
    if op == "getnames":
        return len(z.getnames())
    if op == "list":
        return len(z.list())
    if op == "test":
        return repr(z.test())
    if op == "testzip":
        return repr(z.testzip())[:60]
    if op == "extractall":
        fac = _NullFactory()
        z.extractall(factory=fac)
        return [len(fac.names), fac.counter[0]]
    if op == "extract1":
        fac = _NullFactory()
        names = z.getnames()
        z.extract(targets=names[:1], factory=fac)
        return [len(fac.names), fac.counter[0]]
    if op == "reset":
        z.reset()
        return None
    if op == "needs_password":
        return bool(z.needs_password())
    raise ValueError(op)


def child_batch(arg):
    """run cases [{id, a(hex), pw, ops, mode}] one after the other; per call: wall-clock budget (SIGALRM),
    RSS watcher, optional spin detector.  Stops early once a case tainted the process (timeout / blow-up)."""
    import faulthandler
    import resource
    import signal
    import threading
    if arg.get("fault"):
        # the Python stack at a fatal signal (abort inside a C extension, ...) for the parent to read
        child_batch._fault = open(arg["fault"], "w")
        faulthandler.enable(file=child_batch._fault)
    if arg.get("detect_spin", True):
        _install_spin_detector()
    main_id = threading.get_ident()
    state = {"armed": False, "base": 0, "sites": None}
    rss_limit = arg.get("rss_mb", 300)

    def on_alarm(sig, frame):
        if not state.get("in_op"):
            return
        st = _sites(frame)
        for tid, fr in sys._current_frames().items():
            if tid != main_id:
                st += ["thread:" + s for s in _sites(fr, 6)]
        raise _Timeout(json.dumps(st))

    def on_usr1(sig, frame):
        if not state.get("in_op"):
            return
        raise _Blowup(json.dumps(state["sites"] or _sites(frame)))

    signal.signal(signal.SIGALRM, on_alarm)
    signal.signal(signal.SIGPROF, on_alarm)
    signal.signal(signal.SIGUSR1, on_usr1)
    stop = threading.Event()

    def watcher():
        while not stop.wait(0.01):
            if state["armed"] and _rss_mb() - state["base"] > rss_limit:
                state["armed"] = False
                fr = sys._current_frames().get(main_id)
                state["sites"] = _sites(fr) if fr is not None else []
                signal.pthread_kill(main_id, signal.SIGUSR1)

    th = threading.Thread(target=watcher, daemon=True)
    th.start()
    tmpdir = arg.get("tmpdir")
    results = []
    for case in arg["cases"]:
        data = bytes.fromhex(case["a"])
        budget = case.get("budget", arg.get("budget", 2.0))
        ops_out = []
        tainted = False
        z = None
        seq = ["open"] + list(case["ops"])
        for op in seq:
            if z is None and op != "open":
                break
            state["base"] = _rss_mb()
            peak0 = resource.getrusage(resource.RUSAGE_SELF).ru_maxrss // 1024
            state["armed"] = True
            state["in_op"] = True      # signals that arrive after the call has ended are ignored by the handlers
            t0 = time.time()
            # the budget is CPU time of this process (the machine may be busy); wall clock only as a backstop
            signal.setitimer(signal.ITIMER_PROF, budget)
            signal.setitimer(signal.ITIMER_REAL, budget * 8 + 5)
            try:
                try:
                    if op == "open":
                        if case.get("mode") == "file":
                            p = os.path.join(tmpdir, "c%d.7z" % os.getpid())
                            with open(p, "wb") as f:
                                f.write(data)
                            z = py7zr.SevenZipFile(p, "r", password=case.get("pw"))
                        else:
                            z = py7zr.SevenZipFile(io.BytesIO(data), "r", password=case.get("pw"))
                        val = None
                    else:
                        val = _do_op(z, op)
                finally:
                    signal.setitimer(signal.ITIMER_PROF, 0)
                    signal.setitimer(signal.ITIMER_REAL, 0)
                    state["armed"] = False
                state["in_op"] = False
                ops_out.append([op, "ok", val, round(time.time() - t0, 3)])
            except _Timeout as e:
                state["in_op"] = False
                ops_out.append([op, "timeout", json.loads(str(e)), round(time.time() - t0, 3)])
                tainted = True
            except _Blowup as e:
                state["in_op"] = False
                ops_out.append([op, "rss", json.loads(str(e)), round(time.time() - t0, 3)])
                tainted = True
            except SpinDetected as e:
                state["in_op"] = False
                ops_out.append([op, "spin", json.loads(str(e)), round(time.time() - t0, 3)])
                # the decompressor object is left as it is (it is stuck); later calls would spin again
                break
            except MemoryError as e:
                state["in_op"] = False
                tb = e.__traceback__
                last = None
                while tb is not None:
                    last = tb
                    tb = tb.tb_next
                ops_out.append([op, "memory", _sites(last.tb_frame) if last else [], round(time.time() - t0, 3)])
                tainted = _rss_mb() - state["base"] > rss_limit // 2
                if op == "open":
                    z = None
            except BaseException as e:  # noqa  (SystemExit / KeyboardInterrupt from the code under test included)
                state["in_op"] = False
                kind = "exc" if isinstance(e, Exception) else "exit"
                ops_out.append([op, kind, type(e).__name__, round(time.time() - t0, 3)])
                if kind == "exit":
                    tainted = True
                if op == "open":
                    z = None
            # a spike the sampling watcher missed (one long allocation inside C code that was freed again):
            # the peak of the process tells; the site is found by the parent (re-run under a low address-space limit)
            peak1 = resource.getrusage(resource.RUSAGE_SELF).ru_maxrss // 1024
            if not tainted and ops_out and ops_out[-1][1] in ("ok", "exc") and peak1 - max(peak0, state["base"]) > rss_limit:
                ops_out[-1] = [op, "rss", {"sites": [], "posthoc": True, "peak_mb": peak1, "was": ops_out[-1][1:3]}, ops_out[-1][3]]
                tainted = True
            if tainted:
                break
        try:
            if z is not None and not tainted:
                z.close()
        except BaseException:  # noqa
            pass
        results.append({"id": case["id"], "ops": ops_out, "tainted": tainted, "rss_mb": _rss_mb()})
        if tainted:
            break
    stop.set()
    return results


def child_single(arg):
    """one case, no instrumentation at all (replays, confirmation of hangs): the parent's watchdog decides"""
    import resource
    data = bytes.fromhex(arg["a"])
    t0 = time.time()
    out = []
    if arg.get("mode") == "file":
        p = os.path.join(arg["tmpdir"], "s%d.7z" % os.getpid())
        with open(p, "wb") as f:
            f.write(data)
        src = p
    else:
        src = io.BytesIO(data)
    try:
        z = py7zr.SevenZipFile(src, "r", password=arg.get("pw"))
        out.append(["open", "ok"])
        for op in arg["ops"]:
            try:
                out.append([op, "ok", _do_op(z, op)])
            except MemoryError:
                raise
            except Exception as e:  # noqa
                out.append([op, "exc", type(e).__name__])
    except MemoryError:
        raise
    except Exception as e:  # noqa
        out.append(["open", "exc", type(e).__name__])
    return {"ops": out, "time": round(time.time() - t0, 3),
            "maxrss_mb": resource.getrusage(resource.RUSAGE_SELF).ru_maxrss // 1024}


# ------------------------------------------------------------------ classification of what the watch saw
def classify(op, status, detail, ops_before):
    """(kind, via) of an observed resource event, from the innermost frames of the package under test"""
    if status == "exit":
        return ("crash", "interpreter-exit")
    if status == "child":
        s0 = " || ".join(detail or [])
        if "pyppmd.Ppmd7Decoder(" in s0 or "pyppmd.Ppmd8Decoder(" in s0:
            return ("crash", "ppmd-mem-alloc-failure")
        if detail and detail[0].startswith("PpmdDecompressor.decompress"):
            return ("crash", "ppmd-decoder-race")        # pyppmd's decoder thread: third-party race, see C01-ppmd-decoder-race-*
        return ("crash", "child-" + (detail[0].split("|")[0] if detail else "no-python-frame"))
    sites = detail.get("sites", []) if isinstance(detail, dict) else list(detail or [])
    s = " || ".join(sites)
    stale = False
    for o in ops_before:
        if o in EXTRACTING:
            stale = True
        elif o == "reset":
            stale = False
    if sites and sites[0].startswith("PpmdDecompressor.decompress"):
        # the innermost Python frame is the call into pyppmd's decoder (which runs its own thread): a crash or a wait that never
        # ends there is the third-party race recorded under C01-ppmd-decoder-race-*, not a loop of py7zr
        return ("crash" if status in ("exit", "crash") else "hang", "ppmd-decoder-race")
    if "_read_digest" in s:
        return ("hang", "test-digest-declared-packsize")
    if "read_utf16" in s:
        return ("amplify", "names-at-eof")
    if "_find_in_bin_pair" in s or ("Folder._read" in s and "range(totalin)" in s):
        return ("quadratic", "bindpairs")
    if "PackInfo._read" in s and "packpositions" in s:
        return ("alloc", "numstreams-without-sizes") if "PackInfo._read[packsizes=0]" in s else ("quadratic", "packpositions")
    if "for _ in range(numfiles)" in s:
        return ("alloc", "numfiles")
    if "SubstreamsInfo._read" in s or "after: self.substreamsinfo = SubstreamsInfo.retrieve" in s:
        return ("alloc", "substreams-count")
    if "Header._read|chunk = decompressor.decompress" in s or "Header._read|folder_data += decompressor.decompress" in s or \
            ("Header._read" in s and "SevenZipDecompressor" in s and "Worker.decompress" not in s):
        return ("hang", "encoded-header-size-exceeds-stream")
    if "Worker.decompress" in s:
        return ("hang", "stale-decoder" if stale else "declared-size-exceeds-stream")
    first = sites[0].split("|")[0] if sites else "no-frame"
    return ("unknown", first)


# defects found by this check and repaired in the tree since (commits 2499498, 95b882f, 973abee of /repo): an event of
# one of these shapes is a regression
REPAIRED = {("hang", "declared-size-exceeds-stream"), ("hang", "stale-decoder"), ("hang", "encoded-header-size-exceeds-stream"),
            ("hang", "test-digest-declared-packsize"), ("alloc", "numstreams-without-sizes"), ("quadratic", "packpositions"),
            ("quadratic", "bindpairs"), ("amplify", "names-at-eof")}

WHAT = {
    ("hang", "declared-size-exceeds-stream"): "Worker.decompress never leaves `while out_remaining > 0`: the decoder returns b\"\" with "
                                              "its input exhausted (declared unpack size exceeds what the stream yields)",
    ("hang", "stale-decoder"): "a second extraction (extractall/extract/testzip) without reset() reuses the exhausted decompressor and "
                               "Worker.decompress never leaves its loop",
    ("hang", "encoded-header-size-exceeds-stream"): "Header._read never leaves `while remaining > 0` (encoded header declared larger "
                                                    "than its stream yields): the constructor does not return",
    ("hang", "test-digest-declared-packsize"): "SevenZipFile._read_digest loops declared-packsize/blocksize times whatever read() returns",
    ("alloc", "numfiles"): "FilesInfo._read allocates one dict per DECLARED file before reading another byte",
    ("alloc", "numstreams-without-sizes"): "PackInfo._read builds packpositions for numstreams+1 entries although no size was read",
    ("alloc", "substreams-count"): "SubstreamsInfo._read allocates [False]*total / [0]*total / [True]*count for a DECLARED number of sub-streams",
    ("quadratic", "packpositions"): "PackInfo._read computes packpositions as sum(packsizes[:i]) for every i: quadratic in numstreams",
    ("quadratic", "bindpairs"): "Folder._read searches the whole bind-pair list for every input stream: quadratic in the number of bonds",
    ("amplify", "names-at-eof"): "read_utf16 iterates 65536 times at end of input, once per DECLARED file",
    ("crash", "ppmd-decoder-race"): "pyppmd's decoder thread crashes the interpreter (third-party race, rare)",
    ("hang", "ppmd-decoder-race"): "pyppmd's decoder thread deadlocks (third-party race, rare)",
    ("crash", "ppmd-mem-alloc-failure"): "PpmdDecompressor passes the archive's PPMd memory size (up to 4 GB, 4 bytes of coder "
                                         "properties) unchecked to pyppmd; when that allocation fails pyppmd aborts the process "
                                         "(double free): the interpreter does not survive",
}


# ------------------------------------------------------------------ corpus
def _members(rng):
    return [("a.txt", arch.pattern_bytes(rng, 200, "text")), ("dir/b.bin", arch.pattern_bytes(rng, 3000, "period")),
            ("c.dat", arch.pattern_bytes(rng, 1, "random")), ("empty", b"")]


def build_corpus(rng, tier):
    """list of dicts {name, a, pw, packed, tokens|None}"""
    out = []
    chains = list(arch.CHAINS) if tier != "quick" else ["copy", "lzma2", "lzma", "bzip2", "deflate", "zstd", "ppmd", "brotli",
                                                         "delta+lzma2", "x86+lzma2", "arm+lzma", "lzma2+aes", "copy+aes", "aes"]
    for ch in chains:
        pw = "secret" if arch.needs_pw(ch) else None
        try:
            a = arch.make_archive(_members(rng), chain=ch, password=pw, encoded=False)
        except Exception:  # noqa  (codec not available)
            continue
        out.append({"name": "made:" + ch, "a": a, "pw": pw})
    # several folders; encoded header; encrypted header
    try:
        out.append({"name": "made:multi", "pw": None, "a": arch.make_archive(
            [("a.txt", b"first " * 40)], chain="lzma2", encoded=False,
            sessions=[([("b.txt", b"second " * 50), ("c.txt", b"third")], "copy"), ([("d.txt", b"fourth " * 9)], "deflate")])})
        out.append({"name": "made:encoded", "pw": None, "a": arch.make_archive(_members(rng), chain="lzma2", encoded=True)})
        out.append({"name": "made:encoded-copy-aes", "pw": "secret",
                    "a": arch.make_archive(_members(rng), chain="copy+aes", password="secret", header_enc=True, encoded=True)})
    except Exception:  # noqa
        pass
    data = os.path.join(os.environ.get("VERIF_REPO", "/repo"), "tests", "data")
    fixtures = ["copy.7z", "deflate.7z", "lzma_1.7z", "lzma2_1.7z", "ppmd.7z", "zstd.7z", "solid.7z", "test_5.7z", "symlink.7z",
                "lzma2_bcj_arm.7z", "lzma_bcj2_1.7z", "github_14_multi.7z", "encrypted_1.7z", "zerosize.7z", "copy_bcj_1.7z",
                "test_folder.7z", "umlaut-solid.7z", "lzma2delta_1.7z", "test_multiple.7z", "lz4.7z", "bzip2.7z", "deflate64.7z"]
    if tier == "quick":
        fixtures = fixtures[:12]
    for fx in fixtures:
        p = os.path.join(data, fx)
        if os.path.exists(p) and os.path.getsize(p) < 40000:
            out.append({"name": "fixture:" + fx, "a": open(p, "rb").read(), "pw": "secret" if fx.startswith("encrypted") else None})
    # header graphs: from the raw header where there is one, otherwise through the opened archive
    for b in out:
        b["tokens"] = None
        b["packed"] = b""
        try:
            ofs, size, _ = struct.unpack("<QQL", b["a"][12:32])
            b["packed"] = b["a"][32:32 + ofs]
            raw = b["a"][32 + ofs:32 + ofs + size]
            if raw[:1] == b"\x01":
                st, t = hdr.impl_parse(raw)
                if st == "ok":
                    b["tokens"] = tokens_of(t)
            else:
                with py7zr.SevenZipFile(io.BytesIO(b["a"]), password=b["pw"]) as z:
                    b["tokens"] = tokens_of(hdr.header_tree(z.header))
        except Exception:  # noqa
            pass
    return out


SEQS = [["getnames", "list", "needs_password", "test", "testzip"], ["extractall"], ["extract1"], ["testzip"], ["test", "extractall"],
        ["extractall", "extractall"], ["extract1", "extract1"], ["extractall", "testzip"], ["testzip", "extractall"],
        ["extractall", "reset", "extractall"], ["testzip", "reset", "extract1", "reset", "testzip"], ["reset", "extractall", "test"],
        ["getnames", "extract1", "list", "extractall"], ["test", "testzip", "reset", "extractall", "reset", "extract1"]]


def random_seq(rng):
    if rng.random() < 0.75:
        return list(rng.choice(SEQS))
    return [rng.choice(OPS) for _ in range(rng.choice([1, 2, 3, 5]))]


def byte_mutant(b, corpus, rng):
    """truncation / bit flip / splice of a whole archive (no re-sealing)"""
    a = b["a"]
    r = rng.random()
    if r < 0.3:
        k = rng.choice([rng.randrange(0, len(a)), rng.randrange(max(0, len(a) - 40), len(a)), 31, 32, 33, 12, 6])
        return a[:min(k, len(a))], "truncated to %d of %d" % (min(k, len(a)), len(a))
    if r < 0.75:
        ba = bytearray(a)
        nflip = rng.choice([1, 1, 1, 2, 3, 8])
        where = []
        for _ in range(nflip):
            # the packed area is where a flip is not caught by a header CRC
            lo, hi = (32, 32 + len(b["packed"])) if b["packed"] and rng.random() < 0.7 else (0, len(a))
            i = rng.randrange(lo, max(lo + 1, hi))
            if i < len(ba):
                ba[i] ^= 1 << rng.randrange(8)
                where.append(i)
        return bytes(ba), "bits flipped at %s" % where
    o = rng.choice(corpus)["a"]
    how = rng.choice(["headtail", "insert", "dup", "swaphdr"])
    if how == "headtail":
        i, j = rng.randrange(0, len(a)), rng.randrange(0, len(o))
        return a[:i] + o[j:], "spliced %d bytes with tail of another archive from %d" % (i, j)
    if how == "insert":
        i = rng.randrange(32, max(33, len(a)))
        blk = o[rng.randrange(0, len(o)):][:rng.choice([1, 16, 200])]
        return a[:i] + blk + a[i:], "inserted %d foreign bytes at %d" % (len(blk), i)
    if how == "dup":
        i = rng.randrange(32, max(33, len(a)))
        n = rng.choice([1, 8, 64])
        return a[:i] + a[i:i + n] + a[i:], "duplicated %d bytes at %d" % (n, i)
    # header of another archive over this packed area, re-sealed
    _, oh = split(o)
    return seal(oh, b["packed"]), "header of another archive re-sealed over this packed area"


# ------------------------------------------------------------------ directed cases: one per kind that is known on the pinned tree
def directed_cases(rng):
    """[(name, archive, password, ops, expect)]: expect = (kind, via) for a trigger of a defect that is known on the
    pinned tree, None for a case that must show no resource event at all: the benign neighbours of those triggers
    (controls) and the triggers of the defects that have been repaired (regression cases: an ordinary exception or a
    normal return is expected)"""
    out = []
    a = arch.make_archive([("a.txt", b"hello world" * 10)], chain="copy", encoded=False)
    packed, h = split(a)
    T = tokens_of(hdr.impl_parse(h)[1])

    def mut(label, v):
        T2 = [list(x) for x in T]
        for x in T2:
            if x[0] == label:
                x[2] = v
                break
        return seal(assemble(T2), packed)

    out.append(("regression: copy: declared unpack size +50", mut("unpack.sizes.size", 160), None, ["getnames", "extractall"],
                None))
    d = arch.make_archive([("a.txt", b"hello world" * 10)], chain="deflate", encoded=False)
    dp, dh = split(d)
    DT = tokens_of(hdr.impl_parse(dh)[1])
    for x in DT:
        if x[0] == "pack.sizes.size":
            x[2] = max(1, len(dp) // 2)
    out.append(("regression: deflate: packed stream cut in half, header adjusted", seal(assemble(DT), dp[:max(1, len(dp) // 2)]), None,
                ["extractall"], None))
    out.append(("regression: valid copy archive: extractall twice without reset", a, None, ["extractall", "extractall"], None))
    out.append(("regression: valid copy archive: testzip after extractall without reset", a, None, ["extractall", "testzip"],
                None))
    out.append(("valid copy archive: extract twice WITH reset", a, None, ["extract1", "reset", "extract1", "reset", "testzip"], None))
    eh = (b"\x17\x06" + num(len(packed)) + b"\x01\x09" + num(len(h)) + b"\x00" + b"\x07\x0b\x01\x00" + b"\x01\x01\x00" + b"\x0c"
          + num(len(h) + 5) + b"\x00" + b"\x00")
    out.append(("regression: encoded header, Copy coder, declared 5 bytes more than stored", seal(eh, packed + h), None, ["getnames"],
                None))
    T2 = [list(x) for x in T]
    for x in T2:
        if x[0] == "pack.sizes.size":
            x[2] = 2 ** 63
    i = [k for k, x in enumerate(T2) if x[0] == "pack.end"][0]
    T2[i:i] = [["pack.crc", "id", 10], ["pack.crc.alldefined", "byte", 1], ["pack.crc.value", "u32", 12345]]
    out.append(("regression: pack size 2^63 with a pack CRC: test()", seal(assemble(T2), packed), None, ["test"],
                None))
    out.append(("40-byte archive declaring 2^32 files", seal(b"\x01\x05" + num(2 ** 32) + b"\x00\x00"), None, ["getnames"],
                ("alloc", "numfiles")))
    out.append(("regression: 43-byte archive declaring 2^32 pack streams and no sizes", seal(b"\x01\x04\x06\x00" + num(2 ** 32) + b"\x00\x00\x00"),
                None, ["getnames"], None))
    folder = b"\x01\x01\x00"
    sub = (b"\x01\x04\x06\x00\x01\x09\x00\x00" + b"\x07\x0b\x01\x00" + folder + b"\x0c\x00\x00" + b"\x08\x0d" + num(6 * 10 ** 7)
           + b"\x00" + b"\x00\x00")
    out.append(("59-byte archive declaring 6*10^7 sub-streams", seal(sub), None, ["getnames"], ("alloc", "substreams-count")))
    n = 45000
    out.append(("regression: %d pack sizes of one byte" % n, seal(b"\x01\x04\x06\x00" + num(n) + b"\x09" + b"\x01" * n + b"\x00\x00\x00"), None,
                ["getnames"], None))
    n = 12000
    fol = num(1) + bytes([0x11]) + b"\x00" + num(n + 1) + num(n + 1) + b"".join(num(1) + num(0) for _ in range(n))
    out.append(("regression: one folder with %d bind pairs" % n, seal(b"\x01\x04\x07\x0b\x01\x00" + fol + b"\x0c\x00"), None, ["getnames"],
                None))
    out.append(("regression: 41-byte archive: 2000 files, NAME record of one byte", seal(b"\x01\x05" + num(2000) + b"\x11\x01\x00\x00\x00"), None,
                ["getnames"], None))
    try:
        pa = arch.make_archive([("a.txt", b"hello world" * 10)], chain="ppmd", encoded=False)
        pp, ph = split(pa)
        PT = tokens_of(hdr.impl_parse(ph)[1])
        for x in PT:
            if x[0] == "unpack.folder.coder.props":
                x[2] = x[2][:1] + (0xC0000000).to_bytes(4, "little") + x[2][5:]
        out.append(("ppmd archive whose coder properties ask for 3 GiB of model memory", seal(assemble(PT), pp), None, ["extractall"],
                    ("crash", "ppmd-mem-alloc-failure")))
        out.append(("control: valid ppmd archive", pa, None, ["extractall", "reset", "testzip"], None))
    except Exception:  # noqa  (codec not available)
        pass
    # controls: benign neighbours of the triggers above; an event on one of them is never a known shape
    out.append(("control: 30 files, NAME record of one byte", seal(b"\x01\x05" + num(30) + b"\x11\x01\x00\x00\x00"), None, ["getnames"], None))
    out.append(("control: 20000 declared files", seal(b"\x01\x05" + num(20000) + b"\x00\x00"), None, ["getnames", "list"], None))
    out.append(("control: 10^5 pack streams without sizes", seal(b"\x01\x04\x06\x00" + num(10 ** 5) + b"\x00\x00\x00"), None,
                ["getnames"], None))
    out.append(("control: 10^5 declared sub-streams", seal(sub.replace(num(6 * 10 ** 7), num(10 ** 5))), None, ["getnames"], None))
    n = 2500
    out.append(("control: %d pack sizes of one byte" % n, seal(b"\x01\x04\x06\x00" + num(n) + b"\x09" + b"\x01" * n + b"\x00\x00\x00"),
                None, ["getnames"], None))
    n = 1200
    fol = num(1) + bytes([0x11]) + b"\x00" + num(n + 1) + num(n + 1) + b"".join(num(1) + num(0) for _ in range(n))
    out.append(("control: one folder with %d bind pairs" % n, seal(b"\x01\x04\x07\x0b\x01\x00" + fol + b"\x0c\x00"), None, ["getnames"], None))
    T3 = [list(x) for x in T2]
    for x in T3:
        if x[0] == "pack.sizes.size":
            x[2] = 40 * 2 ** 20
    out.append(("control: pack size 40 MiB with a pack CRC: test()", seal(assemble(T3), packed), None, ["test"], None))
    eh0 = (b"\x17\x06" + num(len(packed)) + b"\x01\x09" + num(len(h)) + b"\x00" + b"\x07\x0b\x01\x00" + b"\x01\x01\x00" + b"\x0c"
           + num(len(h)) + b"\x00" + b"\x00")
    out.append(("control: encoded header, Copy coder, exact size", seal(eh0, packed + h), None, ["getnames", "extractall"], None))
    out.append(("control: valid copy archive, every call once", a, None, ["getnames", "list", "needs_password", "test", "testzip"], None))
    # a declared count in front of a record that is sized by it, with the record that normally bounds the count left out:
    # every vector that is read "one entry per declared item" (all-defined CRC vectors, bit vectors, size lists)
    big = [2 ** 28, 2 ** 32, 2 ** 40]
    for n in big:
        pk = b"\x01\x04\x06\x00" + num(n)
        out.append(("regression: %d pack streams, no SIZE record, CRC record all defined" % n, seal(pk + b"\x0a\x01" + b"\x00\x00\x00"), None,
                    ["getnames"], None))
        out.append(("regression: %d pack streams, no SIZE record, CRC record with a bit vector" % n, seal(pk + b"\x0a\x00\xff" + b"\x00\x00\x00"),
                    None, ["getnames"], None))
        out.append(("regression: %d pack streams, SIZE record cut short, CRC record all defined" % n,
                    seal(pk + b"\x09\x01\x01" + b"\x0a\x01" + b"\x00\x00\x00"), None, ["getnames"], None))
        out.append(("regression: %d folders declared, nothing follows" % n, seal(b"\x01\x04\x07\x0b" + num(n) + b"\x00"), None, ["getnames"], None))
        out.append(("regression: one folder, folder CRC record for %d folders" % n,
                    seal(b"\x01\x04\x07\x0b\x01\x00" + folder + b"\x0c\x05\x0a\x01" + b"\x00\x00"), None, ["getnames"], None))
        out.append(("%d files, EMPTY_STREAM vector of one byte" % n, seal(b"\x01\x05" + num(n) + b"\x0e\x01\xff\x00\x00"), None,
                    ["getnames"], ("alloc", "numfiles")))
    # 7zAES key derivation: 2^numcyclespower SHA-256 rounds; the reader refuses more than 2^24 (about 3 s).  Declared powers above
    # that must be refused at once, whatever the other bits of the property bytes say
    try:
        ea = arch.make_archive([("a.txt", b"hello world" * 10)], chain="copy+aes", password="secret", encoded=False)
        ep, eh = split(ea)
        ET = tokens_of(hdr.impl_parse(eh)[1])
        for power in (25, 26, 30, 36, 37, 48, 62):
            T2 = [list(x) for x in ET]
            for x in T2:
                if x[0] == "unpack.folder.coder.props" and len(x[2]) >= 2:
                    x[2] = bytes([(x[2][0] & 0xC0) | power]) + x[2][1:]
            out.append(("regression: 7zAES coder declaring 2^%d key-derivation rounds" % power, seal(assemble(T2), ep), "secret",
                        ["getnames", "extractall"], None))
    except Exception:  # noqa
        pass
    # perfectly valid archives whose member names collide with the names extraction invents for duplicates (<name>_<k>)
    for names in (["a", "a", "a"], ["a_0", "a", "a"], ["a", "a_0", "a"], ["a", "a", "a_0"], ["a", "a", "a_0", "a_1", "a"],
                  ["a_1", "a_0", "a", "a", "a"], ["d/a", "d/a_0", "d/a", "d/a"]):
        dup = arch.make_archive([(nm, ("member %d" % i).encode()) for i, nm in enumerate(names)], chain="copy", encoded=False)
        out.append(("control: valid archive with member names %r" % (names,), dup, None, ["getnames", "extractall", "reset", "testzip"], None))
    return out


# ------------------------------------------------------------------ correspondence of the cost model (Cost.v)
class CountIO(io.BytesIO):
    """BytesIO counting read() calls"""

    def __init__(self, b=b""):
        super().__init__(b)
        self.reads = 0

    def read(self, n=-1):
        self.reads += 1
        return super().read(n)


class ToyStage:
    """Decomp.toy_dstep"""

    def __init__(self, tag, k=0, pend=b""):
        self.tag, self.k, self.pend = tag, k, bytes(pend)

    def decompress(self, data, max_length=-1):
        data = bytes(data)
        if self.tag == 1:
            availb = self.pend + data
            nrel = len(availb) if len(data) == 0 else max(len(availb) - max(self.k, 0), 0)
            nout = nrel if max_length < 0 else min(nrel, max_length)
            self.pend = availb[nout:]
            return availb[:nout]
        if self.tag == 2:
            return bytes(b for x in data for b in (x, x))
        return data


class _Fuel(Exception):
    pass


def toy_decompressor(states, us, isz, bsz, fuel):
    from py7zr.compressor import SevenZipDecompressor
    # the real constructor (Copy coder) initialises every attribute; then the chain is replaced by toy stages
    copy = {"method": b"\x00", "numinstreams": 1, "numoutstreams": 1, "properties": None}
    d = SevenZipDecompressor([copy], isz, [us[-1]], None, None, bsz)
    d.chain = [ToyStage(*s) for s in states]
    d._unpacksizes = list(us)
    d._unpacked = [0 for _ in us]
    d.consumed, d.input_size, d.block_size = 0, isz, bsz
    d._unused, d._buf, d._pos = bytearray(), bytearray(), 0
    d.digest, d.crc = 0, None
    d.calls, d.outs = 0, []
    inner = SevenZipDecompressor.decompress
    if getattr(inner, "_c05", False):   # never the instrumented one
        raise RuntimeError("spin detector installed in the parent process")

    def decompress(fp, max_length=-1):
        d.calls += 1
        if d.calls > fuel:
            raise _Fuel()
        r = inner(d, fp, max_length)
        d.outs.append(bytes(r))
        return r

    d.decompress = decompress
    return d


def impl_toy_worker(fuel, states, us, isz, bsz, packed, size, mb):
    import py7zr.py7zr as pz

    class F:
        pass

    dec = toy_decompressor(states, us, isz, bsz, fuel)
    folder = F()
    folder.get_decompressor = lambda cs, reset=False: dec
    w = object.__new__(pz.Worker)
    fq = io.BytesIO()
    saved = pz.get_memory_limit
    pz.get_memory_limit = lambda: mb
    try:
        pz.Worker.decompress(w, io.BytesIO(bytes(packed)), folder, fq, size, None, 0)
        return ("ok", fq.getvalue())
    except _Fuel:
        return ("err", "Fuel")
    except EOFError:
        return ("err", "Eof")
    except py7zr.exceptions.Bad7zFile:
        return ("err", "Bad7z")
    except Exception as e:  # noqa
        return ("err", "Other:" + type(e).__name__)
    finally:
        pz.get_memory_limit = saved


def impl_toy_header_loop(fuel, states, us, isz, bsz, packed, usize):
    dec = toy_decompressor(states, us, isz, bsz, fuel)
    # an encoded header: one pack stream, one folder with one coder, declared size usize (never a CRC)
    eh = b"\x06" + num(0) + b"\x01\x09" + num(isz & (2 ** 64 - 1)) + b"\x00" + b"\x07\x0b\x01\x00" + b"\x01\x01\x00" + b"\x0c" + num(usize) \
        + b"\x00" + b"\x00"
    saved = ai.Folder.get_decompressor
    ai.Folder.get_decompressor = lambda self, cs, reset=False: dec
    try:
        h = ai.Header()
        h._read(io.BytesIO(bytes(packed)), io.BytesIO(b"\x17" + eh), 0, None)
        return ("ok", b"".join(dec.outs))
    except _Fuel:
        return ("err", "Fuel")
    except EOFError:
        return ("err", "Eof")
    except Exception as e:  # noqa  (what is read back is not a header: the loop has ended)
        if isinstance(e, py7zr.exceptions.Bad7zFile) and "unexpected end" in str(e):
            return ("err", "Bad7z")
        got = b"".join(dec.outs)
        if len(got) >= usize:
            return ("ok", got)
        return ("err", "Other:" + type(e).__name__)
    finally:
        ai.Folder.get_decompressor = saved


def model_res_bytes(r):
    if r[0] == 0:
        return ("ok", bytes(r[1]))
    return ("err", {1: "Bad7z", 5: "Eof", 6: "Other", 7: "Fuel"}.get(r[1], str(r[1])))


def same_loop_result(m, i):
    if m[0] != i[0]:
        return False
    if m[0] == "ok":
        return m[1] == i[1]
    return i[1].split(":")[0] == m[1]


def cost_model_available(model):
    if model is None:
        return False
    try:
        import vlib
        if "packpositions" not in vlib.fn_table():
            return False
        return model.call("packpositions_steps", 0) == 1 and model.call("read_digest_iters", [5, 2, 0]) == 1
    except Exception:  # noqa
        return False


def cost_cases(rng, tier):
    """inputs of the five parts of the cost-model correspondence (plain JSON)"""
    mult = 1 if tier == "quick" else 6
    parts = {"packpositions": [], "utf16": [], "names": [], "bonds": [], "digest": [], "loops": []}
    for _ in range(60 * mult):
        nosz = rng.random() < 0.3
        n = rng.choice([0, 1, 2, 3, 7, 20, 60])
        sizes = [] if nosz else [rng.choice([0, 1, 127, 128, 2 ** 32, rng.getrandbits(40)]) for _ in range(n)]
        parts["packpositions"].append({"sizes": sizes, "n": n, "nosz": nosz, "pos": rng.choice([0, 5])})
    for _ in range(40 * mult):
        k = rng.choice([0, 1, 2, 3, 8, 31])
        body = b"".join(bytes([rng.randrange(0x20, 0x7F), 0]) for _ in range(k))
        tail = rng.choice([b"\0\0", b"\0\0", b"", b"\0", b"A", b"\0\0zz"])
        parts["utf16"].append({"buf": (body + tail).hex()})
    for _ in range(12 * mult):
        nf = rng.choice([1, 2, 3, 5])
        have = rng.randrange(0, nf + 1)
        buf = b"".join(b"".join(bytes([rng.randrange(0x41, 0x5B), 0]) for _ in range(rng.choice([1, 3, 9]))) + b"\0\0"
                       for _ in range(have))
        parts["names"].append({"n": nf, "buf": buf.hex()})
    for _ in range(40 * mult):
        nb = rng.choice([0, 1, 2, 5, 17, 40])
        bonds = [[rng.choice([rng.randrange(0, nb + 2), nb + 5, 2 ** 40]), rng.randrange(0, nb + 1)] for _ in range(nb)]
        parts["bonds"].append({"bonds": bonds})
    for _ in range(30 * mult):
        size = rng.choice([0, 1, 5, 64, 65, 1000, 4096, 10 ** 5])
        bs = rng.choice([1, 7, 64, 4096])
        if size // bs <= 20000:
            parts["digest"].append({"size": size, "bs": bs, "have": rng.choice([0, 10, 5000])})
    for _ in range(120 * mult):
        nst = rng.choice([1, 1, 2, 3])
        states = [[rng.choice([0, 1, 2]), rng.choice([0, 1, 3]), []] for _ in range(nst)]
        plen = rng.choice([0, 1, 5, 16, 40])
        packed = [rng.randrange(256) for _ in range(plen)]
        isz = rng.choice([plen, plen, max(0, plen - 3), plen + 4])
        bsz = rng.choice([1, 4, 16, 100])
        grow = 1
        for st in states:
            grow *= 2 if st[0] == 2 else 1
        true_out = min(plen, isz) * grow
        us = [rng.choice([true_out, true_out, true_out + 7, max(0, true_out - 2), 10 ** 6]) for _ in range(nst)]
        size = rng.choice([true_out, max(0, true_out - 3), true_out + 5, 1, 0])
        mb = rng.choice([1, 3, 8, 10 ** 6])
        parts["loops"].append({"fuel": 400, "states": states, "us": us, "isz": isz, "bsz": bsz, "packed": packed, "size": size, "mb": mb})
    return parts


def child_cost_impl(arg):
    """the implementation side of one part of the cost-model correspondence (runs in a sandboxed child: a loop that no
    longer ends must not take the check down)"""
    part, cases, out = arg["part"], arg["cases"], []
    if part == "packpositions":
        for c in cases:
            raw = num(c["pos"]) + num(c["n"]) + (b"" if c["nosz"] else b"\x09" + b"".join(num(x) for x in c["sizes"])) + b"\x00"
            p = ai.PackInfo.retrieve(io.BytesIO(raw))
            out.append([list(p.packpositions), len(p.packpositions)])
    elif part == "utf16":
        for c in cases:
            f = CountIO(bytes.fromhex(c["buf"]))
            try:
                ai.read_utf16(f)
            except Exception:  # noqa  (decode errors come after the loop)
                pass
            out.append(f.reads)
    elif part == "names":
        for c in cases:
            fi = ai.FilesInfo()
            fi.files = [{} for _ in range(c["n"])]
            f = CountIO(bytes.fromhex(c["buf"]))
            fi._read_name(f)
            out.append(f.reads)
    elif part == "bonds":
        counter = [0]

        class CountingBond:
            def __init__(self, incoder, outcoder):
                self._in, self.outcoder = incoder, outcoder

            @property
            def incoder(self):
                counter[0] += 1
                return self._in

        ai.Bond = CountingBond
        for c in cases:
            nb = len(c["bonds"])
            raw = num(1) + bytes([0x11]) + b"\x00" + num(nb + 1) + num(nb + 1) + b"".join(num(a) + num(b) for a, b in c["bonds"])
            counter[0] = 0
            fo = ai.Folder.retrieve(io.BytesIO(raw))
            out.append([counter[0], list(fo.packed_indices)])
    elif part == "digest":
        for c in cases:
            z = object.__new__(py7zr.SevenZipFile)
            z.fp = CountIO(b"x" * c["have"])
            z._block_size = c["bs"]
            z._read_digest(0, c["size"])
            out.append(z.fp.reads)
    elif part == "loops":
        for c in cases:
            w = impl_toy_worker(c["fuel"], c["states"], c["us"], c["isz"], c["bsz"], c["packed"], c["size"], c["mb"])
            h = impl_toy_header_loop(c["fuel"], c["states"], c["us"], c["isz"], c["bsz"], c["packed"], c["size"])
            out.append([[w[0], w[1].hex() if w[0] == "ok" else w[1]], [h[0], h[1].hex() if h[0] == "ok" else h[1]]])
    return out


def check_cost_model(ctx, rep, rng, tier):
    model = ctx["model"]
    if not cost_model_available(model):
        rep.extra["cost_model_correspondence"] = "skipped: Cost.cost_dispatch (FN 420-439) is not reachable in the extracted model"
        if model is not None:
            rep.violation("the extracted model does not answer the Cost.v entry points (FN 420-439)", {"kind": "model"},
                          concrete=False, match_keys={"kind": "model-missing"})
        return
    parts = cost_cases(rng, tier)
    names = list(parts)
    with ThreadPoolExecutor(max_workers=6) as ex:
        outs = list(ex.map(lambda p: run_sandboxed("harness.c05:child_cost_impl", {"part": p, "cases": parts[p]},
                                                   timeout=60 if tier == "quick" else 300, mem_mb=1500), names))
    n_cases = 0

    def disagree(what, replay):
        rep.violation("cost model and implementation disagree: " + what, replay, concrete=False,
                      match_keys={"kind": "model-disagreement", "via": replay.get("part")})

    for p, o in zip(names, outs):
        if o["status"] != "ok":
            # the loops under test are exactly the ones that may stop ending: a concrete failing input is in the list
            rep.violation("the %s part of the cost-model correspondence did not return (%s): one of its %d small inputs makes the "
                          "implementation run on or fail (%s)" % (p, o["status"], len(parts[p]), json.dumps(o)[:300]),
                          {"kind": "costpart", "part": p, "cases": parts[p]}, match_keys={"kind": "hang", "via": "cost-model-part:" + p})
            continue
        for c, got in zip(parts[p], o["value"]):
            n_cases += 1
            if p == "packpositions":
                want = [model.call("packpositions", c["sizes"]), model.call("packpositions_steps", len(c["sizes"]))]
                rep.count(("packpos", c["n"], tuple(c["sizes"])), nontrivial=c["n"] > 0)
            elif p == "utf16":
                want = model.call("utf16_iters", list(bytes.fromhex(c["buf"])))
                rep.count(("utf16", c["buf"]), nontrivial=True)
            elif p == "names":
                want = model.call("names_steps", [c["n"], list(bytes.fromhex(c["buf"]))])
                rep.count(("names", c["n"], c["buf"]), nontrivial=True)
            elif p == "bonds":
                steps, idx = model.call("packed_indices", [c["bonds"], len(c["bonds"]) + 1])
                want = [steps - (len(c["bonds"]) + 1), idx]      # reads of bond.incoder; the set lookups are not observable
                rep.count(("bonds", repr(c["bonds"])), nontrivial=len(c["bonds"]) > 0)
            elif p == "digest":
                want = model.call("read_digest_iters", [c["size"], c["bs"], c["have"]])
                rep.count(("digest", c["size"], c["bs"]), nontrivial=c["size"] > 0)
            else:
                args = [c["fuel"], c["states"], c["us"], c["isz"], c["bsz"], c["packed"], c["size"], c["mb"]]
                mw = model_res_bytes(model.call("toy_worker_guarded", args + [[]]))
                mh = model_res_bytes(model.call("toy_header_guarded", args[:7] + [[]]))
                iw = (got[0][0], bytes.fromhex(got[0][1]) if got[0][0] == "ok" else got[0][1])
                ih = (got[1][0], bytes.fromhex(got[1][1]) if got[1][0] == "ok" else got[1][1])
                rep.count(("toyloops", repr(args)), nontrivial=len(c["packed"]) > 0)
                rep.dist("loop_model_outcome", "worker:" + (mw[0] if mw[0] == "ok" else mw[1]))
                rep.dist("loop_model_outcome", "header:" + (mh[0] if mh[0] == "ok" else mh[1]))
                n_cases += 1
                if not same_loop_result(mw, iw):
                    disagree("Worker.decompress with toy stages %r: impl %r, model %r" % (args, iw, mw), {"part": "toy_worker", "args": args})
                    break
                if not same_loop_result(mh, ih):
                    disagree("Header._read loop with toy stages %r: impl %r, model %r" % (args[:7], ih, mh),
                             {"part": "toy_header_loop", "args": args[:7]})
                    break
                continue
            if got != want:
                disagree("%s on %s: implementation %r, model %r" % (p, json.dumps(c)[:300], got, want), {"part": p, "case": c})
                break
    rep.extra["cost_model_correspondence"] = {"cases": n_cases}


# ------------------------------------------------------------------ running cases in sandboxed children
def fault_sites(text):
    """faulthandler dump -> innermost-first 'file:func|source line' for frames of the package under test"""
    import linecache
    import re
    out = []
    for fn, ln, func in re.findall(r'File "([^"]+)", line (\d+) in (\S+)', text):
        if os.sep + "py7zr" + os.sep in fn:
            out.append("%s:%s|%s" % (os.path.basename(fn), func, linecache.getline(fn, int(ln)).strip()[:90]))
    return out[:12]


def run_cases(cases, tmpdir, budget, workers=14, batch=24, detect_spin=True, rss_mb=300, mem_mb=1500):
    """cases: list of {id, a(hex), pw, ops, mode}.  Returns {id: result | {'child': status}}"""
    results = {}
    queue = [cases[i:i + batch] for i in range(0, len(cases), batch)]

    import itertools
    import threading
    counter = itertools.count()
    lock = threading.Lock()

    def one(chunk):
        out = {}
        rest = list(chunk)
        while rest:
            tmo = 20 + sum((c.get("budget", budget)) * (len(c["ops"]) + 1) for c in rest) * 0.6
            with lock:
                fault = os.path.join(tmpdir, "fault-%d.txt" % next(counter))
            r = run_sandboxed("harness.c05:child_batch",
                              {"cases": rest, "budget": budget, "tmpdir": tmpdir, "rss_mb": rss_mb, "detect_spin": detect_spin,
                               "fault": fault},
                              timeout=tmo, mem_mb=mem_mb)
            if r["status"] != "ok":
                try:
                    r["fault"] = fault_sites(open(fault).read())
                except OSError:
                    r["fault"] = []
            if r["status"] == "ok":
                for x in r["value"]:
                    out[x["id"]] = x
                rest = [c for c in rest if c["id"] not in out]
                continue
            # the child itself died, hung or ran out of address space: isolate
            if len(rest) == 1:
                out[rest[0]["id"]] = {"id": rest[0]["id"], "child": r["status"], "detail": r, "ops": []}
                rest = []
            else:
                half = len(rest) // 2
                a, b = rest[:half], rest[half:]
                ra = one(a)
                out.update(ra)
                rest = b
        return out

    with ThreadPoolExecutor(max_workers=workers) as ex:
        for res in ex.map(one, queue):
            results.update(res)
    return results


def child_measure(arg):
    """open one archive (and run ops) without any instrumentation; report wall time and peak RSS"""
    import resource
    data = bytes.fromhex(arg["a"])
    import gc
    gc.collect()
    base_kb = _rss_kb()
    t0, c0 = time.time(), time.process_time()
    z = None
    try:
        z = py7zr.SevenZipFile(io.BytesIO(data), "r")
        for op in arg.get("ops", []):
            _do_op(z, op)
        st = "ok"
    except MemoryError:
        st = "MemoryError"
    except Exception as e:  # noqa
        st = type(e).__name__
    # resident memory held by what the call built (the archive object is still alive here)
    return {"status": st, "time": round(time.process_time() - c0, 3), "wall": round(time.time() - t0, 3),
            "rss_mb": round((_rss_kb() - base_kb) / 1024.0, 1), "peak_mb": resource.getrusage(resource.RUSAGE_SELF).ru_maxrss // 1024,
            "bytes": len(data)}


def measure_blowups(rep, tier):
    """time / RSS against the declared count at (nearly) constant or linear input size"""
    big = tier != "quick"
    plans = {
        "numfiles": ([200000, 400000, 800000] if not big else [10 ** 6, 3 * 10 ** 6, 10 ** 7],
                     lambda n: seal(b"\x01\x05" + num(n) + b"\x00\x00")),
        "numstreams-without-sizes": ([2 * 10 ** 6, 4 * 10 ** 6, 8 * 10 ** 6] if not big else [10 ** 7, 3 * 10 ** 7, 10 ** 8],
                                     lambda n: seal(b"\x01\x04\x06\x00" + num(n) + b"\x00\x00\x00")),
        "substreams-count": ([10 ** 7, 2 * 10 ** 7, 4 * 10 ** 7],
                             lambda n: seal(b"\x01\x04\x06\x00\x01\x09\x00\x00\x07\x0b\x01\x00\x01\x01\x00\x0c\x00\x00\x08\x0d"
                                            + num(n) + b"\x00\x00\x00")),
        "packpositions": ([50000, 100000, 200000] if not big else [100000, 200000, 400000],
                          lambda n: seal(b"\x01\x04\x06\x00" + num(n) + b"\x09" + b"\x01" * n + b"\x00\x00\x00")),
        "bindpairs": ([20000, 40000, 80000] if not big else [40000, 80000, 160000],
                      lambda n: seal(b"\x01\x04\x07\x0b\x01\x00" + num(1) + bytes([0x11]) + b"\x00" + num(n + 1) + num(n + 1)
                                     + b"".join(num(1) + num(0) for _ in range(n)) + b"\x0c\x00")),
        "names-at-eof": ([5000, 10000, 20000] if not big else [20000, 40000, 80000],
                         lambda n: seal(b"\x01\x05" + num(n) + b"\x11\x01\x00\x00\x00")),
    }
    jobs = [(k, n, mk(n)) for k, (ns, mk) in plans.items() for n in ns]
    with ThreadPoolExecutor(max_workers=6) as ex:
        outs = list(ex.map(lambda j: run_sandboxed("harness.c05:child_measure", {"a": j[2].hex()}, timeout=240, mem_mb=12000), jobs))
    table = {}
    for (k, n, a), o in zip(jobs, outs):
        v = o.get("value") if o["status"] == "ok" else {"status": o["status"], "time": None, "wall": None, "rss_mb": None}
        table.setdefault(k, []).append({"declared": n, "archive_bytes": len(a), "cpu_s": v["time"], "wall_s": v["wall"],
                                        "rss_mb": v["rss_mb"], "status": v["status"]})
    rep.extra["measurements"] = table
    verdicts = {}
    for k, rows in table.items():
        if any(r["cpu_s"] is None for r in rows):
            verdicts[k] = "child did not finish: %s" % [r["status"] for r in rows]
            continue
        t1, t2, t3 = [max(r["cpu_s"], 1e-3) for r in rows]
        m1, m3 = rows[0]["rss_mb"], rows[2]["rss_mb"]
        n1, n3 = rows[0]["declared"], rows[2]["declared"]
        expo = math.log(t3 / t2, 2) if t2 > 0.05 else None
        per = (m3 - m1) * 1024 * 1024 / (n3 - n1)
        verdicts[k] = {"exponent_of_time_in_count": None if expo is None else round(expo, 2), "rss_bytes_per_declared_item": round(per, 1),
                       "cpu_last_s": t3, "input_bytes_last": rows[2]["archive_bytes"]}
    rep.extra["measurement_verdicts"] = verdicts
    return table, verdicts


# ------------------------------------------------------------------ model predictions for raw headers
def model_status(model, raw, lim):
    r = model.call("parse_header", [lim, list(raw)])
    if r[0] == 0:
        return "ok"
    return "fuel" if r[1] == 7 else "err"


def declared_count(model, raw, cap=2 ** 22):
    """smallest power of two (>= 64) at which the parser model stops giving the resource answer; None above cap"""
    lim = 64
    while lim <= cap:
        if model_status(model, raw, lim) != "fuel":
            return lim
        lim *= 4
    return None


# ------------------------------------------------------------------ the check
def run(ctx):
    rep, tier = ctx["rep"], ctx["tier"]
    rng = random.Random(ctx["seed"])
    from harness import decgen
    decgen.check_decompress(ctx, rep, random.Random(ctx["seed"] + 7), 500 if tier == "quick" else 5000)
    model = ctx["model"]
    quick = tier == "quick"
    rep.cov["rule"] = ("a case = (archive bytes, password, mode, call sequence); archives: valid ones of every chain + fixtures, byte "
                       "mutants (truncation, bit flips weighted to the packed area, splices), structure mutants of the header token "
                       "stream (numbers -> 0,1,2^k-1,2^k,2^32,2^63,2^64-1; ids, bit vectors, byte strings; sections dropped / duplicated "
                       "/ moved / swapped; cut) re-sealed, wrong / missing passwords; non-trivial = the constructor got past the "
                       "signature header (the mutant reached the parser or the extraction); distinct by (archive, sequence)")
    t_start = time.time()
    events = {}

    def part(f, *a):
        try:
            return f(*a)
        except Exception as e:  # noqa
            import traceback
            rep.violation("%s raised %s: %s" % (f.__name__, type(e).__name__, e),
                          {"kind": "exception", "part": f.__name__, "trace": traceback.format_exc()[-1500:]}, concrete=False,
                          match_keys={"kind": "harness-exception"})

    part(check_cost_model, ctx, rep, rng, tier)
    tmpdir = tempfile.mkdtemp(prefix="c05-")
    try:
        part(explore, ctx, rep, rng, tier, tmpdir, events)
        part(measure, ctx, rep, tier)
    finally:
        shutil.rmtree(tmpdir, ignore_errors=True)
    rep.extra["events"] = {"%s/%s" % k: v for k, v in sorted(events.items())}
    rep.extra["wall_parts_s"] = round(time.time() - t_start, 1)


def measure(ctx, rep, tier):
    table, verdicts = measure_blowups(rep, tier)
    crit = {
        "numfiles": ("alloc", lambda v: v["rss_bytes_per_declared_item"] > 50),
        "numstreams-without-sizes": ("alloc", lambda v: v["rss_bytes_per_declared_item"] > 4),
        "substreams-count": ("alloc", lambda v: v["rss_bytes_per_declared_item"] > 4),
        # (a quadratic pass at these sizes takes minutes; the exponent of a few hundredths of a second is noise)
        "packpositions": ("quadratic", lambda v: v["exponent_of_time_in_count"] is not None and v["exponent_of_time_in_count"] > 1.5
                          and v["cpu_last_s"] > 1.0),
        "bindpairs": ("quadratic", lambda v: v["exponent_of_time_in_count"] is not None and v["exponent_of_time_in_count"] > 1.5
                      and v["cpu_last_s"] > 1.0),
        "names-at-eof": ("amplify", lambda v: v["cpu_last_s"] > 1e-4 * v["input_bytes_last"] + 1.0),
    }
    for k, v in verdicts.items():
        kind, test = crit[k]
        if isinstance(v, str):
            bad, how = True, v
        else:
            bad, how = test(v), json.dumps(v)
        if bad:
            via = "regressed:" + k if (kind, k) in REPAIRED else k
            rep.violation("measured: %s; %s; rows %s" % (WHAT.get((kind, k), k), how, json.dumps(table[k])),
                          {"kind": "measure", "what": k, "rows": table[k]}, match_keys={"kind": kind, "via": via})


def explore(ctx, rep, rng, tier, tmpdir, events):
    model = ctx["model"]
    quick = tier == "quick"
    budget = 2.0 if quick else 3.0
    corpus = build_corpus(rng, tier)
    rep.extra["corpus"] = [b["name"] for b in corpus]
    cases, meta = [], {}

    def add(name, a, pw, ops, mode="bio", origin="", pred=None, expect=None, raw=None, bud=None):
        cid = "c%d" % len(cases)
        c = {"id": cid, "a": a.hex(), "pw": pw, "ops": ops, "mode": mode}
        if bud:
            c["budget"] = bud
        cases.append(c)
        meta[cid] = {"name": name, "origin": origin, "pred": pred, "expect": expect, "len": len(a), "raw": raw}
        rep.dist("case_origin", origin)
        rep.dist("archive_size", "<=64" if len(a) <= 64 else "<=512" if len(a) <= 512 else "<=4096" if len(a) <= 4096 else ">4096")
        rep.dist("sequence", ",".join(ops)[:60])

    # A. valid archives under every sequence template (in memory and from a file)
    for b in corpus:
        seqs = SEQS if not quick else rng.sample(SEQS, 5) + [["extractall", "extractall"]]
        for s in seqs:
            add(b["name"], b["a"], b["pw"], list(s), mode=rng.choice(["bio", "bio", "file"]), origin="valid")
    # D. wrong / missing password
    for b in corpus:
        if b["pw"]:
            for pw in (None, "wrong", "", "secret\0"):
                add(b["name"] + " pw=%r" % pw, b["a"], pw, random_seq(rng), origin="password")
    # B. byte-level mutants
    nb = 400 if quick else 6000
    for _ in range(nb):
        b = rng.choice(corpus)
        a, how = byte_mutant(b, corpus, rng)
        add(b["name"] + ": " + how, a, b["pw"], random_seq(rng), mode=rng.choice(["bio", "bio", "bio", "file"]), origin="bytes")
    # C. structure-aware mutants, re-sealed; the parser model predicts
    nc = 1200 if quick else 20000
    pred_tab = {}
    withtok = [b for b in corpus if b["tokens"]]
    for _ in range(nc):
        b = rng.choice(withtok)
        T = b["tokens"]
        hows = []
        for _k in range(rng.choice([1, 1, 1, 2, 3])):
            T, how = mutate_tokens(T, rng)
            hows.append(how)
        raw = assemble(T)
        packed = b["packed"]
        r = rng.random()
        if r < 0.08:
            packed = packed[:rng.randrange(0, len(packed) + 1)]
            hows.append("packed area cut to %d" % len(packed))
        a = seal(raw, packed)
        pred = None
        if model is not None and len(raw) < 20000:
            pred = model_status(model, raw, 8 * len(raw) + 64)
        add(b["name"] + ": " + "; ".join(hows), a, b["pw"], random_seq(rng), origin="structure", pred=pred, raw=raw.hex())
    # signature-header fields (offset, size, header CRC), start CRC re-sealed
    for _ in range(40 if quick else 600):
        b = rng.choice(corpus)
        packed, h = split(b["a"])
        kw = {}
        for f in rng.sample(["ofs", "size", "hcrc", "version"], rng.choice([1, 1, 2])):
            kw[f] = (rng.choice(BOUNDARY + [len(packed) + 1, len(packed) - 1, len(h) + 1, len(h) - 1]) if f != "version"
                     else bytes([rng.randrange(256), rng.randrange(256)]))
            if f == "hcrc":
                kw[f] &= 0xFFFFFFFF
            if f in ("ofs", "size"):
                kw[f] = max(0, kw[f]) & (2 ** 64 - 1)
        add(b["name"] + ": signature header %r" % kw, seal(h, packed, **kw), b["pw"], random_seq(rng),
            mode=rng.choice(["bio", "file"]), origin="signature")
    # E. directed: one trigger per kind known on the pinned tree, and controls
    for name, a, pw, ops, expect in directed_cases(rng):
        add("directed: " + name, a, pw, ops, origin="directed", expect=expect, bud=budget + 1.0)
    # a start header whose NextHeaderSize / NextHeaderOffset reach far beyond the file, read from a real file (a BytesIO clamps a
    # read by itself, a buffered file object allocates what it is asked for): the reader must not ask for the declared size at once
    va = arch.make_archive([("a.txt", b"hello world" * 10)], chain="copy", encoded=False)
    vp, vh = split(va)
    for n in (2 ** 32, 2 ** 40, 2 ** 62, 2 ** 63 - 1):
        add("directed: regression: NextHeaderSize %d in a %d-byte file" % (n, len(va)), seal(vh, vp, size=n), None, ["getnames"],
            mode="file", origin="directed", expect=None, bud=budget + 1.0)
        add("directed: regression: NextHeaderOffset %d in a %d-byte file" % (n, len(va)), seal(vh, vp, ofs=n), None, ["getnames"],
            mode="file", origin="directed", expect=None, bud=budget + 1.0)

    results = run_cases(cases, tmpdir, budget, workers=14, batch=24)

    # ---- spikes seen only in the peak RSS: run those cases again, alone, under a low address-space limit, so that the
    #      allocation fails where it is made (MemoryError with a traceback)
    #      (the sampling watcher is racy about WHERE the main thread is when it notices: the same re-run locates the
    #      allocation of every RSS event whose frames match no known site)
    def unlocated(c):
        done = []
        for o in results.get(c["id"], {}).get("ops", []):
            if o[1] == "rss":
                if isinstance(o[2], dict) and o[2].get("posthoc"):
                    return True
                return classify(o[0], o[1], o[2], done)[0] == "unknown"
            done.append(o[0])
        return False

    posthoc = [c for c in cases if unlocated(c)]
    if posthoc:
        located = run_cases(posthoc[:40], tmpdir, budget, workers=8, batch=1, mem_mb=700, rss_mb=10 ** 6)
        for c in posthoc[:40]:
            r2 = located.get(c["id"], {})
            if any(o[1] == "memory" and o[2] for o in r2.get("ops", [])):
                for o in r2["ops"]:
                    if o[1] == "memory":
                        o[1] = "rss"        # located: the allocation that made the peak
                r2["tainted"] = True
                results[c["id"]] = r2
        rep.extra["rss_events_located_by_rerun"] = len(posthoc)

    # ---- evaluate
    unknown_retry = []
    first = {}
    stats = {"ops": 0, "ok": 0, "exc": 0, "events": 0, "benign_memory": 0}
    for c in cases:
        m = meta[c["id"]]
        r = results.get(c["id"])
        if r is None:
            continue
        if r.get("child"):
            # the whole child died / hung although every call is watched: the interpreter did not survive
            rep.count((c["a"], tuple(c["ops"])), nontrivial=True)
            sites = r.get("detail", {}).get("fault", [])
            key = classify("?", "child", sites, []) if r["child"] == "crash" else ("crash", "child-" + r["child"])
            events[key] = events.get(key, 0) + 1
            what = "%s [%s/%s]: the interpreter running %s on %s (%d bytes, %s) ended with status %s (%s); Python frames at the " \
                   "fatal signal: %s" % (WHAT.get(key, "the interpreter did not survive"), key[0], key[1], c["ops"], m["name"], m["len"],
                                         c["mode"], r["child"], json.dumps(r.get("detail", {}).get("stderr", ""))[:120], sites[:3])
            if key in WHAT:
                if key not in first:
                    first[key] = (c, m, what, "child")
            else:
                unknown_retry.append((c, m, key, what))
            continue
        opened = bool(r["ops"]) and r["ops"][0][0] == "open" and (r["ops"][0][1] != "exc" or r["ops"][0][2] != "Bad7zFile")
        rep.count((c["a"], tuple(c["ops"])), nontrivial=opened)
        done = []
        for op, status, detail, secs in r["ops"]:
            stats["ops"] += 1
            rep.dist("call_outcome", status if status != "exc" else "exc:" + str(detail))
            if status in ("ok", "exc"):
                stats[status] += 1
                done.append(op)
                continue
            if status == "memory" and not r["tainted"]:
                # one request far beyond the address space limit, refused at once: an ordinary exception unless the
                # parser model says a declared count of a size that a larger machine would grant
                raw = m.get("raw")
                dangerous = False
                if raw and model is not None and m.get("pred") == "fuel":
                    dangerous = True
                if not dangerous:
                    stats["benign_memory"] += 1
                    done.append(op)
                    continue
            kind, via = classify(op, status, detail, done)
            if kind == "unknown" and via == "no-frame" and op == "open" and m.get("pred") == "fuel":
                # no Python frame of the package was on the stack when the budget ran out (one huge allocation in progress), and
                # the parser model gives the resource answer for this header: name the declared count the mutation enlarged
                import re as _re
                big = [lab for lab, v in _re.findall(r"([a-z.]+): -?\d+ -> (\d+)", m["name"]) if int(v) >= 2 ** 24]
                if any(lab == "files.numfiles" for lab in big):
                    kind, via = "alloc", "numfiles"
                elif any(lab.startswith("sub.") for lab in big):
                    kind, via = "alloc", "substreams-count"
            what_key = (kind, via)
            if (kind, via) in REPAIRED:
                via = "regressed:" + via          # repaired in the tree: never matches an entry of the time before the repair
            if m["origin"] == "valid":
                via = "valid-archive:" + via      # an unmodified archive under read-mode calls: never a known shape
            stats["events"] += 1
            events[(kind, via)] = events.get((kind, via), 0) + 1
            if m["origin"] == "structure":
                pred_tab["%s -> %s/%s" % (m["pred"], kind, via)] = pred_tab.get("%s -> %s/%s" % (m["pred"], kind, via), 0) + 1
            what = "%s [%s]; call %s of %s on %s (%d bytes, %s) -> %s after %.2f s; frames: %s" % (
                WHAT.get(what_key, "unexplained resource event"), "%s/%s" % (kind, via), op, c["ops"], m["name"], m["len"], c["mode"],
                status, secs, (detail.get("sites") if isinstance(detail, dict) else detail)[:4] if detail else detail)
            if kind == "unknown" or kind == "crash" or via.startswith("valid-archive:") or via.startswith("regressed:"):
                unknown_retry.append((c, m, (kind, via), what))
            elif (kind, via) not in first:
                first[(kind, via)] = (c, m, what, status)
            break
        if m["origin"] == "structure" and m["pred"] is not None:
            st0 = r["ops"][0][1] if r["ops"] else "none"
            pred_tab["%s -> open:%s" % (m["pred"], st0 if st0 in ("ok", "exc") else "event")] = \
                pred_tab.get("%s -> open:%s" % (m["pred"], st0 if st0 in ("ok", "exc") else "event"), 0) + 1
            if m["pred"] == "err" and st0 == "ok":
                rep.extra.setdefault("parser_model_says_error_but_open_succeeds", []).append({"case": m["name"], "raw": m["raw"]})
        exp = m.get("expect")
        if m["origin"] == "directed":
            got = None
            for op, status, detail, secs in r["ops"]:
                if status not in ("ok", "exc"):
                    got = classify(op, status, detail, [o[0] for o in r["ops"][:r["ops"].index([op, status, detail, secs])]])
                    break
            rep.sample({"case": m["name"], "bytes": m["len"], "ops": c["ops"], "observed": got, "calls": [o[:2] + o[3:] for o in r["ops"]]},
                       limit=16)
            if exp is None and got is not None:
                unknown_retry.append((c, m, (got[0], "control:" + m["name"][10:60]),
                                      "control / regression case (no resource event expected) %s shows %s/%s: %s" % (
                                          m["name"], got[0], got[1], json.dumps(r["ops"])[:600])))
    rep.extra["calls"] = stats
    rep.extra["parser_model_prediction_vs_observation"] = pred_tab

    # ---- known-shaped events: one replayable report per kind; hangs are confirmed without instrumentation first
    confirm = []
    for (kind, via), (c, m, what, status) in first.items():
        if kind == "hang":
            confirm.append(((kind, via), c, m, what))
        else:
            rep.violation(what, {"kind": "seq", "a": c["a"], "pw": c["pw"], "ops": c["ops"], "mode": c["mode"], "expect": [kind, via]},
                          match_keys={"kind": kind, "via": via})
    if confirm:
        def conf(item):
            (kind, via), c, m, what = item
            return run_sandboxed("harness.c05:child_single", {"a": c["a"], "pw": c["pw"], "ops": c["ops"], "mode": c["mode"],
                                                               "tmpdir": tmpdir}, timeout=5.0 if quick else 15.0, mem_mb=1500)
        with ThreadPoolExecutor(max_workers=8) as ex:
            outs = list(ex.map(conf, confirm))
        for ((kind, via), c, m, what), o in zip(confirm, outs):
            if o["status"] == "timeout":
                rep.violation(what + "; confirmed: the unmodified call sequence is still running after %s s in a fresh interpreter"
                              % (5 if quick else 15),
                              {"kind": "seq", "a": c["a"], "pw": c["pw"], "ops": c["ops"], "mode": c["mode"], "expect": [kind, via]},
                              match_keys={"kind": kind, "via": via})
            else:
                rep.violation("the stuck-state detector fired (%s) but the unmodified run ended: %s" % (what, json.dumps(o)[:300]),
                              {"kind": "seq", "a": c["a"], "pw": c["pw"], "ops": c["ops"], "mode": c["mode"]}, concrete=False,
                              match_keys={"kind": "detector-disagreement", "via": via})
    # ---- unexplained events: re-run alone with a generous budget before believing them (machine load)
    seen = set()
    todo = []
    for c, m, key, what in unknown_retry:
        if key in seen or len(todo) >= 12:
            continue
        seen.add(key)
        todo.append((c, m, key, what))
    if todo:
        again = run_cases([dict(c, budget=budget * 5) for c, _, _, _ in todo], tmpdir, budget * 5, workers=6, batch=1)
        for c, m, key, what in todo:
            r = again.get(c["id"], {})
            still = r.get("child") or any(o[1] not in ("ok", "exc") for o in r.get("ops", []))
            if still:
                # what the event IS is judged on the undisturbed re-run: under load the first run may have hit the wall-clock
                # budget before the RSS watcher or without a Python frame to show (e.g. in the middle of one huge allocation)
                key2 = key
                if not r.get("child") and key[0] == "unknown":
                    done2 = []
                    for op2, st2, det2, _secs in r.get("ops", []):
                        if st2 in ("ok", "exc"):
                            done2.append(op2)
                            continue
                        k2 = classify(op2, st2, det2, done2)
                        if k2[0] != "unknown":
                            key2 = (k2[0], "regressed:" + k2[1]) if k2 in REPAIRED else k2
                            what += "; on the undisturbed re-run the event is %s/%s" % key2
                        break
                rep.violation(what + "; reproduced alone with a budget of %.0f s per call" % (budget * 5),
                              {"kind": "seq", "a": c["a"], "pw": c["pw"], "ops": c["ops"], "mode": c["mode"], "budget": budget * 5},
                              match_keys={"kind": key2[0], "via": key2[1]})
            else:
                rep.extra.setdefault("not_reproduced", []).append({"case": m["name"], "event": list(key)})


# ------------------------------------------------------------------ replay
def replay(d):
    r = d["replay"]
    if r.get("kind") == "seq":
        tmp = tempfile.mkdtemp(prefix="c05r-")
        try:
            case = {"id": "r", "a": r["a"], "pw": r.get("pw"), "ops": r["ops"], "mode": r.get("mode", "bio")}
            res = run_cases([case], tmp, r.get("budget", 3.0), workers=1, batch=1)["r"]
            bad = res.get("child") or [o for o in res.get("ops", []) if o[1] not in ("ok", "exc")]
            print(json.dumps(res)[:1500])
            return 1 if bad else 0
        finally:
            shutil.rmtree(tmp, ignore_errors=True)
    if r.get("kind") == "measure":
        import vlib
        rep = vlib.Report("C05", "quick", 0)
        rep.known = []
        measure({}, rep, "quick")
        hit = [v for v in rep.violations if v["match_keys"].get("via") in (r["what"], "regressed:" + r["what"])]
        print(json.dumps(rep.extra.get("measurement_verdicts", {}).get(r["what"])))
        return 1 if hit else 0
    if r.get("kind") == "costpart":
        o = run_sandboxed("harness.c05:child_cost_impl", {"part": r["part"], "cases": r["cases"]}, timeout=60, mem_mb=1500)
        print(json.dumps(o)[:600])
        return 0 if o["status"] == "ok" else 1
    if r.get("part") in ("toy_worker", "toy_header_loop"):
        import vlib
        m = vlib.Model()
        try:
            a = r["args"]
            if r["part"] == "toy_worker":
                mm = model_res_bytes(m.call("toy_worker_guarded", a + [[]]))
                ii = impl_toy_worker(*a)
            else:
                mm = model_res_bytes(m.call("toy_header_guarded", a + [[]]))
                ii = impl_toy_header_loop(*a)
        finally:
            m.close()
        print("model", mm, "implementation", ii)
        return 0 if same_loop_result(mm, ii) else 1
    print(json.dumps(r)[:1500])
    return 2
