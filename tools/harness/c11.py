"""C11 -- Encryption: nothing leaks, nothing is delivered without the right password.

Model: coq/theories/Enc.v (+ EncProofs.v, Aes.v, Header.v, Crc32.v); theorems: coq/props/C11.v.

What runs here
  correspondence   - KDF: the message the model says is hashed (key1 and key3 staging) vs hashlib.sha256 vs
                     py7zr.helpers._calculate_key1/3, cycles 0..12 (+19, +0x3F);
                   - 7zAES coder properties: model encode/parse vs AESCompressor.encode_filter_properties /
                     AESDecompressor.__init__;
                   - layout (L1): Enc.assemble_meta(metadata, packed stream, packed header) == the bytes the real
                     writer produced, for every chain ending in AES x header raw/encoded/encrypted;
                   - writer (L2): Enc.write_archive with a toy block cipher == the real writer with the same toy
                     cipher patched in for pycryptodome's AES (block sizes small enough to exercise the chunking);
                   - decisions: Enc.sz_decompressor_precheck vs SevenZipDecompressor.__init__.
  exploration      - an independent reader (signature header by hand, header through the extracted model's
                     parser, key by hashlib, AES-CBC by pycryptodome, codecs by their Python modules) decrypts
                     what the real writer wrote; leak search over the archive bytes (plaintext windows, compressed
                     forms, names); IVs against the pinned RNG; two archives of the same input never share IV or
                     ciphertext; absent / wrong passwords on every call of the reading API, under a watchdog;
                   - wrong passwords at scale on archives with numcyclespower = 0 (the reader honours the stored
                     value; assembled by the model from the real writer's metadata);
                   - the encrypted header under a wrong password whose garbage begins 01 00 (a valid empty header):
                     the writer's second RNG draw is searched (independent crypto, 2^16 candidates), the archive is
                     made by the unmodified writer and must be rejected through the CRC of the plain header that
                     the descriptor carries; the same archive with that record cut out (foreign writer) is recorded.
"""
import bz2
import collections
import hashlib
import io
import lzma
import os
import random
import shutil
import signal
import struct
import tempfile
import time
import zlib

import py7zr
import py7zr.compressor as pc
import py7zr.helpers as ph
import py7zr.py7zr as pp
from py7zr.exceptions import PasswordRequired

from harness import arch
from harness.sandbox import run_sandboxed

GEN_DEPS = []
LEVEL = "proof"
TRUSTED_BASE = [
    "Coq 8.16.1 kernel, vm_compute (no native_compute); no axioms (Print Assumptions: closed)",
    "Section hypotheses (contracts, not verified): hash with update(update h a) b = update h (a ++ b) [hashlib "
    "SHA-256]; AES block function under a key as an arbitrary function bytes -> bytes (Db (Eb x) = x only where a "
    "round trip is claimed) [pycryptodomex]; coders in front of AES as arbitrary stateful step/flush functions "
    "[lzma, zlib, bz2, pyzstd]; RNG as an infinite stream read left to right [Cryptodome.Random.get_random_bytes]",
    "cryptographic strength of AES-256-CBC and of the SHA-256 iteration is outside every model here: the theorems are "
    "about information-flow STRUCTURE (the archive is a function of metadata and ciphertext) and decision rules",
    "theories/Header.v write_header/parse_header and theories/Aes.v (residue buffering, CBC) as models of the code, "
    "tied by the correspondence run here (byte-identical archives)",
    "extraction (ExtrOcamlBasic only) + ocaml/driver.ml; CPython 3.12; this harness (independent reader, patches of "
    "get_random_bytes / get_default_blocksize / the AES factory for the toy-cipher run)",
]
ASSUMPTIONS = [
    "one write session = one folder; members written with writestr (non-empty contents); append sessions are covered "
    "by exploration (IV freshness, leak search), not by the writer theorem",
    "what is stored in the clear BY CONSTRUCTION when the header is not encrypted: member names, sizes, times, "
    "attributes and the CRC-32 of every member's PLAINTEXT (plus sizes of every coder stage); with header encryption: "
    "the packed sizes, the header's unpacked size, the header IV, the CRC-32 of the header ciphertext's container "
    "record and the CRC-32 of the PLAIN header (one 32-bit function of all names/sizes/CRCs/times and the folder IV; it "
    "is what lets the reader reject a wrong password and what 7-Zip stores too)",
    "'delivered' = a reading call returns normally; bytes written to the destination before an exception is raised "
    "(CrcError after the member's garbage has been written) are recorded as an observation, see evidence "
    "'garbage_left_on_error'",
]

AES_ID = b"\x06\xf1\x07\x01"
AES_CHAINS = [c for c in arch.CHAINS if arch.needs_pw(c)]
ERRNAME = {1: "Bad7z", 2: "Crc", 3: "Password", 4: "Unsupported", 5: "Eof", 6: "Other", 7: "Fuel"}


# ------------------------------------------------------------------ independent crypto
_KEYS = {}


def kdf_indep(pw, cycles=19, salt=b""):
    """7-Zip's key derivation written from the format description, with hashlib only"""
    k = (pw, cycles, salt)
    if k not in _KEYS:
        pwb = pw.encode("utf-16-le")
        if cycles == 0x3F:
            _KEYS[k] = (salt + pwb + bytes(32))[:32]
        else:
            h = hashlib.sha256()
            sp = salt + pwb
            n = 1 << cycles
            step = 1 << 12
            for base in range(0, n, step):
                h.update(b"".join(sp + struct.pack("<Q", r) for r in range(base, min(n, base + step))))
            _KEYS[k] = h.digest()
    return _KEYS[k]


def _real_aes():
    from Cryptodome.Cipher import AES
    return AES


def cbc_decrypt(key, iv, data):
    AES = _real_aes()
    return AES.new(key, AES.MODE_CBC, iv).decrypt(data)


def cbc_encrypt(key, iv, data):
    AES = _real_aes()
    return AES.new(key, AES.MODE_CBC, iv).encrypt(data)


def pad16(b):
    return b + bytes(-len(b) & 15)


# ------------------------------------------------------------------ patches
class Patched:
    """with Patched(rng=stub, blocksize=n, aes=ToyAES): ...  -- the documented patch points only"""

    def __init__(self, rng=None, blocksize=None, aes=None):
        self.rng, self.blocksize, self.aes = rng, blocksize, aes

    def __enter__(self):
        self.saved = (pc.get_random_bytes, pc.get_default_blocksize, pp.get_default_blocksize, pc.AES)
        if self.rng is not None:
            pc.get_random_bytes = self.rng
        if self.blocksize is not None:
            pc.get_default_blocksize = lambda: self.blocksize
            pp.get_default_blocksize = lambda: self.blocksize
        if self.aes is not None:
            pc.AES = self.aes
        return self

    def __exit__(self, *a):
        pc.get_random_bytes, pc.get_default_blocksize, pp.get_default_blocksize, pc.AES = self.saved


class RecRng:
    """recording RNG stub: the i-th construction gets bytes from `stream` (or a counter pattern)"""

    def __init__(self, stream=None):
        self.draws = []
        self.stream = stream
        self.pos = 0

    def __call__(self, n):
        if self.stream is not None:
            b = bytes(self.stream[self.pos:self.pos + n])
            assert len(b) == n
        else:
            b = bytes(((len(self.draws) * 37 + 11 + i * 7) & 0xFF) for i in range(n))
        self.pos += n
        self.draws.append(b)
        return b


class ToyAES:
    """stands in for Cryptodome.Cipher.AES in py7zr.compressor: CBC over the keyed toy block function of Enc.v
    (toyK: xor with the first 16 key bytes)"""
    MODE_CBC = 2

    class _C:
        def __init__(self, key, iv):
            self.k = bytes(key[:16])
            self.c = bytes(iv)

        def encrypt(self, data):
            data = bytes(data)
            if len(data) % 16:
                raise ValueError("Data must be padded to 16 byte boundary in CBC mode")
            out = bytearray()
            for i in range(0, len(data), 16):
                blk = bytes(a ^ b ^ k for a, b, k in zip(data[i:i + 16], self.c, self.k))
                out += blk
                self.c = blk
            return bytes(out)

        def decrypt(self, data):
            data = bytes(data)
            if len(data) % 16:
                raise ValueError("Data must be padded to 16 byte boundary in CBC mode")
            out = bytearray()
            for i in range(0, len(data), 16):
                blk = data[i:i + 16]
                out += bytes(a ^ k ^ c for a, k, c in zip(blk, self.k, self.c))
                self.c = blk
            return bytes(out)

    @staticmethod
    def new(key, mode, iv):
        assert mode == ToyAES.MODE_CBC
        return ToyAES._C(key, iv)


# ------------------------------------------------------------------ building archives with the real writer
def build(members, chain, password, hmode, rng=None, blocksize=None, aes=None, via_setter=False, sessions=None):
    """hmode: 0 raw header, 1 encoded header, 2 encrypted header.  Returns the archive bytes."""
    filters = arch.CHAINS[chain]
    bio = io.BytesIO()
    with Patched(rng=rng, blocksize=blocksize, aes=aes):
        kw = {} if (via_setter or hmode != 2) else {"header_encryption": True}
        with py7zr.SevenZipFile(bio, "w", filters=filters, password=password, **kw) as z:
            if hmode == 0:
                z.set_encoded_header_mode(False)
            if hmode == 2 and via_setter:
                z.set_encrypted_header(True)
            for n, d in members:
                z.writestr(d, n)
        for ms in (sessions or []):
            bio.seek(0)
            with py7zr.SevenZipFile(bio, "a", filters=filters, password=password, **kw) as z:
                if hmode == 0:
                    z.set_encoded_header_mode(False)
                if hmode == 2 and via_setter:
                    z.set_encrypted_header(True)
                for n, d in ms:
                    z.writestr(d, n)
    return bio.getvalue()


# ------------------------------------------------------------------ independent reader
class IndepError(Exception):
    pass


def _mres(r, what):
    if r[0] != 0:
        raise IndepError("%s: model says Err %s" % (what, ERRNAME.get(r[1], r[1])))
    return r[1]


def lzma_filters(method, props):
    if method == b"\x21":
        return [lzma._decode_filter_properties(lzma.FILTER_LZMA2, props)]
    if method == b"\x03\x01\x01":
        return [lzma._decode_filter_properties(lzma.FILTER_LZMA1, props)]
    raise IndepError("no independent decoder for method %s" % method.hex())


def decode_stage(method, props, data, usize):
    """one coder of a folder with the codec's own Python module (never py7zr's wrappers)"""
    if method == b"\x00":
        return data[:usize]
    if method in (b"\x21", b"\x03\x01\x01"):
        d = lzma.LZMADecompressor(format=lzma.FORMAT_RAW, filters=lzma_filters(method, props))
        return d.decompress(data, usize)
    if method == b"\x04\x01\x08":
        return zlib.decompressobj(wbits=-15).decompress(data, usize)
    if method == b"\x04\x02\x02":
        return bz2.BZ2Decompressor().decompress(data, usize)
    if method == b"\x04\xf7\x11\x01":
        import pyzstd
        return pyzstd.ZstdDecompressor().decompress(data, usize)
    raise IndepError("no independent decoder for method %s" % method.hex())


def indep_read(model, a, password):
    """-> dict(mode, header (model tree), packed, hpacked, hcoders, hrawlen, hiv, hraw, desc)"""
    if a[:6] != b"7z\xbc\xaf\x27\x1c":
        raise IndepError("no signature")
    scrc, ofs, size, ncrc = struct.unpack("<LQQL", a[8:32])
    if zlib.crc32(a[12:32]) != scrc:
        raise IndepError("start header CRC")
    nh = a[32 + ofs:32 + ofs + size]
    if len(nh) != size or zlib.crc32(nh) != ncrc:
        raise IndepError("next header CRC")
    out = {"nextheader": nh, "ofs": ofs}
    if nh[:1] == b"\x01":
        out.update(mode=0, hraw=nh, hpacked=b"", hcoders=[], desc=b"")
        out["header"] = _mres(model.call("parse_header", [4096, list(nh)]), "raw header")
    elif nh[:1] == b"\x17":
        d = _mres(model.call("parse_header", [4096, [1, 4] + list(nh[1:]) + [0]]), "descriptor")
        st = d[0][0]
        pack, folders = st[0][0], st[1][0]
        if len(folders) != 1 or pack[1] != 1:
            raise IndepError("descriptor shape")
        fo = folders[0]
        coders = fo[0]
        hpos, hsize = pack[0], pack[2][0]
        hpacked = a[32 + hpos:32 + hpos + hsize]
        data = hpacked
        hiv = None
        for i, c in enumerate(coders):
            method, props = bytes(c[0]), (bytes(c[3][0]) if c[3] else None)
            if method == AES_ID:
                pr = _mres(model.call("aes_parse_props", list(props)), "header AES properties")
                cycles, salt, hiv = pr[0], bytes(pr[1]), bytes(pr[2])
                if password is None:
                    raise IndepError("password needed")
                data = cbc_decrypt(kdf_indep(password, cycles, salt), hiv, data)[:fo[3][i]]
            else:
                data = decode_stage(method, props, data, fo[3][i])
        hcrc = fo[5][0] if (fo[4] == 1 and fo[5]) else None
        if hcrc is not None and zlib.crc32(data) != hcrc:
            raise IndepError("decoded header does not have the stored CRC (wrong password?)")
        out.update(mode=2 if hiv is not None else 1, hraw=data, hpacked=hpacked, hcoders=coders, hiv=hiv,
                   hrawlen=fo[3][-1], desc=nh, hpos=hpos, hcrc=hcrc)
        out["header"] = _mres(model.call("parse_header", [4096, list(data)]), "decoded header")
    else:
        raise IndepError("next header begins %r" % nh[:1])
    h = out["header"]
    if h[0]:
        st = h[0][0]
        pack = st[0][0]
        pos = 32 + pack[0]
        out["packs"] = []
        for s in pack[2]:
            out["packs"].append(a[pos:pos + s])
            pos += s
        out["folders"] = st[1][0]
        out["sub"] = st[2][0] if st[2] else None
        out["packinfo"] = pack
    out["files"] = h[1][0] if h[1] else []
    return out


def indep_decode_folder(model, fo, packed, password):
    """decode one folder (coders in header order: the first coder is applied last when packing)"""
    coders, usizes = fo[0], fo[3]
    data = packed
    iv = None
    for i, c in enumerate(coders):
        method, props = bytes(c[0]), (bytes(c[3][0]) if c[3] else None)
        if method == AES_ID:
            pr = _mres(model.call("aes_parse_props", list(props)), "AES properties")
            iv = bytes(pr[2])
            data = cbc_decrypt(kdf_indep(password, pr[0], bytes(pr[1])), iv, data)
            aes_plain = data
            data = data[:usizes[i]]
        else:
            data = decode_stage(method, props, data, usizes[i])
    return data, iv, aes_plain


# ------------------------------------------------------------------ test material
def marker_bytes(rng, n, tag):
    """recognisable, incompressible-enough plaintext: a tag line followed by random printable text"""
    head = ("<<%s:%08x>>" % (tag, rng.getrandbits(32))).encode()
    alphabet = b"abcdefghijklmnopqrstuvwxyzABCDEFGHIJKLMNOPQRSTUVWXYZ0123456789 _-"
    body = bytes(rng.choice(alphabet) for _ in range(max(0, n - len(head))))
    return (head + body)[:max(n, 24)]


def member_sets(rng, tier):
    sets = []
    sets.append([("secret-report-%04d.txt" % rng.randrange(10000), marker_bytes(rng, 24, "m0"))])
    sets.append([("dir-%03d/inner-file-A.bin" % rng.randrange(1000), marker_bytes(rng, 131, "m1")),
                 ("second-member.dat", marker_bytes(rng, 48, "m2"))])
    sets.append([("秘密のファイル-%02d.txt" % rng.randrange(100), marker_bytes(rng, 300, "m3")),
                 ("emoji-\U0001f512-\U0001f5dd-name.bin", marker_bytes(rng, 64, "m4")),
                 ("third/éèê-accent.cfg", (b"key=value-%d\n" % rng.randrange(1000)) * 9)])
    if tier != "quick":
        sets.append([("big-member-%d.bin" % i, marker_bytes(rng, rng.choice([1000, 4097, 70000]), "b%d" % i)) for i in range(4)])
        sets.append([("many-%03d.txt" % i, marker_bytes(rng, 24 + i, "n%d" % i)) for i in range(40)])
    return sets


# the last but one is NOT in a Unicode normal form (e + U+0301, c + U+0327, Hangul jamo): the key derivation hashes the UTF-16LE code
# units of the string as given, so its NFC form is a different (wrong) password and the independent reader needs the exact one
PASSWORDS = ["secret", "pass word-1", "пароль-密码", "\U0001f511\U00010348key", "cafe\u0301-c\u0327\u1100\u1161", ""]


def wrong_passwords(pw):
    out = [("different", "not-" + pw[::-1] + "-it")]
    if len(pw) > 1:
        out.append(("prefix", pw[:-1]))
    out.append(("extended", pw + "x"))
    sw = pw.swapcase()
    if sw != pw:
        out.append(("case", sw))
    if pw != "":
        out.append(("empty", ""))
    import unicodedata
    for form in ("NFC", "NFKD"):
        nf = unicodedata.normalize(form, pw)
        if nf != pw and all(nf != w for _, w in out):
            out.append(("normalised-" + form, nf))
    return out


def tree_meta(ind, members):
    """metadata tree for Enc.assemble_meta from first principles + what the header stores"""
    fo = ind["folders"][0]
    files = ind["files"]
    coders = fo[0]
    pr = bytes(coders[0][3][0])
    return [[[ord(c) for c in n] for n, _ in members],
            [f[4][0][0] for f in files], [f[5][0][0] for f in files],
            [len(d) for _, d in members], [zlib.crc32(d) for _, d in members],
            list(fo[3]), coders[1:], list(pr[2:])]


# ------------------------------------------------------------------ parts
def check_kdf(ctx, rep, rng, tier):
    model = ctx["model"]
    pws = ["", "a", "secret", "密码", "\U0001f511k"]
    salts = [b"", b"\x01\x02", bytes(range(16))]
    n = 0
    for cycles in list(range(0, 13)) + [0x3F]:
        for pw in pws:
            for salt in (salts if cycles <= 8 else salts[:1]):
                pwb = pw.encode("utf-16-le")
                k1 = ph._calculate_key1(pwb, cycles, salt, "sha256")
                k3 = ph._calculate_key3(pwb, cycles, salt, "sha256")
                kc = ph.calculate_key(pwb, cycles, salt, "sha256")
                ki = kdf_indep(pw, cycles, salt)
                rep.count(("kdf", cycles, pw, salt), nontrivial=cycles > 0)
                rep.dist("kdf_cycles", cycles)
                bad = None
                if not (k1 == k3 == kc == ki):
                    bad = "key1 %s key3 %s calculate_key %s independent %s" % (k1.hex()[:16], k3.hex()[:16], kc.hex()[:16], ki.hex()[:16])
                elif model is not None:
                    u = model.call("pw_utf16", [ord(c) for c in pw])
                    if u[0] != 0 or bytes(u[1]) != pwb:
                        bad = "model UTF-16-LE of the password differs: %r" % (u,)
                    for which in (1, 3):
                        t = model.call("kdf_transcript", [which, list(pwb), cycles, list(salt)])
                        if t[0] != 0:
                            bad = "model key%d: Err" % which
                            break
                        msg = bytes(t[1])
                        want = msg if cycles == 0x3F else hashlib.sha256(msg).digest()[:32]
                        if want != k1:
                            bad = "sha256(model transcript of key%d) != _calculate_key1 (cycles %d)" % (which, cycles)
                            break
                n += 1
                if bad:
                    rep.violation("KDF cycles=%d password %r salt %s: %s" % (cycles, pw, salt.hex(), bad),
                                  {"kind": "kdf", "cycles": cycles, "password": pw, "salt": salt.hex()},
                                  match_keys={"kind": "kdf"})
                    return
    # the writer's parameters: cycles 19, empty salt, UTF-16-LE
    calls = []
    real = pc.calculate_key
    try:
        pc.calculate_key = lambda *a: (calls.append(a), real(*a))[1]
        c = pc.AESCompressor("päss\U0001f511")
    finally:
        pc.calculate_key = real
    want = ("päss\U0001f511".encode("utf-16-le"), 19, b"", "sha256")
    rep.count(("kdf-writer-params",))
    if calls != [want] or c.cycles != 19 or c.salt != b"" or len(c.iv) != 16:
        rep.violation("AESCompressor derives its key with %r, expected %r" % (calls, want),
                      {"kind": "kdf-writer-params"}, match_keys={"kind": "kdf-writer-params"})
    # key3 == key1 == independent at the writer's cycles
    for pw in ["secret", "\U0001f511"] if tier == "quick" else PASSWORDS:
        pwb = pw.encode("utf-16-le")
        rep.count(("kdf19", pw))
        if not (ph._calculate_key1(pwb, 19, b"", "sha256") == ph.calculate_key(pwb, 19, b"", "sha256") == kdf_indep(pw, 19)):
            rep.violation("KDF cycles=19 password %r: staged and per-round derivations differ" % pw,
                          {"kind": "kdf", "cycles": 19, "password": pw, "salt": ""}, match_keys={"kind": "kdf"})
    rep.extra["kdf_cases"] = n


def check_props(ctx, rep, rng, tier):
    model = ctx["model"]
    if model is None:
        return
    n = 0
    cases = []
    for cycles in (0, 1, 19, 24, 25, 62, 63):
        for sl in (0, 1, 2, 15, 16):
            for il in (1, 2, 8, 15, 16):
                cases.append((cycles, rng.randbytes(sl), rng.randbytes(il)))
    for cycles, salt, iv in cases:
        c = pc.AESCompressor.__new__(pc.AESCompressor)
        c.cycles, c.salt, c.iv = cycles, salt, iv
        real = c.encode_filter_properties()
        m = model.call("aes_encode_props", [cycles, list(salt), list(iv)])
        rep.count(("props", cycles, len(salt), len(iv)))
        ok = m[0] == 0 and bytes(m[1]) == real
        # reader side
        captured = {}
        realkey = pc.calculate_key

        def fake(pwb, cyc, s, d):
            captured["kdf"] = (cyc, bytes(s))
            return bytes(32)
        outcome = None
        try:
            pc.calculate_key = fake
            d = pc.AESDecompressor(real, "x")
            outcome = ("ok", captured["kdf"][0], captured["kdf"][1], bytes(d.cipher.iv))
        except Exception as e:  # noqa
            outcome = ("err", arch.exc_class(e) if not isinstance(e, AssertionError) else "Other")
        finally:
            pc.calculate_key = realkey
        p = model.call("aes_parse_props", list(real))
        if p[0] == 0:
            mo = ("ok", p[1][0], bytes(p[1][1]), bytes(p[1][2]))
        else:
            mo = ("err", ERRNAME[p[1]])
        n += 1
        if not ok or mo != outcome:
            rep.violation("7zAES properties cycles=%d salt %d iv %d bytes: writer %s model %r; reader %r model %r" % (
                cycles, len(salt), len(iv), real.hex(), m, outcome, mo),
                {"kind": "aes-props", "cycles": cycles, "salt": salt.hex(), "iv": iv.hex()}, match_keys={"kind": "aes-props"})
            return
        if outcome[0] == "ok" and cycles <= 24:
            if outcome[1:] != (cycles, salt, iv + bytes(16 - len(iv))):
                rep.violation("7zAES properties do not round-trip: %r" % (outcome,),
                              {"kind": "aes-props", "cycles": cycles, "salt": salt.hex(), "iv": iv.hex()},
                              match_keys={"kind": "aes-props"})
                return
    # arbitrary property strings: parser decisions agree
    for _ in range(300 if tier == "quick" else 5000):
        ln = rng.choice([0, 1, 2, 3, 10, 18, 19, 34])
        b = bytearray(rng.randbytes(ln))
        if ln and rng.random() < 0.6:
            b[0] = rng.choice([0x53, 0x40, 0x80, 0xC0, 0x13, 0x58, 0x59, 0xD3])
        if ln > 1 and rng.random() < 0.6:
            il = max(0, min(15, ln - 3 + rng.choice([-1, 0, 0, 0, 1])))
            b[1] = il
        b = bytes(b)
        realkey = pc.calculate_key
        captured = {}
        try:
            pc.calculate_key = lambda pwb, cyc, s, d: (captured.update(kdf=(cyc, bytes(s))), bytes(32))[1]
            d = pc.AESDecompressor(b, "x")
            outcome = ("ok", captured["kdf"][0], captured["kdf"][1], bytes(d.cipher.iv))
        except Exception as e:  # noqa
            outcome = ("err", "Unsupported" if type(e).__name__ == "UnsupportedCompressionMethodError" else "Other")
        finally:
            pc.calculate_key = realkey
        p = model.call("aes_parse_props", list(b))
        mo = ("ok", p[1][0], bytes(p[1][1]), bytes(p[1][2])) if p[0] == 0 else ("err", ERRNAME[p[1]])
        rep.count(("propsparse", b))
        n += 1
        if mo != outcome:
            rep.violation("AESDecompressor(%s): implementation %r, model %r" % (b.hex(), outcome, mo),
                          {"kind": "aes-props-parse", "props": b.hex()}, concrete=False)
            return
    rep.extra["aes_props_cases"] = n


_WIN = {}


def windows_of(hay, w):
    """set of all w-byte windows of hay (cached for the archive being searched)"""
    k = (id(hay), len(hay), w)
    if k not in _WIN:
        if len(_WIN) > 4:
            _WIN.clear()
        _WIN[k] = {hay[i:i + w] for i in range(0, len(hay) - w + 1)}
    return _WIN[k]


def find_windows(hay, needle, w):
    """offset of the first w-byte window of needle that occurs in hay, or None (windows at every offset)"""
    if len(needle) < w or len(hay) < w:
        return None
    ws = windows_of(hay, w)
    for i in range(0, len(needle) - w + 1):
        if needle[i:i + w] in ws:
            return i
    return None


def compressed_forms(chain, content, allcat):
    """what the chain's codecs make of a member / of the whole folder input, without encryption"""
    forms = []
    for f in arch.CHAINS[chain]:
        fid = f["id"]
        for src in (content, allcat):
            try:
                if fid == arch.FILTER_LZMA2:
                    forms.append(lzma.compress(src, format=lzma.FORMAT_RAW, filters=[{"id": lzma.FILTER_LZMA2, "preset": f.get("preset", 1)}]))
                elif fid == arch.FILTER_DEFLATE:
                    c = zlib.compressobj(wbits=-15)
                    forms.append(c.compress(src) + c.flush())
                elif fid == arch.FILTER_BZIP2:
                    forms.append(bz2.compress(src))
                elif fid == arch.FILTER_ZSTD:
                    import pyzstd
                    forms.append(pyzstd.compress(src, f.get("level", 3)))
            except Exception:  # noqa
                pass
    return forms


def leak_search(rep, a, members, chain, hmode, info):
    """-> description of a leak or None"""
    allcat = b"".join(d for _, d in members)
    for n, d in members:
        i = find_windows(a, d, 8)
        if i is not None:
            return "archive contains plaintext of member %r (8-byte window at content offset %d)" % (n, i)
        for form in compressed_forms(chain, d, allcat):
            # skip the first bytes (stream headers common to every stream of that codec)
            body = form[4:]
            j = find_windows(a, body, 16)
            if j is not None:
                return "archive contains a compressed form of member %r (16-byte window at offset %d of the compressed stream)" % (n, j)
    if hmode == 2:
        for n, _ in members:
            for comp in [n] + [p for p in n.replace("\\", "/").split("/")]:
                if len(comp) < 6:
                    continue
                for enc in ("utf-16-le", "utf-8", "utf-16-be"):
                    e = comp.encode(enc)
                    if e in a:
                        return "header-encrypted archive contains the member name %r in %s" % (comp, enc)
                    # any 6-character window of the name
                    for k in range(0, len(comp) - 5):
                        w = comp[k:k + 6].encode(enc)
                        if w in a:
                            return "header-encrypted archive contains a 6-character piece of the name %r in %s" % (comp, enc)
    return None


def check_archives(ctx, rep, rng, tier):
    """layout correspondence + independent decryption + leak search + IVs, every AES chain x header mode"""
    model = ctx["model"]
    sets = member_sets(rng, tier)
    combos = []
    for chain in AES_CHAINS:
        for hmode, setter in ((0, False), (1, False), (2, False), (2, True)):
            combos.append((chain, hmode, setter))
    done = 0
    for ci, (chain, hmode, setter) in enumerate(combos):
        pws = PASSWORDS if tier != "quick" else [PASSWORDS[(ci + k) % len(PASSWORDS)] for k in range(2)]
        for pi, pw in enumerate(pws):
            members = sets[(ci + pi) % len(sets)]
            rec = RecRng()
            bs = rng.choice([None, None, 64, 100, 4096]) if chain in ("aes", "copy+aes") else None
            a = build(members, chain, pw, hmode, rng=rec, blocksize=bs, via_setter=setter)
            key = ("arch", chain, hmode, setter, pw, tuple(n for n, _ in members), bs)
            rep.count(key, nontrivial=True)
            rep.dist("chain", chain)
            rep.dist("header_mode", ["raw", "encoded", "encrypted"][hmode] + ("(setter)" if setter else ""))
            rep.dist("password_class", "empty" if pw == "" else ("astral" if any(ord(c) > 0xFFFF for c in pw) else
                                                                  ("bmp" if any(ord(c) > 127 for c in pw) else "ascii")))
            replay = {"kind": "archive", "chain": chain, "hmode": hmode, "setter": setter, "password": pw,
                      "members": [[n, d.hex()] for n, d in members], "blocksize": bs}
            mk = {"kind": "archive", "chain": chain, "hmode": hmode}
            bad = None
            # --- leak search on the bytes
            lk = leak_search(rep, a, members, chain, hmode, None)
            if lk:
                bad = ("leak", lk)
            ind = None
            if not bad and model is not None:
                try:
                    ind = indep_read(model, a, pw)
                except Exception as e:  # noqa
                    bad = ("indep", "independent reader cannot read what the writer wrote: %s: %s" % (type(e).__name__, e))
            if ind is not None and not bad:
                fo = ind["folders"][0]
                coders = fo[0]
                want_draws = 1 + (1 if hmode == 2 else 0)
                if hmode in (1, 2) and ind.get("hcrc") != zlib.crc32(ind["hraw"]):
                    bad = ("header-crc", "the encoded header carries no CRC of the plain header (stored: %r): a wrong password "
                                         "can only be told by the first decrypted byte" % (ind.get("hcrc"),))
                elif ind["mode"] != hmode:
                    bad = ("mode", "header %s requested, but the archive's header is %s%s" % (
                        ["raw", "encoded", "ENCRYPTED"][hmode], ["raw", "encoded (not encrypted)", "encrypted"][ind["mode"]],
                        ": member names are readable without the password" if hmode == 2 else ""))
                elif len(rec.draws) != want_draws or any(len(d) != 16 for d in rec.draws):
                    # one RNG draw per AESCompressor construction
                    bad = ("rng", "writer drew %r from the RNG, expected %d draws of 16 bytes" % ([d.hex() for d in rec.draws], want_draws))
                elif bytes(coders[0][0]) != AES_ID:
                    bad = ("chain", "first coder of the folder is %s, not 7zAES" % bytes(coders[0][0]).hex())
                else:
                    # IV stored = this coder's own draw, cycles 19, no salt
                    pr = model.call("aes_parse_props", coders[0][3][0])
                    if pr[0] != 0 or pr[1][0] != 19 or pr[1][1] != [] or bytes(pr[1][2]) != rec.draws[0]:
                        bad = ("iv", "folder coder properties %s: not (cycles 19, no salt, iv = first RNG draw %s)" % (
                            bytes(coders[0][3][0]).hex(), rec.draws[0].hex()))
                    elif hmode == 2 and ind["hiv"] != rec.draws[1]:
                        bad = ("iv", "header coder IV %s is not the second RNG draw %s" % (ind["hiv"].hex(), rec.draws[1].hex()))
                if not bad:
                    # names / sizes / CRCs stored = first principles
                    names = ["".join(chr(c) for c in f[1][0]) for f in ind["files"]]
                    sub = ind["sub"]
                    stored_sizes = list(sub[1][0]) if sub[1] else [fo[3][-1]]
                    if names != [n for n, _ in members] or stored_sizes != [len(d) for _, d in members] or \
                            list(sub[3]) != [zlib.crc32(d) for _, d in members]:
                        bad = ("meta", "stored names/sizes/CRCs differ from the members written")
                if not bad:
                    # independent decryption: the packed stream is AES-CBC(key(pw), iv, pad16(E(contents)))
                    plain, iv, aes_plain = indep_decode_folder(model, fo, ind["packs"][0], pw)
                    allcat = b"".join(d for _, d in members)
                    if plain != allcat:
                        bad = ("decrypt", "independent decryption + decoding does not give the members' contents")
                    elif chain in ("aes", "copy+aes") and aes_plain != pad16(allcat):
                        bad = ("decrypt", "decrypted packed stream is not pad16(concatenated contents)")
                    elif len(ind["packs"][0]) % 16 or cbc_encrypt(kdf_indep(pw), iv, aes_plain) != ind["packs"][0]:
                        bad = ("decrypt", "packed stream is not the CBC encryption of its decryption under the derived key")
                    elif any(aes_plain[fo[3][0]:]):
                        bad = ("decrypt", "padding after the AES coder's unpack size is not zero")
                if not bad:
                    # layout: model assembles the same bytes from metadata + opaque streams
                    mt = tree_meta(ind, members)
                    r = model.call("assemble_meta", [hmode, mt, list(ind["packs"][0]), ind["hcoders"], list(ind["hpacked"])])
                    if r[0] != 0 or bytes(r[1]) != a:
                        bad = ("layout", "Enc.assemble_meta(metadata, packed, packed header) differs from the archive (%s)" % (
                            "Err" if r[0] else "first difference at byte %d" % next(
                                (i for i, (x, y) in enumerate(zip(bytes(r[1]), a)) if x != y), min(len(r[1]), len(a)))))
                    elif hmode == 2:
                        hr = model.call("header_raw", [mt, list(ind["packs"][0])])
                        if hr[0] != 0 or bytes(hr[1]) != ind["hraw"] or \
                                cbc_encrypt(kdf_indep(pw), ind["hiv"], pad16(bytes(hr[1]))) != ind["hpacked"]:
                            bad = ("layout", "encrypted header is not CBC(key, second draw, pad16(Enc.header_raw(metadata)))")
                        else:
                            pp_ = model.call("plain_parts", [len(ind["packs"][0]), ind["hcoders"], list(ind["hpacked"]), len(ind["hraw"]),
                                                             zlib.crc32(ind["hraw"])])
                            if pp_[0] != 0 or bytes(pp_[1][0]) + ind["packs"][0] + ind["hpacked"] + bytes(pp_[1][1]) != a:
                                bad = ("layout", "archive is not sig ++ packed ++ header ciphertext ++ descriptor of Enc.plain_parts")
            if bad:
                rep.violation("%s, header mode %d%s, password %r: %s" % (chain, hmode, " (set_encrypted_header)" if setter else "", pw, bad[1]),
                              dict(replay, check=bad[0]), match_keys=dict(mk, check=bad[0]))
                if len(rep.violations) > 4:
                    return
                continue
            done += 1
            if done <= 3:
                rep.sample({"chain": chain, "header_mode": hmode, "password": pw, "archive_len": len(a),
                            "members": [(n, len(d)) for n, d in members]})
    rep.extra["archives_checked"] = done


def check_toy_writer(ctx, rep, rng, tier):
    """L2: the step model of the writer (Enc.write_archive) against the real writer, both with the toy cipher"""
    model = ctx["model"]
    if model is None:
        return
    sets = member_sets(rng, "quick")
    n = 0
    t_now = 1700000000.0
    for chain, ncopy, mm in (("aes", 0, [False]), ("copy+aes", 1, [False, False])):
        for hmode in (0, 2):
            for bs in (16, 17, 31, 48, 64, 100, 1000, 1 << 20):
                for members in sets[:2] if tier == "quick" else sets:
                    pw = rng.choice(PASSWORDS)
                    stream = rng.randbytes(64)
                    rec = RecRng(stream=stream)
                    saved = ph._time.time
                    try:
                        ph._time.time = lambda: t_now
                        a = build(members, chain, pw, hmode, rng=rec, blocksize=bs, aes=ToyAES)
                    finally:
                        ph._time.time = saved
                    ts = int((t_now - ph.TIMESTAMP_ADJUST) * 10000000.0)
                    pre = [[[0], 1, 1, []]] * ncopy
                    mem = [[[ord(c) for c in nm], ts, 32, list(d)] for nm, d in members]
                    r = model.call("write_archive_toy", [hmode, mm, pre, bs, ncopy, list(stream), list(kdf_indep(pw)), mem])
                    rep.count(("toy", chain, hmode, bs, tuple(nm for nm, _ in members), pw), nontrivial=True)
                    n += 1
                    if r[0] != 0 or bytes(r[1][0]) != a or r[1][1] != 16 * len(rec.draws):
                        what = "Err" if r[0] else ("RNG position %d vs %d draws" % (r[1][1], len(rec.draws)) if bytes(r[1][0]) == a else
                                                   "first difference at byte %d of %d/%d" % (next((i for i, (x, y) in enumerate(zip(bytes(r[1][0]), a)) if x != y), -1), len(r[1][0]), len(a)))
                        rep.violation("writer model (Enc.write_archive, toy cipher) and the real writer with the same toy cipher differ: %s, header mode %d, "
                                      "block size %d: %s" % (chain, hmode, bs, what),
                                      {"kind": "toy-writer", "chain": chain, "hmode": hmode, "blocksize": bs, "password": pw,
                                       "members": [[nm, d.hex()] for nm, d in members]}, concrete=False,
                                      match_keys={"kind": "toy-writer"})
                        return
    rep.extra["toy_writer_cases"] = n


def check_fresh(ctx, rep, rng, tier):
    """real RNG: same input + same password twice -> different IVs and ciphertexts; append sessions draw anew"""
    model = ctx["model"]
    if model is None:
        return
    members = member_sets(rng, "quick")[1]
    seen_iv = {}
    for chain in (AES_CHAINS if tier != "quick" else ["copy+aes", "lzma2+aes", "aes"]):
        for hmode in (1, 2):
            pw = "same-password"
            ivs, cts = [], []
            reps = 3 if tier == "quick" else 6
            for k in range(reps):
                a = build(members, chain, pw, hmode)
                ind = indep_read(model, a, pw)
                pr = model.call("aes_parse_props", ind["folders"][0][0][0][3][0])
                iv = bytes(pr[1][2])
                ivs.append(iv)
                if hmode == 2:
                    ivs.append(ind["hiv"])
                    cts.append(ind["hpacked"][:16])
                cts.append(ind["packs"][0][:16])
                cts.append(ind["packs"][0])
            rep.count(("fresh", chain, hmode), nontrivial=True)
            bad = None
            if len(set(ivs)) != len(ivs):
                bad = "an IV is used twice: %s" % [i.hex() for i in ivs]
            elif len(set(cts)) != len(cts):
                bad = "two archives of the same input and password share ciphertext"
            elif any(iv in (bytes(16), b"\xff" * 16) or len(set(iv)) < 4 for iv in ivs):
                bad = "degenerate IV %s" % [i.hex() for i in ivs]
            for iv in ivs:
                if iv in seen_iv and not bad:
                    bad = "IV %s already used by %r" % (iv.hex(), seen_iv[iv])
                seen_iv[iv] = (chain, hmode)
            if bad:
                rep.violation("%s, header mode %d: %s" % (chain, hmode, bad),
                              {"kind": "fresh", "chain": chain, "hmode": hmode, "members": [[n, d.hex()] for n, d in members]},
                              match_keys={"kind": "fresh", "chain": chain})
                return
    # append sessions with the RNG pinned: every construction has its own draw and stores it
    for chain in ("copy+aes", "lzma2+aes"):
        for hmode in (1, 2):
            rec = RecRng()
            s2 = [("appended-member-%d.txt" % rng.randrange(100), marker_bytes(rng, 80, "ap"))]
            a = build(members, chain, "pw-append", hmode, rng=rec, sessions=[s2])
            ind = indep_read(model, a, "pw-append")
            stored = []
            for fo in ind["folders"]:
                pr = model.call("aes_parse_props", fo[0][0][3][0])
                stored.append(bytes(pr[1][2]))
            if hmode == 2:
                stored.append(ind["hiv"])
            rep.count(("append", chain, hmode), nontrivial=True)
            want = [rec.draws[0], rec.draws[2], rec.draws[3]] if hmode == 2 else [rec.draws[0], rec.draws[1]]
            want_n = 4 if hmode == 2 else 2
            lk = leak_search(rep, a, members + s2, chain, hmode, None)
            if len(rec.draws) != want_n or stored != want or len(set(rec.draws)) != len(rec.draws) or lk:
                rep.violation("append session, %s, header mode %d: stored IVs %s, RNG draws %s%s" % (
                    chain, hmode, [s.hex() for s in stored], [d.hex() for d in rec.draws], "; " + lk if lk else ""),
                    {"kind": "append", "chain": chain, "hmode": hmode}, match_keys={"kind": "append", "chain": chain})
                return
            plain0, _, _ = indep_decode_folder(model, ind["folders"][0], ind["packs"][0], "pw-append")
            plain1, _, _ = indep_decode_folder(model, ind["folders"][1], ind["packs"][1], "pw-append")
            if plain0 != b"".join(d for _, d in members) or plain1 != s2[0][1]:
                rep.violation("append session, %s: independent decryption does not give the contents" % chain,
                              {"kind": "append", "chain": chain, "hmode": hmode}, match_keys={"kind": "append", "chain": chain})
                return


# ------------------------------------------------------------------ reading with absent / wrong passwords
class _Timeout(Exception):
    pass


def _alarm(*a):
    raise _Timeout()


OPS = ("open", "getnames", "list", "test", "testzip", "extractall", "extractall_factory", "extract_one")


def read_outcome(a, password, op, members, limit=3.0):
    """one reading call; -> (class, detail); classes: refused(PasswordRequired) / error(<exception>) / hang /
    delivered-original / delivered-DIFFERENT / no-bytes (a call that returns no member bytes) / empty-archive"""
    want = dict(members)
    d = tempfile.mkdtemp(prefix="c11x") if op in ("extractall", "extract_one") else None
    # the watchdog counts CPU time of this process (a spinning loop burns it whatever the machine load is);
    # a wall-clock limit twenty times as long catches a call that blocks without computing
    old = signal.signal(signal.SIGALRM, _alarm)
    oldp = signal.signal(signal.SIGPROF, _alarm)
    signal.setitimer(signal.ITIMER_PROF, limit)
    signal.setitimer(signal.ITIMER_REAL, 20 * limit)
    z = None
    try:
        z = py7zr.SevenZipFile(io.BytesIO(a), "r", password=password)
        names = z.getnames()
        if op == "open":
            return ("no-bytes", "opened; needs_password=%s" % z.needs_password())
        if op == "getnames":
            return ("no-bytes" if names else "empty-archive", names)
        if op == "list":
            return ("no-bytes", [(f.filename, f.uncompressed, f.crc32) for f in z.list()])
        if op == "test":
            return ("no-bytes", "test() = %r" % z.test())
        if op == "testzip":
            r = z.testzip()
            if r is None:
                return ("verified-good", "testzip() = None")
            return ("error", "testzip() names %r as bad" % r)
        got = {}
        if op == "extractall":
            z.extractall(path=d)
        elif op == "extract_one":
            z.extract(path=d, targets=[members[-1][0]])
        elif op == "extractall_factory":
            fac = arch.Collect()
            z.extractall(factory=fac)
            got = fac.as_dict()
        if d is not None:
            for dp, dn, fn in os.walk(d):
                for f in fn:
                    p = os.path.join(dp, f)
                    got[os.path.relpath(p, d)] = open(p, "rb").read()
        if not got:
            return ("empty-archive" if not names else "no-bytes", "call returned, nothing delivered; names %r" % names)
        diff = [n for n, b in got.items() if want.get(n) != b]
        if diff:
            return ("delivered-DIFFERENT", "members %r delivered with other bytes" % diff)
        return ("delivered-original", sorted(got))
    except _Timeout:
        return ("hang", "no result within %.1fs of CPU time" % limit)
    except PasswordRequired:
        return ("refused", "PasswordRequired")
    except Exception as e:  # noqa
        import traceback
        fr = traceback.extract_tb(e.__traceback__)[-1]
        read_outcome.where = "%s: %s @ %s:%d" % (type(e).__name__, str(e)[:80], os.path.basename(fr.filename), fr.lineno)
        return ("error", type(e).__name__)
    finally:
        signal.setitimer(signal.ITIMER_PROF, 0)
        signal.setitimer(signal.ITIMER_REAL, 0)
        signal.signal(signal.SIGALRM, old)
        signal.signal(signal.SIGPROF, oldp)
        left = []
        if d is not None:
            for dp, dn, fn in os.walk(d):
                for f in fn:
                    p = os.path.join(dp, f)
                    left.append((os.path.relpath(p, d), os.path.getsize(p), open(p, "rb").read() == want.get(os.path.relpath(p, d))))
            shutil.rmtree(d, ignore_errors=True)
        read_outcome.left = left
        try:
            if z is not None:
                z.close()
        except BaseException:  # noqa
            pass


read_outcome.left = []
read_outcome.where = ""


def worker_outcomes(arg):
    """sandbox entry: arg = {archive hex, members, cases: [[password-or-None, op], ...]} -> list of outcomes"""
    a = bytes.fromhex(arg["archive"])
    members = [(n, bytes.fromhex(d)) for n, d in arg["members"]]
    out = []
    for pw, op in arg["cases"]:
        read_outcome.where = ""
        cls, det = read_outcome(a, pw, op, members, limit=arg.get("limit", 3.0))
        out.append([cls, str(det)[:200], [list(x) for x in read_outcome.left], read_outcome.where])
    return out


def sandbox_outcomes(a, members, cases, limit=3.0, timeout=None):
    arg = {"archive": a.hex(), "members": [[n, d.hex()] for n, d in members], "cases": cases, "limit": limit}
    r = run_sandboxed("harness.c11:worker_outcomes", arg, timeout=timeout or (120 + 6 * limit * len(cases)), mem_mb=3000)
    if r["status"] != "ok":
        return None, r
    return r["value"], r


def confirm(rep, a, members, p, op, pk, hmode, limit=8.0):
    """a candidate violation is reported only if it shows again alone, in a fresh process, with a longer watchdog:
    every reported outcome has a replay that reproduces"""
    res, raw = sandbox_outcomes(a, members, [[p, op]], limit=limit)
    if res is None:
        return True, "crash", str(raw)[:200]
    cls, det, left, where = res[0]
    if allowed(pk, hmode, op, cls):
        rep.extra.setdefault("not_reproduced", []).append({"with": p, "op": op, "second_run": cls})
        return False, cls, where or det
    return True, cls, where or det


def allowed(pwkind, hmode, op, cls):
    """the property's verdict on one outcome"""
    if pwkind == "right":
        return cls in ("delivered-original", "no-bytes", "verified-good")
    if pwkind == "absent":
        if hmode == 2:
            return cls == "refused"
        # names are in the clear: listing calls may answer; anything that would decode must refuse
        if op in ("open", "getnames", "list", "test"):
            return cls in ("no-bytes", "refused")
        return cls == "refused"
    # wrong password
    if hmode == 2:
        return cls in ("error", "refused")
    if op in ("open", "getnames", "list", "test"):
        return cls in ("no-bytes", "error", "refused")
    return cls in ("error", "refused")


def check_outcomes(ctx, rep, rng, tier):
    import multiprocessing.pool
    sets = member_sets(rng, "quick")
    garbage_left = 0
    empty_left = 0
    jobs = []
    for ci, chain in enumerate(AES_CHAINS):
        for hmode, setter in ((1, False), (2, False), (2, True)):
            if tier == "quick" and setter and ci % 2:
                continue
            for pw in ([PASSWORDS[(ci + hmode) % len(PASSWORDS)]] if tier == "quick" else PASSWORDS):
                members = sets[(ci + hmode) % len(sets)]
                a = build(members, chain, pw, hmode, via_setter=setter)
                cases = []
                kinds = []
                for op in OPS:
                    cases.append([None, op])
                    kinds.append("absent")
                for op in ("extractall_factory", "list", "testzip"):
                    cases.append([pw, op])
                    kinds.append("right")
                for kind, w in wrong_passwords(pw):
                    ops = OPS if (tier != "quick" or kind == "different") else ("extractall_factory", "testzip", "extract_one")
                    for op in ops:
                        cases.append([w, op])
                        kinds.append(kind)
                jobs.append((chain, hmode, setter, pw, members, a, cases, kinds))
    # members whose stored CRC-32 takes a boundary value (0 is falsy in Python, ffffffff is -1 as a signed word): the CRC is the
    # only thing that rejects a wrong password on chains without a structured decoder
    bset = [("crc-zero.bin", arch.forge_crc(marker_bytes(rng, 44, "z0"), 0)),
            ("crc-ones.bin", arch.forge_crc(marker_bytes(rng, 29, "z1"), 0xFFFFFFFF))]
    for chain in [c for c in AES_CHAINS if c in ("aes", "copy+aes", "lzma2+aes")]:
        for bi, one in enumerate(bset):
            pw = PASSWORDS[bi]
            a = build([one], chain, pw, 1)
            cases = [[pw, "extractall_factory"], [pw, "testzip"]]
            kinds = ["right", "right"]
            for kind, w in wrong_passwords(pw)[:2]:
                for op in ("extractall_factory", "extractall", "testzip", "extract_one"):
                    cases.append([w, op])
                    kinds.append(kind)
            jobs.append((chain, 1, False, pw, [one], a, cases, kinds))
    pool = multiprocessing.pool.ThreadPool(12)
    try:
        results = pool.map(lambda j: sandbox_outcomes(j[5], j[4], j[6]), jobs)
    finally:
        pool.close()
    for (chain, hmode, setter, pw, members, a, cases, kinds), (res, raw) in zip(jobs, results):
        if res is None:
            rep.violation("%s header mode %d: the reading calls took the sandbox down: %r" % (chain, hmode, raw),
                          {"kind": "outcome-crash", "chain": chain, "hmode": hmode, "archive": a.hex(),
                           "members": [[n, d.hex()] for n, d in members], "cases": cases},
                          match_keys={"kind": "outcome-crash", "chain": chain})
            continue
        for (p, op), kind, (cls, det, left, where) in zip(cases, kinds, res):
            pk = kind if kind in ("right", "absent") else "wrong"
            rep.count(("outcome", chain, hmode, setter, pw, p, op), nontrivial=True)
            rep.dist("outcome_%s" % pk, "%s:%s" % (cls, det.split(" names ")[0] if cls in ("error", "refused") else ""))
            rep.dist("wrong_password_kind", kind)
            for nm, sz, same in left:
                if pk != "right" and sz > 0 and not same:
                    garbage_left += 1
                if pk != "right" and sz == 0:
                    empty_left += 1
            if not allowed(pk, hmode, op, cls):
                still, cls, where = confirm(rep, a, members, p, op, pk, hmode)
                if not still:
                    continue
                shape = "%s-password-%s" % (pk, cls)
                rep.violation("%s, header mode %d, password %r, reading with %r (%s): %s -> %s (%s)" % (
                    chain, hmode, pw, p, kind, op, cls, where or det),
                    {"kind": "outcome", "chain": chain, "hmode": hmode, "setter": setter, "password": pw, "with": p, "op": op,
                     "archive": a.hex(), "members": [[n, d.hex()] for n, d in members], "class": cls},
                    match_keys={"kind": "outcome", "shape": shape, "op": op, "hmode": hmode})
                if len(rep.violations) > 6:
                    return
    rep.extra["garbage_left_on_error"] = {
        "files_with_wrong_bytes_left_on_disk_after_an_exception": garbage_left,
        "empty_files_left_on_disk_after_an_exception": empty_left,
        "note": "extractall/extract write a member's bytes before comparing its CRC; with a wrong password the garbage "
                "stays on disk although CrcError is raised; without a password an empty file is created before "
                "PasswordRequired is raised (neither is counted as 'delivered'; relevant to C04)"}


# ------------------------------------------------------------------ wrong passwords at scale (numcyclespower = 0)
def make_cycles0_archive(model, members, chain, pw, hmode, rec):
    """archive whose AES coders say numcyclespower = 0: the writer's own bytes re-keyed.  Done by running the real
    writer with calculate_key's `cycles` forced to 0 AND patching the property byte; then verified by the independent
    reader (which honours the stored value)."""
    real = pc.calculate_key
    realenc = pc.AESCompressor.encode_filter_properties

    def enc0(self):
        p = realenc(self)
        return bytes([(p[0] & 0xC0) | 0]) + p[1:]
    saved = ph._time.time
    try:
        ph._time.time = lambda: 1700000000.0
        pc.calculate_key = lambda pwb, cyc, salt, dig: real(pwb, 0, salt, dig)
        pc.AESCompressor.encode_filter_properties = enc0
        a = build(members, chain, pw, hmode, rng=rec)
    finally:
        ph._time.time = saved
        pc.calculate_key = real
        pc.AESCompressor.encode_filter_properties = realenc
    ind = indep_read(model, a, pw)    # raises if the archive is not what the format says
    plain, _, _ = indep_decode_folder(model, ind["folders"][0], ind["packs"][0], pw)
    assert plain == b"".join(d for _, d in members)
    return a


def worker_many_wrong(arg):
    """sandbox entry: try many wrong passwords on one archive; -> {class: count}, first example per bad class"""
    a = bytes.fromhex(arg["archive"])
    members = [(n, bytes.fromhex(d)) for n, d in arg["members"]]
    counts = collections.Counter()
    examples = {}
    t0 = time.process_time()
    for i in range(arg["start"], arg["start"] + arg["count"]):
        w = "wrong-%d" % i
        cls, det = read_outcome(a, w, arg["op"], members, limit=arg.get("limit", 2.0))
        key = cls if cls != "error" else "error:" + str(det)
        counts[key] += 1
        if cls not in ("error", "refused") and cls not in examples:
            examples[cls] = [w, str(det)[:200]]
        if time.process_time() - t0 > arg.get("budget", 60):
            break
    return {"counts": dict(counts), "examples": examples}


def check_many_wrong(ctx, rep, rng, tier):
    model = ctx["model"]
    if model is None:
        return
    members = member_sets(rng, "quick")[1]
    per = 2500 if tier == "quick" else 40000
    jobs = []
    for chain in AES_CHAINS:
        for hmode in (1, 2):
            if tier == "quick" and hmode == 2 and chain not in ("copy+aes", "lzma2+aes"):
                continue
            a = make_cycles0_archive(model, members, chain, "right-password", hmode, RecRng())
            jobs.append((chain, hmode, a))
    import multiprocessing.pool
    pool = multiprocessing.pool.ThreadPool(min(12, len(jobs)))

    def run(job):
        chain, hmode, a = job
        arg = {"archive": a.hex(), "members": [[n, d.hex()] for n, d in members], "start": 0, "count": per,
               "op": "extractall_factory", "limit": 1.0, "budget": 45 if tier == "quick" else 600}
        return job, run_sandboxed("harness.c11:worker_many_wrong", arg, timeout=400 if tier == "quick" else 1500, mem_mb=3000)
    try:
        results = pool.map(run, jobs)
    finally:
        pool.close()
    summary = {}
    for (chain, hmode, a), r in results:
        if r["status"] != "ok":
            rep.violation("%s header mode %d, numcyclespower 0: trying wrong passwords took the sandbox down: %r" % (chain, hmode, r),
                          {"kind": "many-wrong-crash", "chain": chain, "hmode": hmode, "archive": a.hex()},
                          match_keys={"kind": "many-wrong-crash", "chain": chain})
            continue
        counts, ex = r["value"]["counts"], r["value"]["examples"]
        summary["%s/h%d" % (chain, hmode)] = counts
        tot = sum(counts.values())
        rep.count(("many-wrong", chain, hmode), nontrivial=True, n=tot)
        for cls, (w, det) in ex.items():
            still, cls2, det2 = confirm(rep, a, members, w, "extractall_factory", "wrong", hmode, limit=5.0)
            if not still:
                continue
            cls, det = cls2, det2
            mk = {"kind": "outcome", "shape": "wrong-password-%s" % cls, "op": "extractall_factory", "hmode": hmode}
            if cls == "empty-archive" and hmode == 2:
                # the same defect as check_header_accept's replay, met by chance (probability 2^-16 per password)
                mk = {"kind": "header-accept", "shape": "wrong-password-empty-archive", "hmode": 2}
            rep.violation("%s, header mode %d (numcyclespower 0 archive), wrong password %r: extractall -> %s (%s); %d of %d wrong "
                          "passwords end this way" % (chain, hmode, w, cls, det, counts.get(cls, 0), tot),
                          {"kind": "outcome", "chain": chain, "hmode": hmode, "password": "right-password", "with": w,
                           "op": "extractall_factory", "archive": a.hex(), "members": [[n, d.hex()] for n, d in members],
                           "class": cls, "cycles": 0},
                          match_keys=mk)
    rep.extra["wrong_passwords_at_scale"] = summary


# ------------------------------------------------------------------ encrypted header accepted under a wrong password
def strip_header_crc(a):
    """the same archive as a FOREIGN writer might have produced it: the CRC record (0A 01 crc32) cut out of the
    encoded-header descriptor, signature header recomputed"""
    scrc, ofs, size, ncrc = struct.unpack("<LQQL", a[8:32])
    nh = a[32 + ofs:32 + ofs + size]
    assert nh[-8:-6] == b"\x0a\x01" and nh[-2:] == b"\x00\x00", nh[-10:].hex()
    nh2 = nh[:-8] + nh[-2:]
    start = struct.pack("<QQL", ofs, len(nh2), zlib.crc32(nh2))
    return a[:8] + struct.pack("<L", zlib.crc32(start)) + start + a[32:32 + ofs] + nh2


def check_header_accept(ctx, rep, rng, tier):
    """wrong password on an encrypted header whose garbage begins 01 00 (a valid EMPTY header): the writer's second
    RNG draw is searched (2^16 candidates expected, independent crypto) so that this happens for a fixed wrong
    password; the unmodified writer (cycles 19) then produces that archive.  py7zr stores the CRC of the plain header
    in the descriptor, so the reader must reject it (Bad7zFile); the same archive with the CRC record cut out (a
    foreign writer) shows what the record prevents."""
    model = ctx["model"]
    if model is None:
        return
    members = member_sets(rng, "quick")[1]
    pw, wrong = "Correct-Horse", "correct-horse"
    chain = "lzma2+aes"
    draw0 = bytes(range(16))
    rec = RecRng(stream=draw0 + bytes(16))
    t_now = 1700000000.0
    saved = ph._time.time
    try:
        ph._time.time = lambda: t_now
        a0 = build(members, chain, pw, 2, rng=rec)
        ind0 = indep_read(model, a0, pw)
        hraw = ind0["hraw"]       # does not depend on the header IV
        k, kw = kdf_indep(pw), kdf_indep(wrong)
        AES = _real_aes()
        ecb_k, ecb_w = AES.new(k, AES.MODE_ECB), AES.new(kw, AES.MODE_ECB)
        found = None
        first = hraw[:16]
        for cand in range(1 << 20):
            ivh = struct.pack("<L", cand) + bytes(range(100, 112))
            c1 = ecb_k.encrypt(bytes(x ^ y for x, y in zip(first, ivh)))
            p1 = bytes(x ^ y for x, y in zip(ecb_w.decrypt(c1), ivh))
            if p1[0] == 1 and p1[1] == 0:
                found = ivh
                break
        rep.count(("header-accept-search",), nontrivial=True, n=(cand + 1))
        rep.extra["header_accept_search"] = {"candidates_tried": cand + 1, "found_iv": found.hex() if found else None}
        if found is None:
            return
        rec = RecRng(stream=draw0 + found)
        a = build(members, chain, pw, 2, rng=rec)
    finally:
        ph._time.time = saved
    ind = indep_read(model, a, pw)
    garbage = cbc_decrypt(kw, found, ind["hpacked"])[:len(ind["hraw"])]
    cases = [[wrong, "getnames"], [wrong, "extractall_factory"], [wrong, "testzip"], [pw, "extractall_factory"]]
    # (a) as written by py7zr
    crc_opt = [] if ind.get("hcrc") is None else [ind["hcrc"]]
    mres = model.call("checked_header_ok", [4096, crc_opt, list(garbage)])
    res, raw = sandbox_outcomes(a, members, cases)
    if res is None:
        rep.violation("reading the header-encrypted archive with the wrong password took the sandbox down: %r" % raw,
                      {"kind": "header-accept-crash", "archive": a.hex()}, match_keys={"kind": "header-accept-crash"})
        return
    model_accepts = mres[0] == 0
    impl_accepts = res[0][0] in ("empty-archive", "no-bytes")
    rep.count(("header-accept", "as-written"), nontrivial=True)
    rep.extra["header_accept_search"].update(garbage_prefix=garbage[:4].hex(), stored_header_crc=ind.get("hcrc"),
                                             model_accepts=model_accepts, implementation=[r[:2] + r[3:4] for r in res])
    if model_accepts != impl_accepts:
        rep.violation("model and implementation disagree on accepting the header garbage %s...: model %r, implementation %r" % (
            garbage[:8].hex(), mres[:2], res[0][:2]), {"kind": "header-accept-disagree", "archive": a.hex()}, concrete=False)
    if res[3][0] != "delivered-original":
        rep.violation("the archive of the header-accept replay is not readable with the right password: %r" % (res[3][:2],),
                      {"kind": "header-accept-crash", "archive": a.hex()}, match_keys={"kind": "header-accept-unreadable"})
    if impl_accepts:
        rep.violation("encrypted header, WRONG password %r accepted: the unmodified writer (password %r, cycles 19, second RNG draw %s) "
                      "produced an archive that opens without error under the wrong password as an EMPTY archive (getnames() = [], "
                      "extractall delivers nothing, testzip() = None): garbage beginning 01 00 is a valid header and no CRC of the "
                      "plain header stops it; probability 2^-16 per (archive, wrong password)" % (wrong, pw, found.hex()),
                      {"kind": "header-accept", "password": pw, "with": wrong, "chain": chain, "draws": (draw0 + found).hex(),
                       "time": t_now, "members": [[n, d.hex()] for n, d in members], "archive": a.hex()},
                      match_keys={"kind": "header-accept", "shape": "wrong-password-empty-archive", "hmode": 2})
    elif res[0][3].split(":")[0] != "Bad7zFile":
        rep.extra["header_accept_search"]["note"] = "wrong password rejected, but not by the CRC comparison: %s" % res[0][3]
    # (b) the same archive without the CRC record (what a foreign writer may produce): observation, not a verdict on py7zr's
    #     own archives -- the weakness that remains for such archives
    if ind.get("hcrc") is not None:
        af = strip_header_crc(a)
        mres2 = model.call("checked_header_ok", [4096, [], list(garbage)])
        res2, raw2 = sandbox_outcomes(af, members, cases)
        rep.count(("header-accept", "crc-record-cut-out"), nontrivial=True)
        if res2 is None:
            rep.extra["foreign_archive_without_header_crc"] = {"sandbox": str(raw2)[:200]}
        else:
            acc2 = res2[0][0] in ("empty-archive", "no-bytes")
            rep.extra["foreign_archive_without_header_crc"] = {
                "what": "an encoded header WITHOUT the CRC record (not written by py7zr any more): a wrong password whose garbage begins "
                        "01 00 (probability 2^-16) opens the archive as an EMPTY archive without any error",
                "wrong_password_outcomes": [r[:2] for r in res2[:3]], "right_password": res2[3][:2],
                "model_accepts": mres2[0] == 0, "implementation_accepts": acc2}
            if (mres2[0] == 0) != acc2:
                rep.violation("model and implementation disagree on an encoded header without CRC record: model %r, implementation %r" % (
                    mres2[:2], res2[0][:2]), {"kind": "header-accept-disagree", "archive": af.hex()}, concrete=False)
            if res2[3][0] != "delivered-original":
                rep.violation("an archive whose encoded header has no CRC record is not readable with the right password: %r" % (res2[3][:2],),
                              {"kind": "header-nocrc-unreadable", "archive": af.hex()}, match_keys={"kind": "header-nocrc-unreadable"})


# ------------------------------------------------------------------ decisions
def check_decisions(ctx, rep, rng, tier):
    model = ctx["model"]
    if model is None:
        return
    ids = [b"\x00", b"\x21", b"\x03", b"\x03\x01\x01", b"\x03\x03\x01\x03", b"\x04\x01\x08", b"\x04\x02\x02", b"\x04\xf7\x11\x01",
           b"\x03\x04\x01", AES_ID, b"\x06\xf1\x07\x02", b"\x7f", b"\x03\x03\x01\x1b", b"\x04\x01\x09", b"\x04\xf7\x11\x02"]
    n = 0
    for _ in range(400 if tier == "quick" else 4000):
        k = rng.choice([1, 1, 2, 2, 3, 4, 5])
        ms = [rng.choice(ids) for _ in range(k)]
        if rng.random() < 0.5 and AES_ID not in ms:
            ms[0] = AES_ID
        has = rng.random() < 0.5
        coders = [{"method": m, "numinstreams": 1, "numoutstreams": 1,
                   "properties": (b"\x53\x0f" + bytes(16)) if m == AES_ID else None} for m in ms]
        # run the constructor with every decoder factory disabled: reaching one = "passed the checks"

        class Reached(Exception):
            pass
        saved = (pc.SevenZipDecompressor._get_lzma_decompressor, pc.SevenZipDecompressor._get_alternative_decompressor)

        def stop(*a, **kw):
            raise Reached()
        try:
            pc.SevenZipDecompressor._get_lzma_decompressor = stop
            pc.SevenZipDecompressor._get_alternative_decompressor = stop
            try:
                pc.SevenZipDecompressor(coders, 32, [32] * k, None, "pw" if has else None)
                out = "Ok"
            except Reached:
                out = "Ok"
            except PasswordRequired:
                out = "Password"
            except Exception as e:  # noqa
                out = arch.exc_class(e)
        finally:
            pc.SevenZipDecompressor._get_lzma_decompressor, pc.SevenZipDecompressor._get_alternative_decompressor = saved
        r = model.call("sz_decompressor_precheck", [[list(m) for m in ms], 1 if has else 0])
        mo = "Ok" if r[0] == 0 else ERRNAME[r[1]]
        rep.count(("precheck", tuple(ms), has))
        n += 1
        if mo != out:
            rep.violation("SevenZipDecompressor.__init__ on methods %r password %s: implementation %s, model %s" % (
                [m.hex() for m in ms], "given" if has else "None", out, mo),
                {"kind": "precheck", "methods": [m.hex() for m in ms], "has_password": has}, concrete=False)
            return
        if AES_ID in ms and not has and out not in ("Password", "Unsupported"):
            rep.violation("AES coder present, no password, and the constructor does not refuse: %s" % out,
                          {"kind": "precheck", "methods": [m.hex() for m in ms], "has_password": has},
                          match_keys={"kind": "precheck-not-refused"})
            return
    # extract_members vs a CRC walk
    for _ in range(200):
        sizes = [rng.randrange(1, 40) for _ in range(rng.randrange(1, 5))]
        good = [rng.randbytes(s) for s in sizes]
        stream = b"".join(good) + bytes(rng.randrange(0, 16))
        crcs = [zlib.crc32(g) for g in good]
        mode = rng.choice(["ok", "flip", "short"])
        if mode == "flip":
            i = rng.randrange(len(stream) - 16) if len(stream) > 16 else 0
            stream = stream[:i] + bytes([stream[i] ^ 0x40]) + stream[i + 1:]
        elif mode == "short":
            stream = stream[:rng.randrange(0, sum(sizes))]
        r = model.call("extract_members", [list(stream), sizes, crcs])
        want = None
        pos = 0
        outl = []
        for s, c in zip(sizes, crcs):
            if len(stream) - pos < s:
                want = "Bad7z"    # Worker.decompress: Bad7zFile after MAX_STALLED_ROUNDS rounds without output
                break
            g = stream[pos:pos + s]
            if zlib.crc32(g) != c:
                want = "Crc"
                break
            outl.append(g)
            pos += s
        got = "Ok" if r[0] == 0 else ERRNAME[r[1]]
        rep.count(("extract_members", mode, tuple(sizes)))
        if (want or "Ok") != got or (got == "Ok" and [bytes(x) for x in r[1]] != outl):
            rep.violation("Enc.extract_members disagrees with a direct CRC walk", {"kind": "extract-members-model"}, concrete=False)
            return
    rep.extra["decision_cases"] = n


def check_default_filters(ctx, rep, rng, tier):
    """a password given WITHOUT explicit filters (the library picks the chain): the result must be encrypted all the same,
    for every password including the empty one, with and without header encryption"""
    AES_ID = b"\x06\xf1\x07\x01"
    sets = member_sets(rng, "quick")
    for pi, pw in enumerate(PASSWORDS):
        for hmode in (1, 2):
            members = sets[(pi + hmode) % len(sets)]
            bio = io.BytesIO()
            kw = {"header_encryption": True} if hmode == 2 else {}
            with py7zr.SevenZipFile(bio, "w", password=pw, **kw) as z:
                for n, d in members[:1]:
                    z.writestr(d, n)
            if len(members) > 1:
                # the rest in an append session, again with the password and without explicit filters
                bio.seek(0)
                with py7zr.SevenZipFile(bio, "a", password=pw, **kw) as z:
                    for n, d in members[1:]:
                        z.writestr(d, n)
            a = bio.getvalue()
            rep.count(("default-filters", pw, hmode, tuple(n for n, _ in members)), nontrivial=True)
            rep.dist("default_filters_password", "empty" if pw == "" else "non-empty")
            problems = []
            try:
                with py7zr.SevenZipFile(io.BytesIO(a), "r", password=pw) as z:
                    fs = z.header.main_streams.unpackinfo.folders
                    if not all(any(c["method"] == AES_ID for c in f.coders) for f in fs):
                        problems.append("a folder of the archive has no 7zAES coder: %r" % [[c["method"].hex() for c in f.coders] for f in fs])
            except Exception as e:  # noqa
                problems.append("the archive cannot be opened with its own password: %s" % type(e).__name__)
            try:
                with py7zr.SevenZipFile(io.BytesIO(a), "r") as z:
                    fac = arch.Collect()
                    z.extractall(factory=fac)
                    got = dict(fac.as_list())
                if any(got.get(n) == d for n, d in members if d):
                    problems.append("opened WITHOUT a password it delivers the members' contents")
                else:
                    problems.append("opened without a password extraction returns normally")
            except Exception:  # noqa  (PasswordRequired or any other refusal)
                pass
            for n, d in members:
                if len(d) >= 24 and d[:24] in a:
                    problems.append("24 plaintext bytes of %r are stored in the clear" % n)
                    break
            if problems:
                rep.violation("password %r given without filters, header mode %d: %s" % (pw, hmode, "; ".join(problems)),
                              {"kind": "default-filters", "password": pw, "hmode": hmode, "archive": a.hex(),
                               "members": [[n, d.hex()] for n, d in members]},
                              match_keys={"kind": "default-filters", "empty_password": pw == ""})
                return


def run(ctx):
    rep, tier = ctx["rep"], ctx["tier"]
    rng = random.Random(ctx["seed"])
    rep.cov["rule"] = ("every chain of arch.CHAINS ending in 7zAES (AES alone, Copy+AES, 4 compressors + AES) x header raw/encoded/"
                       "encrypted (constructor flag and setter) x passwords ASCII/BMP/astral/empty x member sets with recognisable "
                       "plaintext >= 24 bytes and names >= 6 characters; every reading call x absent/right/wrong (different, prefix, "
                       "extended, case-changed, empty) passwords; non-trivial = a distinct (chain, header mode, password, members, call); "
                       "wrong passwords at scale counted per password tried")
    if ctx["model"] is None:
        ctx["broken"].append("extracted model not available: correspondence and independent reader did not run")
    for part in (check_kdf, check_props, check_decisions, check_toy_writer, check_archives, check_default_filters, check_fresh, check_outcomes,
                 check_header_accept, check_many_wrong):
        t0 = time.time()
        try:
            part(ctx, rep, rng, tier)
        except Exception as e:  # noqa
            import traceback
            rep.violation("%s raised %s: %s" % (part.__name__, type(e).__name__, e),
                          {"kind": "exception", "part": part.__name__, "trace": traceback.format_exc()[-1500:]},
                          match_keys={"kind": "exception", "part": part.__name__})
        rep.extra.setdefault("part_seconds", {})[part.__name__] = round(time.time() - t0, 1)


def replay(d):
    r = d["replay"]
    kind = r.get("kind")
    if kind in ("outcome", "header-accept"):
        a = bytes.fromhex(r["archive"])
        members = [(n, bytes.fromhex(x)) for n, x in r["members"]]
        if kind == "header-accept":
            # rebuild with the unmodified writer from the recorded RNG draws, then read with the wrong password
            rec = RecRng(stream=bytes.fromhex(r["draws"]))
            saved = ph._time.time
            try:
                ph._time.time = lambda: r["time"]
                a2 = build(members, r["chain"], r["password"], 2, rng=rec)
            finally:
                ph._time.time = saved
            print("writer reproduces the recorded archive:", a2 == a)
            a = a2
            ops = ["getnames", "extractall_factory"]
            bad = 0
            for op in ops:
                res, raw = sandbox_outcomes(a, members, [[r["with"], op]])
                print("password %r, %s ->" % (r["with"], op), res[0][:2] if res else raw)
                if res is None or res[0][0] not in ("error", "refused"):
                    bad = 1
            return bad
        res, raw = sandbox_outcomes(a, members, [[r["with"], r["op"]]], limit=5.0)
        print("reading with %r, %s ->" % (r["with"], r["op"]), res[0][:2] if res else raw)
        if res is None:
            return 1
        hm = r.get("hmode", 1)
        pk = "absent" if r["with"] is None else ("right" if r["with"] == r["password"] else "wrong")
        return 0 if allowed(pk, hm, r["op"], res[0][0]) else 1
    if kind == "archive":
        import vlib
        model = vlib.Model()
        try:
            members = [(n, bytes.fromhex(x)) for n, x in r["members"]]
            rec = RecRng()
            a = build(members, r["chain"], r["password"], r["hmode"], rng=rec, blocksize=r.get("blocksize"), via_setter=r.get("setter", False))
            lk = leak_search(None, a, members, r["chain"], r["hmode"], None)
            print("leak search:", lk)
            try:
                ind = indep_read(model, a, r["password"])
                plain, iv, _ = indep_decode_folder(model, ind["folders"][0], ind["packs"][0], r["password"])
                ok = plain == b"".join(x for _, x in members) and iv == rec.draws[0]
                print("independent decryption gives the contents, IV = first draw:", ok)
            except Exception as e:  # noqa
                print("independent reader:", type(e).__name__, e)
                ok = False
            return 0 if (ok and not lk) else 1
        finally:
            model.close()
    if kind == "kdf":
        pw, cycles, salt = r["password"], r["cycles"], bytes.fromhex(r["salt"])
        pwb = pw.encode("utf-16-le")
        k1 = ph._calculate_key1(pwb, cycles, salt, "sha256")
        k3 = ph._calculate_key3(pwb, cycles, salt, "sha256")
        ki = kdf_indep(pw, cycles, salt)
        print("key1", k1.hex(), "key3", k3.hex(), "independent", ki.hex())
        return 0 if k1 == k3 == ki else 1
    if kind in ("fresh", "append"):
        members = [(n, bytes.fromhex(x)) for n, x in r.get("members", [])] or [("member-one.txt", b"x" * 40)]
        a1 = build(members, r["chain"], "same-password", r["hmode"])
        a2 = build(members, r["chain"], "same-password", r["hmode"])
        shared = [i for i in range(32, min(len(a1), len(a2)) - 16, 16) if a1[i:i + 16] == a2[i:i + 16]]
        print("two archives of the same input share 16-byte blocks at offsets", shared[:8])
        return 1 if shared else 0
    import json
    print(json.dumps(r, default=str)[:2000])
    return 2
