#!/bin/sh
# Re-check every compiled property file and everything it depends on with Coq's independent checker and print the
# axioms the whole development relies on.  Takes about two minutes; run after `tools/verif.py setup`.
cd "$(dirname "$0")/../coq" || exit 2
exec timeout 3000 coqchk -silent -o -Q theories P7 -Q gen P7gen -Q props P7props \
  $(ls props/*.vo | sed 's#props/\(.*\)\.vo#P7props.\1#')
