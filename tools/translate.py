#!/usr/bin/env python3
"""Fail-closed translator from a small subset of Python (ast) to Gallina.

Usage: translate.py <repo> <outdir>
Regenerates <outdir>/*.v from the *current* text of <repo>/py7zr/*.py.  Every
function on the whitelist below is translated; a construct outside the supported
subset raises Refused, the function is then emitted as a comment carrying the
reason, and the name is listed in <outdir>/translate_report.json under "refused"
(the checks that depend on it then report the property as no longer shown).

Target vocabulary: theories/PyPrims.v.  Conventions:
  reader functions  f(file, a..)   ->  f (inp : bytes) a.. : res (T * bytes)
  writer functions  f(file, a..)   ->  f a.. : res bytes       (bytes written)
  pure functions    f(a..)         ->  f a.. : res T
Python ints -> Z, bytes/bytearray/list -> list, bool -> bool.

Second wave (one generated file per source area, table WAVE2 below):
  str -> list Z (code points); pathlib.Path -> Path.v's ppath (raw segments) with the pathlib
  operations mapped to the model primitives of theories/Path.v; Optional[int] -> option Z;
  `return` inside a `for` (the loop state carries `option <return type>` and the loop breaks);
  truthiness of str/list/int in `if`; module-level constants are inlined by value;
  methods that only read one property of self (kind 'method': the property is an explicit parameter,
  e.g. ArchiveFile's attribute word) or thread an object state (kind 'objmethod': AES buffer + abstract
  cipher, Section variables enc/dec); `while` on explicit fuel (while_m, Err EFuel); `x is None` on an
  Optional -> match; `return a if c else b`; `raise E(..)` -> Err EOther; the stat module (PyStat.v),
  two regular-expression families, int(str of digits) and dict literals (PyRe.v), str methods (PyStr.v).
  A name like `stat`, `re`, `os`, `pathlib`, `zlib`, `posixpath` is taken for the standard module only
  if the source module binds it by a plain `import` and nowhere else.
A refused second-wave function is emitted as a placeholder returning `Err EOther` (so that the
other generated functions still build); the refusal is in translate_report.json and every check
that lists the function in GEN_DEPS reports its property as no longer shown.
"""
import ast
import hashlib
import json
import os
import sys
import textwrap


class Refused(Exception):
    pass


# name -> (source file, qualified name, kind, arg types, return type)
# kind: 'reader' | 'writer' | 'pure';  types: int, bytes, bool, boollist, tuple:<...>
WHITELIST = {
    "bits_to_bytes": ("archiveinfo.py", "bits_to_bytes", "pure", {"bit_length": "int"}, "int"),
    "write_real_uint64": ("archiveinfo.py", "write_real_uint64", "writer", {"value": "int"}, None),
    "write_uint32": ("archiveinfo.py", "write_uint32", "writer", {"value": "int"}, None),
    "read_real_uint64": ("archiveinfo.py", "read_real_uint64", "reader", {}, "tuple:int,bytes"),
    "read_uint32": ("archiveinfo.py", "read_uint32", "reader", {}, "tuple:int,bytes"),
    "write_uint64": ("archiveinfo.py", "write_uint64", "writer", {"value": "int"}, None),
    "read_uint64": ("archiveinfo.py", "read_uint64", "reader", {}, "int"),
    "write_boolean": ("archiveinfo.py", "write_boolean", "writer",
                      {"booleans": "boollist", "all_defined": "bool"}, None),
    "read_boolean": ("archiveinfo.py", "read_boolean", "reader",
                     {"count": "int", "checkall": "bool"}, "boollist"),
}
ORDER = ["bits_to_bytes", "write_real_uint64", "write_uint32", "read_real_uint64", "read_uint32",
         "write_uint64", "read_uint64", "write_boolean", "read_boolean"]

import re as _re

COQ_TY = {"int": "Z", "bytes": "bytes", "bool": "bool", "boollist": "list bool",
          # second wave
          "str": "list Z",            # Python str: the list of its code points
          "path": "ppath",            # pathlib.Path object: Path.v's model (raw segments)
          "list:str": "list (list Z)",
          "optint": "option Z",       # Optional[int]
          "char": "Z",                # a one-character str (the element of iterating over a str): its code point
          "optstr": "option (list Z)",
          "optpath": "option ppath",  # Optional[pathlib.Path]
          "filebuf": "bytes",
          "stage": "stage",           # an element of SevenZipDecompressor.chain: abstract (Section variable of gen/DecompChain.v)
          "wbuf": "bytes",            # a local io.BytesIO() that is only written to: what has been written         # io.BytesIO(data) read sequentially: what is left of it
          "iter:bool": "list bool",
          "optbool": "option bool",   # a dict entry that holds a bool when present (None: the key is absent)
          "match2": "(list Z * list Z)",            # re.Match of a pattern with two groups that always take part
          "optmatch2": "option (list Z * list Z)",  # what pattern.match() returns
          "optmatch0": "option unit",               # a match object of which only the truth value is used
          "list:int": "list Z",
          "optbytes": "option bytes",
          "optlist:int": "option (list Z)",
          "iter:int": "list Z",        # an iterator over a list of ints: what is left of it
          "set:int": "list Z",         # a set of ints, only used for membership tests
          "buffer": "bytes",          # py7zr.io.Buffer: the bytes of its view
          "cipher": "C",              # abstract cipher state (Section variable of the generated file)
          "unit": "unit"}


def coq_ty(t):
    if t.startswith("tuple:"):
        return "(" + " * ".join(coq_ty(x) for x in t[6:].split(",")) + ")"
    if t in COQ_TY:
        return COQ_TY[t]
    if t.startswith("list:"):
        inner = coq_ty(t[5:])
        return "list %s" % (inner if " " not in inner else "(%s)" % inner)
    if t in CLASSES3:
        return t
    if t.startswith("key:"):      # a dict entry that may be absent: None = no such key
        inner = coq_ty(t[4:])
        return "option %s" % (inner if " " not in inner else "(%s)" % inner)
    if t.startswith("opt:") and t[4:] in CLASSES3:    # Optional[C]: an attribute that holds an object of a record class or None
        return "option %s" % t[4:]
    return COQ_TY[t]


def str_lit(v):
    """a Python str constant as the list of its code points"""
    return "[" + "; ".join(str(ord(c)) for c in v) + "]"


# constants of other modules the translated code refers to, with the value the translator assumes
# (each is compared with CPython by tools/harness/prims.py on every run)
EXTERNAL_CONSTANTS = {
    "posixpath.sep": "/",
    "os.sep": "/",
}
# re.match(<pattern>, s) with a constant pattern and no flags -> PyRe.v matcher returning option unit (only the
# truth value of the match object is available); compared with CPython's re by tools/harness/prims.py
RE_MATCH_PATTERNS = {"^[a-zA-Z]:": "re_match_alpha_colon"}
# functions of other modules with a PyStr.v definition: dotted name -> (Gallina function, argument types, result type)
EXTERNAL_FUNCTIONS = {"os.path.isabs": ("py_posix_isabs", ["str"], "bool"),
                      "os.path.normcase": ("py_posix_normcase", ["str"], "str")}     # posixpath.normcase: os.fspath(s)


def is_seq(t):
    return t in ("bytes", "boollist", "str", "path") or t.startswith("list:")


# ---------------------------------------------------------------------------------------------
# second wave: name -> spec; "out" is the generated file (coq/gen/<out>.v)
WAVE2 = {
    "remove_relative_path_marker": dict(file="helpers.py", qual="remove_relative_path_marker", kind="pure",
                                        args={"path": "str"}, ret="str", out="HelpersPath"),
    "remove_trailing_slash": dict(file="helpers.py", qual="remove_trailing_slash", kind="pure",
                                  args={"path": "str"}, ret="str", out="HelpersPath"),
    "canonical_path": dict(file="helpers.py", qual="canonical_path", kind="pure",
                           args={"target": "path"}, ret="path", out="HelpersPath"),
    "check_archive_path": dict(file="helpers.py", qual="check_archive_path", kind="pure",
                               args={"arcname": "str"}, ret="bool", out="HelpersPath"),
}
# stage 8: `*other` of is_relative_to stands for exactly one path (every call in the package passes one)
WAVE2["is_relative_to"] = dict(file="helpers.py", qual="is_relative_to", kind="pure", args={"my": "path", "other": "path"},
                               ret="bool", out="HelpersPath2", vararg_one="other")
WAVE2["get_sanitized_output_path"] = dict(file="helpers.py", qual="get_sanitized_output_path", kind="pure",
                                          args={"fname": "str", "path": "optpath"}, ret="path", out="HelpersPath2", cwd=True)
WAVE2["is_real_path_inside"] = dict(file="helpers.py", qual="is_real_path_inside", kind="pure", args={"target": "opaque", "real_root": "str"},
                                    ret="bool", out="HelpersPath2", realpath_of="target")
WAVE2["is_path_valid"] = dict(file="helpers.py", qual="is_path_valid", kind="pure", args={"target": "path", "parent": "optpath"},
                              ret="bool", out="HelpersPath2", cwd=True)
for _n, _c, _r in (("_test_attribute", "test_attribute", "bool"), ("_get_unix_extension", "get_unix_extension", "optint"),
                   ("archivable", "archivable", "bool"), ("is_directory", "is_directory", "bool"),
                   ("readonly", "readonly", "bool"), ("is_symlink", "is_symlink", "bool"),
                   ("is_junction", "is_junction", "bool"), ("is_socket", "is_socket", "bool"),
                   ("posix_mode", "posix_mode", "optint"), ("st_fmt", "st_fmt", "optint")):
    # methods of py7zr.ArchiveFile that only look at self._file_info["attributes"]: the attribute word is the
    # explicit parameter `attrs : option Z` (None = the entry has no attributes)
    WAVE2["ArchiveFile." + _n] = dict(file="py7zr.py", qual="ArchiveFile." + _n, kind="method", cls="ArchiveFile",
                                      coqname=_c, selfargs={"attrs": "optint"}, self_props={"attributes": "attrs"},
                                      args=({"target_bit": "int"} if _n == "_test_attribute" else {}), ret=_r,
                                      out="AttrDecoders")
# is_directory may also read self._file_info["emptystream"] / ["emptyfile"] (bool when present): each one the source reads
# becomes one more explicit parameter (option bool, None = key absent), in this order, after attrs
WAVE2["ArchiveFile.is_directory"]["opt_self_props"] = {"emptystream": ("emptystream", "optbool"), "emptyfile": ("emptyfile", "optbool")}
for _n, _c, _r in (("_check_volumesize_valid", "check_volumesize_valid", "bool"),
                   ("_volumesize_unitconv", "volumesize_unitconv", "int")):
    # methods of cli.Cli that only read the constants self.unit_pattern (compiled in __init__) and Cli.dunits
    WAVE2["Cli." + _n] = dict(file="cli.py", qual="Cli." + _n, kind="method", cls="Cli", coqname=_c, selfargs={},
                              self_props={}, args={"size": "str"}, ret=_r, out="CliVol")
for _q, _args in (("AESCompressor.compress", {"data": "bytes"}), ("AESCompressor.flush", {}),
                   ("AESDecompressor.decompress", {"data": "bytes", "max_length": "int"})):
    # the residue-buffer arithmetic around an abstract cipher.  Object state: self.buf (py7zr.io.Buffer, identified with
    # the bytes of its view: add = append, set = replace, reset = empty, len = length of the view) and self.cipher (an
    # abstract state C threaded through enc / dec : C -> bytes -> res (C * bytes), the Section variables of the generated
    # file: self.cipher.encrypt / decrypt may raise).  A method returns (result, (buf, cipher)) = the value and the new state.
    WAVE2[_q] = dict(file="compressor.py", qual=_q, kind="objmethod", cls=_q.split(".")[0], coqname=_q.replace(".", "_"),
                     state={"buf": ("self_buf", "buffer"), "cipher": ("self_cipher", "cipher")},
                     cipher_ops={"encrypt": "enc", "decrypt": "dec"}, args=_args, ret="bytes", out="AesBuf")
# the block loop of helpers.calculate_crc32 over an abstract zlib.crc32 (Section variable zcrc32 : data -> value -> value);
# the `while` runs on explicit fuel (first parameter; Err EFuel when it runs out)
WAVE2["calculate_crc32"] = dict(file="helpers.py", qual="calculate_crc32", kind="pure", fuel=True,
                                externs={"zlib.crc32": ("zcrc32", ["bytes", "int"], "int")},
                                args={"data": "bytes", "value": "int", "blocksize": "int"}, ret="int", out="HelpersCrc")
# SevenZipFile._sanitize_archive_arcname (self is not used): Err = AbsolutePathError
WAVE2["SevenZipFile._sanitize_archive_arcname"] = dict(
    file="py7zr.py", qual="SevenZipFile._sanitize_archive_arcname", kind="method", cls="SevenZipFile",
    coqname="sanitize_archive_arcname", selfargs={}, self_props={}, args={"arcname": "str"}, ret="str", out="ArcName")
# ---------------------------------------------------------------------------------------------
# third wave: the header record readers / writers of archiveinfo.py.  An object is a Gallina Record with one field
# per attribute (CLASSES3: class -> field -> type, in record order); `self.x` is the local variable self_x, initialised
# from the record when the method is entered; a reader method (kind 'objreader') is
#   C_m (self : C) (inp : bytes) a.. : res (T * bytes)     (`return self` returns the rebuilt record)
# a writer method (kind 'objwriter') is  C_m (self : C) a.. : res (C * bytes)  (the object after the call, bytes written).
# kind 'init': C.__init__ -> the constant C_init : C; kind 'retrieve': `return cls()._read(file)`.
CLASSES3 = {
    "PackInfo": {"packpos": "int", "numstreams": "int", "packsizes": "list:int", "packpositions": "list:int",
                 "crcs": "list:int", "digestdefined": "boollist", "enable_digests": "bool"},
    # a coder is a dict with exactly these keys (built key by key in Folder._read)
    "Coder": {"method": "bytes", "numinstreams": "int", "numoutstreams": "int", "properties": "optbytes"},
    "Bond": {"incoder": "int", "outcoder": "int"},
    "Folder": {"unpacksizes": "list:int", "coders": "list:Coder", "bindpairs": "list:Bond", "packed_indices": "list:int",
               "solid": "bool", "digestdefined": "bool", "crc": "optint"},
    "UnpackInfo": {"numfolders": "int", "folders": "list:Folder", "datastreamidx": "optint"},
    "SubstreamsInfo": {"digests": "list:int", "digestsdefined": "boollist", "unpacksizes": "optlist:int",
                       "num_unpackstreams_folders": "list:int"},
}
CLASSES3["StreamsInfo"] = {"packinfo": "opt:PackInfo", "unpackinfo": "opt:UnpackInfo", "substreamsinfo": "opt:SubstreamsInfo"}
# an entry of FilesInfo.files: a dict in which only "emptystream" is always there (key:T = the key may be absent)
CLASSES3["FileEntry"] = {"emptystream": "bool", "emptyfile": "key:bool", "filename": "key:str", "creationtime": "key:optint",
                         "lastaccesstime": "key:optint", "lastwritetime": "key:optint", "attributes": "key:optint"}
CLASSES3["FilesInfo"] = {"files": "list:FileEntry", "emptyfiles": "boollist"}
# compressor.SevenZipDecompressor: the attributes _decompress / _read_data / decompress touch
CLASSES3["SevenZipDecompressor"] = {"chain": "list:stage", "_unpacked": "list:int", "_unpacksizes": "list:int", "consumed": "int",
                                    "input_size": "int", "block_size": "int", "_unused": "bytes", "_buf": "bytes", "_pos": "int",
                                    "digest": "int", "_delivered": "int"}
# compressor.SevenZipCompressor: the attributes compress / flush touch
CLASSES3["SevenZipCompressor"] = {"chain": "list:stage", "_unpacksizes": "list:int", "digest": "int", "packsize": "int", "_block_size": "int"}
# HeaderStreamsInfo(StreamsInfo): the same three attributes (its __init__ fills two of them; it is not translated)
CLASSES3["HeaderStreamsInfo"] = {"packinfo": "opt:PackInfo", "unpackinfo": "opt:UnpackInfo", "substreamsinfo": "opt:SubstreamsInfo"}
CLASSES3["SignatureHeader"] = {"version": "tuple:bytes,bytes", "startheadercrc": "int", "nextheaderofs": "int",
                               "nextheadersize": "int", "nextheadercrc": "int"}
DICT_RECORDS = ("Coder", "FileEntry")                  # records that are Python dicts with string keys
CTOR_RECORDS = {"Bond": ["incoder", "outcoder"]}   # classes built as C(a, b): __init__(self, a, b) stores its arguments
# attributes __init__ sets to None that no translated method touches (compressor objects, password, ...)
IGNORED_ATTRS = {"Folder": ["decompressor", "compressor", "files", "password"], "FilesInfo": ["antifiles"]}
# exception classes -> the err constructor of Prelude.v the model uses for them (anything else: EOther)
EXC_ERR = {"Bad7zFile": "EBad7z", "UnsupportedCompressionMethodError": "EUnsupported", "EOFError": "EEof"}
# module-level objects of other modules whose attributes are constants: local name -> (module file, instance name)
CONST_OBJECTS = {"PROPERTY": ("properties.py", "PROPERTY")}

WAVE2["read_crcs"] = dict(file="archiveinfo.py", qual="read_crcs", kind="reader", args={"count": "int"}, ret="list:int",
                          out="ArchiveinfoRecords")
WAVE2["write_crcs"] = dict(file="archiveinfo.py", qual="write_crcs", kind="writer", args={"crcs": "list:int"}, ret=None,
                           out="ArchiveinfoRecords")
WAVE2["read_byte"] = dict(file="archiveinfo.py", qual="read_byte", kind="reader", args={}, ret="int", out="ArchiveinfoRecords")
WAVE2["write_bytes"] = dict(file="archiveinfo.py", qual="write_bytes", kind="writer", args={"data": "bytes"}, ret=None,
                            out="ArchiveinfoRecords")
WAVE2["write_byte"] = dict(file="archiveinfo.py", qual="write_byte", kind="writer", args={"data": "bytes"}, ret=None,
                           out="ArchiveinfoRecords")
WAVE2["PackInfo.__init__"] = dict(file="archiveinfo.py", qual="PackInfo.__init__", kind="init", cls="PackInfo",
                                  coqname="PackInfo_init", args={}, ret="PackInfo", out="ArchiveinfoRecords")
WAVE2["PackInfo._read"] = dict(file="archiveinfo.py", qual="PackInfo._read", kind="objreader", cls="PackInfo",
                               coqname="PackInfo_read", args={}, ret="self", out="ArchiveinfoRecords")
WAVE2["PackInfo.retrieve"] = dict(file="archiveinfo.py", qual="PackInfo.retrieve", kind="retrieve", cls="PackInfo",
                                  coqname="PackInfo_retrieve", args={}, ret="PackInfo", out="ArchiveinfoRecords")
WAVE2["PackInfo.write"] = dict(file="archiveinfo.py", qual="PackInfo.write", kind="objwriter", cls="PackInfo",
                               coqname="PackInfo_write", args={}, ret=None, out="ArchiveinfoRecords")

# stage 2: Folder, UnpackInfo
def _rec3(name, kind, cls, coqname, args=None, ret=None, **kw):
    WAVE2[name] = dict(file="archiveinfo.py", qual=name, kind=kind, cls=cls, coqname=coqname, args=args or {}, ret=ret,
                       out="ArchiveinfoRecords", **kw)


_rec3("Coder", "record", "Coder", "Coder")
_rec3("Bond.__init__", "ctor", "Bond", "Bond")
_rec3("Folder.__init__", "init", "Folder", "Folder_init", ret="Folder")
_rec3("Folder.is_simple", "method", "Folder", "Folder_is_simple", args={"coder": "Coder"}, ret="bool", selfargs={}, self_props={})
_rec3("Folder._read", "objreader", "Folder", "Folder_read", ret="self")
_rec3("Folder.retrieve", "retrieve", "Folder", "Folder_retrieve", ret="Folder")
_rec3("Folder.write", "objwriter", "Folder", "Folder_write")
_rec3("UnpackInfo.__init__", "init", "UnpackInfo", "UnpackInfo_init", ret="UnpackInfo")
_rec3("UnpackInfo._retrieve_coders_info", "objreader", "UnpackInfo", "UnpackInfo_retrieve_coders_info", ret="self")
# the branch for an external folder stream (file.tell / file.seek: "there is no live example") is not translated
_rec3("UnpackInfo._read", "objreader", "UnpackInfo", "UnpackInfo_read", ret="self", partial=["file method tell", "file method seek"])
_rec3("UnpackInfo.retrieve", "retrieve", "UnpackInfo", "UnpackInfo_retrieve", ret="UnpackInfo")
_rec3("UnpackInfo.write", "objwriter", "UnpackInfo", "UnpackInfo_write", args={"with_crcs": "bool"})
# stage 3: SubstreamsInfo (and the Folder methods it calls)
_rec3("Folder._find_out_bin_pair", "objfun", "Folder", "Folder_find_out_bin_pair", args={"index": "int"}, ret="int")
_rec3("Folder.get_unpack_size", "objfun", "Folder", "Folder_get_unpack_size", ret="int")
_rec3("SubstreamsInfo.__init__", "init", "SubstreamsInfo", "SubstreamsInfo_init", ret="SubstreamsInfo")
_rec3("SubstreamsInfo._inherit_folder_digests", "objproc", "SubstreamsInfo", "SubstreamsInfo_inherit_folder_digests",
      args={"numfolders": "int", "folders": "list:Folder"}, ret="self")
_rec3("SubstreamsInfo._read", "objreader", "SubstreamsInfo", "SubstreamsInfo_read",
      args={"numfolders": "int", "folders": "list:Folder"}, ret="self")
_rec3("SubstreamsInfo.retrieve", "retrieve", "SubstreamsInfo", "SubstreamsInfo_retrieve",
      args={"numfolders": "int", "folders": "list:Folder"}, ret="SubstreamsInfo")
_rec3("SubstreamsInfo.default", "classinit", "SubstreamsInfo", "SubstreamsInfo_default", args={"folders": "list:Folder"}, ret="self")
_rec3("SubstreamsInfo.write", "objwriter", "SubstreamsInfo", "SubstreamsInfo_write")

# stage 4: StreamsInfo
_rec3("StreamsInfo.__init__", "init", "StreamsInfo", "StreamsInfo_init", ret="StreamsInfo")
_rec3("StreamsInfo.read", "objreader", "StreamsInfo", "StreamsInfo_read", ret="self")
_rec3("StreamsInfo.retrieve", "retrieve", "StreamsInfo", "StreamsInfo_retrieve", ret="StreamsInfo", reader="read")
_rec3("StreamsInfo.write", "objwriter", "StreamsInfo", "StreamsInfo_write")
# stage 5: names (UTF-16LE), then the FilesInfo pieces
WAVE2["read_utf16"] = dict(file="archiveinfo.py", qual="read_utf16", kind="reader", args={}, ret="str", out="ArchiveinfoRecords")
WAVE2["write_utf16"] = dict(file="archiveinfo.py", qual="write_utf16", kind="writer", args={"val": "str"}, ret=None,
                            out="ArchiveinfoRecords")
_rec3("FileEntry", "record", "FileEntry", "FileEntry")
_rec3("FilesInfo.__init__", "init", "FilesInfo", "FilesInfo_init", ret="FilesInfo")
_rec3("FilesInfo._read_name", "objreader", "FilesInfo", "FilesInfo_read_name", ret="self")
_rec3("FilesInfo._read_attributes", "objreader", "FilesInfo", "FilesInfo_read_attributes", args={"defined": "boollist"}, ret="self")
# methods that take the name of a dict key: one generated function per key the class passes (the parameter is replaced by the constant)
for _key in ("creationtime", "lastaccesstime", "lastwritetime"):
    _rec3("FilesInfo._read_times[%s]" % _key, "objreader", "FilesInfo", "FilesInfo_read_times_" + _key, ret="self",
          subst={"name": _key})
    WAVE2["FilesInfo._read_times[%s]" % _key]["qual"] = "FilesInfo._read_times"
# the branches for names / attributes kept outside the header (fp.tell / fp.seek(x, 0): "no-cover") and START_POS
# (_read_start_pos compares bytes with an int: it always fails) are not translated
_rec3("FilesInfo._read", "objreader", "FilesInfo", "FilesInfo_read", ret="self", fuel=True,
      partial=["file method tell", "file method seek", "method self._read_start_pos"])
_rec3("FilesInfo.retrieve", "retrieve", "FilesInfo", "FilesInfo_retrieve", ret="FilesInfo")
_rec3("FilesInfo._are_there", "pure", "FilesInfo", "FilesInfo_are_there", args={"vector": "boollist"}, ret="bool", static=True)
_rec3("FilesInfo._write_names", "objwriter", "FilesInfo", "FilesInfo_write_names", locals={"names": "list:str"})
_rec3("FilesInfo._write_attributes", "objwriter", "FilesInfo", "FilesInfo_write_attributes")
for _key in ("creationtime", "lastaccesstime", "lastwritetime"):
    _rec3("FilesInfo._write_times[%s]" % _key, "objwriter", "FilesInfo", "FilesInfo_write_times_" + _key, args={"propid": "bytes"},
          subst={"name": _key})
    WAVE2["FilesInfo._write_times[%s]" % _key]["qual"] = "FilesInfo._write_times"
# FilesInfo.write pads to a multiple of 4 from file.tell(): the position at entry is the explicit parameter pos0
_rec3("FilesInfo.write", "objwriter", "FilesInfo", "FilesInfo_write", tell=True, locals={"emptystreams": "boollist"})
# stage 7: SevenZipDecompressor (record of the attributes the three methods touch; __init__ is not translated)
def _dec(name, kind, coqname, **kw):
    WAVE2[name] = dict(file="compressor.py", qual=name, kind=kind, cls="SevenZipDecompressor", coqname=coqname, out="DecompChain",
                       noinit=True, **dict({"args": {}, "ret": None}, **kw))


_dec("SevenZipDecompressor", "record", "SevenZipDecompressor")
_dec("SevenZipDecompressor._decompress", "objproc", "SevenZipDecompressor_decompress_chain", args={"data": "bytes", "max_length": "int"},
     ret="bytes", retself=True)
_dec("SevenZipDecompressor._read_data", "objreader", "SevenZipDecompressor_read_data", ret="bytes", retself=True, short_reads=True)
_dec("SevenZipDecompressor.decompress", "objreader", "SevenZipDecompressor_decompress", args={"max_length": "int"}, ret="bytes",
     retself=True, short_reads=True, fuel=True)
# stage 9: SevenZipCompressor.compress(fd, fp, crc) / flush(fp): fd is read block by block (it may return short reads: the read
# schedule `sched`), what fp.write receives is collected in `out`; the elements of self.chain are abstract (cstep / cflush)
def _comp(name, kind, coqname, **kw):
    WAVE2[name] = dict(file="compressor.py", qual=name, kind=kind, cls="SevenZipCompressor", coqname=coqname, out="CompChain",
                       noinit=True, **dict({"args": {}, "ret": None}, **kw))


_comp("SevenZipCompressor", "record", "SevenZipCompressor")
_comp("SevenZipCompressor.compress", "objreader", "SevenZipCompressor_compress", args={"crc": "int"}, ret="tuple:int,int,int",
      retself=True, sched=True, outfile=True, fuel=True)
_comp("SevenZipCompressor.flush", "objproc", "SevenZipCompressor_flush", ret="int", retself=True, outfile=True, fuel=True,
      locals={"data": "optbytes"})
# the descriptor of an encoded header
_rec3("HeaderStreamsInfo", "record", "HeaderStreamsInfo", "HeaderStreamsInfo")
_rec3("HeaderStreamsInfo.write", "objwriter", "HeaderStreamsInfo", "HeaderStreamsInfo_write", init_of="StreamsInfo")
# stage 4, part 2: SignatureHeader (calccrc, write, _write_skeleton; the bytes go to offset 0: file.seek(0, 0) comes first)
def _sig(name, kind, coqname, **kw):
    WAVE2[name] = dict(file="archiveinfo.py", qual=name, kind=kind, cls="SignatureHeader", coqname=coqname, out="ArchiveinfoSig",
                       **dict({"args": {}, "ret": None}, **kw))


_sig("SignatureHeader.__init__", "init", "SignatureHeader_init", ret="SignatureHeader")
_sig("SignatureHeader.calccrc", "objproc", "SignatureHeader_calccrc", args={"length": "int", "header_crc": "int"}, ret="self", fuel=True)
# _read works on the whole file: it starts with file.seek(len(MAGIC_7Z), 0); `inp` of the generated function is the file from offset 0
_sig("SignatureHeader._read", "objreader", "SignatureHeader_read", ret="self", fuel=True, absolute=True)
_sig("SignatureHeader.retrieve", "retrieve", "SignatureHeader_retrieve", ret="SignatureHeader")
_sig("SignatureHeader.write", "objwriter", "SignatureHeader_write", seek0=True)
_sig("SignatureHeader._write_skeleton", "objwriter", "SignatureHeader_write_skeleton", seek0=True)

REC_OUTS = ("ArchiveinfoRecords", "ArchiveinfoSig", "DecompChain", "CompChain")   # outs whose functions work on records of attributes
for _k, _v in WAVE2.items():
    if _v["out"] in REC_OUTS:
        _v["join"] = True     # an `if` whose branches fall through is emitted once, yielding the variables it assigns
OUT_FILES = {
    # out -> (source description, Require line[, lines opening a Section, line closing it])
    "HelpersPath": ("py7zr/helpers.py", "From P7 Require Import Prelude PyPrims PyStr Path."),
    # the lexical helpers of the extraction (C03): pathlib.Path.cwd() is the explicit parameter cwd0
    "HelpersPath2": ("py7zr/helpers.py (is_relative_to, is_path_valid, get_sanitized_output_path)",
                     "From P7 Require Import Prelude PyPrims PyStr Path PyPath.\nFrom P7gen Require HelpersPath."),
    "AttrDecoders": ("py7zr/py7zr.py (class ArchiveFile)", "From P7 Require Import Prelude PyPrims PyStr PyStat."),
    "CliVol": ("py7zr/cli.py (class Cli)", "From P7 Require Import Prelude PyPrims PyStr PyRe."),
    "ArcName": ("py7zr/py7zr.py (SevenZipFile._sanitize_archive_arcname)", "From P7 Require Import Prelude PyPrims PyStr PyRe."),
    "AesBuf": ("py7zr/compressor.py (classes AESCompressor, AESDecompressor)", "From P7 Require Import Prelude PyPrims PyStr.",
               "Section AesBuf.\n(* the cipher object: an abstract state and the two operations the code calls on it *)\n"
               "Variable C : Type.\nVariable enc : C -> bytes -> res (C * bytes).   (* self.cipher.encrypt(data) *)\n"
               "Variable dec : C -> bytes -> res (C * bytes).   (* self.cipher.decrypt(data) *)\n", "End AesBuf."),
    "ArchiveinfoRecords": ("py7zr/archiveinfo.py (header records)",
                           "From P7 Require Import Prelude PyPrims PyStr PyRe.\nFrom P7gen Require Import ArchiveinfoPrims."),
    # the signature header: its CRC goes through helpers.calculate_crc32 (gen/HelpersCrc.v) over the same abstract zlib.crc32
    "ArchiveinfoSig": ("py7zr/archiveinfo.py (class SignatureHeader)",
                       "From P7 Require Import Prelude PyPrims PyStr PyRe.\nFrom P7gen Require Import ArchiveinfoPrims ArchiveinfoRecords.\n"
                       "From P7gen Require HelpersCrc.",
                       "Section ArchiveinfoSig.\nVariable zcrc32 : bytes -> Z -> Z.   (* zlib.crc32(data, value) *)\n", "End ArchiveinfoSig."),
    # SevenZipDecompressor: the stage decoders of self.chain are abstract (a state and the one call made on them), the file may
    # return fewer bytes than asked for (rd : the most this read returns), the digest goes through helpers.calculate_crc32
    "DecompChain": ("py7zr/compressor.py (class SevenZipDecompressor: _decompress, _read_data, decompress)",
                    "From P7 Require Import Prelude PyPrims PyStr PyRe.\nFrom P7gen Require HelpersCrc.",
                    "Section DecompChain.\nVariable stage : Type.                                   (* an element of self.chain *)\n"
                    "Variable dstep : stage -> bytes -> Z -> stage * bytes.   (* decompressor.decompress(data, max_length) *)\n"
                    "Variable zcrc32 : bytes -> Z -> Z.                       (* zlib.crc32(data, value) *)\n", "End DecompChain."),
    # SevenZipCompressor: abstract stage encoders; fd.read may return short (sched: the most each successive read returns)
    "CompChain": ("py7zr/compressor.py (class SevenZipCompressor: compress, flush)",
                  "From P7 Require Import Prelude PyPrims PyStr PyRe.\nFrom P7gen Require HelpersCrc.",
                  "Section CompChain.\nVariable stage : Type.                           (* an element of self.chain *)\n"
                  "Variable cstep : stage -> bytes -> stage * bytes.   (* compressor.compress(data) *)\n"
                  "Variable cflush : stage -> stage * bytes.           (* compressor.flush() *)\n"
                  "Variable zcrc32 : bytes -> Z -> Z.                  (* zlib.crc32(data, value) *)\n", "End CompChain."),
    "HelpersCrc": ("py7zr/helpers.py (calculate_crc32)", "From P7 Require Import Prelude PyPrims PyStr.",
                   "Section HelpersCrc.\nVariable zcrc32 : bytes -> Z -> Z.   (* zlib.crc32(data, value) *)\n", "End HelpersCrc."),
}
# the regular expressions the translator knows: r"^([0-9]+)([<ascii lower-case letters>]?)$" compiled with
# re.IGNORECASE -> PyRe.re_digits_optletter_ci <letters> (compared with CPython's re by tools/harness/prims.py)
RE_DIGITS_OPTLETTER = r"\^\(\[0-9\]\+\)\(\[([a-z]+)\]\?\)\$"

# names of the stat module the translated code reads through hasattr/getattr(stat, NAME): Gallina constants of
# theories/PyStat.v (existence and values compared with CPython by tools/harness/prims.py)
STAT_CONSTANTS = ("FILE_ATTRIBUTE_ARCHIVE", "FILE_ATTRIBUTE_DIRECTORY", "FILE_ATTRIBUTE_READONLY",
                  "FILE_ATTRIBUTE_REPARSE_POINT")
# stat.F(mode) -> (PyStat.v function, result type); all raise OverflowError outside mode_t
STAT_FUNCTIONS = {"S_ISLNK": ("py_S_ISLNK", "bool"), "S_ISSOCK": ("py_S_ISSOCK", "bool"), "S_ISDIR": ("py_S_ISDIR", "bool"),
                  "S_ISREG": ("py_S_ISREG", "bool"), "S_IMODE": ("py_S_IMODE", "int"), "S_IFMT": ("py_S_IFMT", "int")}


_MODCACHE = {}
DEFAULT_VALUE = {"int": "0", "bool": "false", "list:int": "[]", "boollist": "[]", "bytes": "[]", "optint": "None",
                 "optbytes": "None", "optlist:int": "None", "list:Coder": "[]", "list:Bond": "[]", "list:Folder": "[]"}


def init_fields(module, cls):
    """field -> initial value expression (ast) for the `self.f[: T] = e` statements of cls.__init__ (top level only);
    Refused when __init__ does anything else"""
    node = find_function(module, cls + ".__init__")
    if node is None:
        raise Refused("%s.__init__ not found" % cls)
    if [a.arg for a in node.args.args] != ["self"] or node.args.vararg or node.args.kwarg or node.args.kwonlyargs:
        raise Refused("%s.__init__ takes arguments" % cls)
    out = {}
    for st in node.body:
        if isinstance(st, ast.Expr) and isinstance(st.value, ast.Constant) and isinstance(st.value.value, str):
            continue
        tg = st.targets[0] if isinstance(st, ast.Assign) and len(st.targets) == 1 else st.target if isinstance(st, ast.AnnAssign) else None
        if not (isinstance(tg, ast.Attribute) and isinstance(tg.value, ast.Name) and tg.value.id == "self") or st.value is None \
                or tg.attr in out:
            raise Refused("%s.__init__: line %d is not `self.field = value`" % (cls, st.lineno))
        if tg.attr in IGNORED_ATTRS.get(cls, []):
            if not (isinstance(st.value, ast.Constant) and st.value.value is None):
                raise Refused("%s.__init__: the ignored attribute %s is not initialised to None" % (cls, tg.attr))
            continue
        out[tg.attr] = st.value
    return out


def record_text(cls):
    fields = CLASSES3[cls]
    return "Record %s := mk%s { %s }." % (cls, cls, "; ".join("%s_%s : %s" % (cls, f, coq_ty(t)) for f, t in fields.items()))


def init_text(module, cls, spec):
    """C_init : the object C() builds.  A field that __init__ does not set gets the default value of its type; the
    methods translated over the record are checked never to read such a field before assigning it."""
    fields = CLASSES3[cls]
    ini = init_fields(module, cls)
    for f in ini:
        if f not in fields:
            raise Refused("%s.__init__ sets %s, which is not a field of the record" % (cls, f))
    vals = []
    for f, t in fields.items():
        if f not in ini:
            vals.append("None" if t.startswith("opt:") or t.startswith("key:") else DEFAULT_VALUE[t])
            continue
        v = ini[f]
        if isinstance(v, ast.List) and not v.elts and (t.startswith("list:") or t == "boollist"):
            vals.append("[]")
        elif isinstance(v, ast.Constant) and v.value is None and (t in ("optint", "optbytes", "optlist:int") or t.startswith("opt:")):
            vals.append("None")
        elif isinstance(v, ast.Constant) and isinstance(v.value, bool) and t == "bool":
            vals.append("true" if v.value else "false")
        elif isinstance(v, ast.Constant) and isinstance(v.value, int) and not isinstance(v.value, bool) and t == "int":
            vals.append(str(v.value) if v.value >= 0 else "(%d)" % v.value)
        elif isinstance(v, ast.Constant) and isinstance(v.value, bytes) and t == "bytes":
            vals.append("[" + "; ".join(str(b) for b in v.value) + "]")
        elif isinstance(v, ast.UnaryOp) and isinstance(v.op, ast.USub) and isinstance(v.operand, ast.Constant) \
                and isinstance(v.operand.value, int) and not isinstance(v.operand.value, bool) and t == "int":
            vals.append("(-%d)" % v.operand.value)
        elif isinstance(v, ast.Tuple) and t.startswith("tuple:") and len(v.elts) == len(t[6:].split(",")) \
                and all(x == "bytes" for x in t[6:].split(",")) and all(isinstance(x, ast.Name) for x in v.elts):
            parts = []
            for x in v.elts:
                binds = [st for st in module.body if isinstance(st, ast.Assign) and any(isinstance(n, ast.Name) and n.id == x.id for tg in st.targets for n in ast.walk(tg))]
                stores = [n for n in ast.walk(module) if isinstance(n, ast.Name) and n.id == x.id and not isinstance(n.ctx, ast.Load)]
                if len(binds) != 1 or len(stores) != 1 or not (isinstance(binds[0].value, ast.Constant) and isinstance(binds[0].value.value, bytes)):
                    raise Refused("%s.__init__: %s is not a module-level bytes constant" % (cls, x.id))
                parts.append("[" + "; ".join(str(b) for b in binds[0].value.value) + "]")
            vals.append("(" + ", ".join(parts) + ")")
        else:
            raise Refused("%s.__init__: initial value of %s" % (cls, f))
    return "%s\nDefinition %s : %s := mk%s %s." % (record_text(cls), spec["coqname"], cls, cls, " ".join(vals))


def retrieve_text(module, cls, spec):
    node = find_function(module, cls + ".retrieve")
    extra = list(spec.get("args", {}))
    ok = node is not None and [a.arg for a in node.args.args] == ["cls", "file"] + extra \
        and len(node.decorator_list) == 1 and ast.unparse(node.decorator_list[0]) == "classmethod"
    body = [st for st in node.body if not (isinstance(st, ast.Expr) and isinstance(st.value, ast.Constant))] if ok else []
    call = "%s(%s)" % (spec.get("reader", "_read"), ", ".join(["file"] + extra))
    form1 = ok and len(body) == 1 and isinstance(body[0], ast.Return) and ast.unparse(body[0].value) == "cls()." + call
    form2 = ok and [ast.unparse(st) for st in body] == ["obj = cls()", "obj." + call, "return obj"]
    if not (form1 or form2):
        raise Refused("%s.retrieve is neither `return cls()._read(file)` nor `obj = cls(); obj._read(file); return obj`" % cls)
    sig = " ".join("(%s : %s)" % (a, coq_ty(t)) for a, t in spec.get("args", {}).items())
    rsp = WAVE2.get("%s.%s" % (cls, spec.get("reader", "_read")), {})
    if rsp.get("fuel"):
        # the reader loops on explicit fuel: so does retrieve
        return "Definition %s (inp : bytes) (fuel : nat) %s: res (%s * bytes) :=\n  %s %s_init inp fuel%s." % (
            spec["coqname"], sig + " " if sig else "", cls, rsp["coqname"], cls, "".join(" " + a for a in extra))
    return "Definition %s (inp : bytes) %s: res (%s * bytes) :=\n  %s_read %s_init inp%s." % (
        spec["coqname"], sig + " " if sig else "", cls, cls, cls, "".join(" " + a for a in extra))


class FnTr:
    def __init__(self, name, node, kind, argtys, retty, module=None, spec=None):
        self.name, self.node, self.kind, self.argtys, self.retty = name, node, kind, argtys, retty
        self.tmp = 0
        self.ty = dict(argtys)  # variable -> type
        self.filevar = None
        self.outvar = None
        self.narrowed = set()
        self.module = module    # ast of the module (for module-level constants); None for the first wave
        self.spec = spec or {}
        self.loops = []         # stack of enclosing for-loops: dict(ret=bool)
        self.decl = {}          # declared types of lowered local variables (dict keys, fields of a loop object)
        self.partial = []       # branches replaced by Err EUnsupported (allowed by spec["partial"])
        self.io = {"reader": "inp", "objreader": "inp", "writer": "out", "objwriter": "out"}.get(kind)
        self.fields = CLASSES3.get(self.spec.get("cls"), {}) if kind in ("objreader", "objwriter", "objfun", "objproc", "classinit") else {}

    def fresh(self):
        self.tmp += 1
        return "t%d" % self.tmp

    def refuse(self, node, why):
        raise Refused("%s: line %d: %s (%s)" % (self.name, getattr(node, "lineno", 0), why, type(node).__name__))

    # ---------------- expressions: returns (pre-lines, value, type) ----------------
    def is_file(self, e):
        return isinstance(e, ast.Name) and e.id == self.filevar

    def const_int(self, e):
        if isinstance(e, ast.Constant) and isinstance(e.value, int) and not isinstance(e.value, bool):
            return e.value
        if isinstance(e, ast.UnaryOp) and isinstance(e.op, ast.USub):
            v = self.const_int(e.operand)
            return None if v is None else -v
        return None

    def zlit(self, v):
        return str(v) if v >= 0 else "(%d)" % v

    def expr(self, e):
        if isinstance(e, ast.Constant):
            v = e.value
            if isinstance(v, bool):
                return [], ("true" if v else "false"), "bool"
            if isinstance(v, int):
                return [], self.zlit(v), "int"
            if isinstance(v, bytes):
                return [], "[" + "; ".join(str(b) for b in v) + "]", "bytes"
            if isinstance(v, str) and self.module is not None:
                return [], str_lit(v), "str"
            if v is None and self.module is not None:
                return [], "None", "nonetype"
            self.refuse(e, "constant")
        if isinstance(e, ast.Name):
            if e.id == "self" and self.fields and self.kind in ("objreader", "objproc", "classinit"):
                return [], self.self_record(), "self"
            if e.id not in self.ty:
                if self.module is not None and e.id in self.local_names():
                    self.refuse(e, "local variable %s may be unbound here" % e.id)
                c = self.module_constant(e.id)
                if c is not None:
                    return self.expr(c)
                ic = self.imported_constant(e.id)
                if ic is not None:
                    return ic
                self.refuse(e, "unknown name " + e.id)
            if e.id in self.narrowed and self.ty[e.id] == "optbytes":
                return self.unwrap([], e.id, "optbytes")       # known not to be None here (inside `if x:`)
            return [], e.id, self.ty[e.id]
        if isinstance(e, ast.Attribute) and self.module is not None:
            return self.attribute(e)
        if isinstance(e, ast.UnaryOp):
            c = self.const_int(e)
            if c is not None:
                return [], self.zlit(c), "int"
            p, v, t = self.expr(e.operand)
            if isinstance(e.op, ast.USub) and t == "int":
                return p, "(- %s)" % v, "int"
            if isinstance(e.op, ast.Not) and t == "bool":
                return p, "(negb %s)" % v, "bool"
            if isinstance(e.op, ast.Not) and t == "optbool":
                return p, "(negb %s)" % self.truthy(e, v, t), "bool"
            if isinstance(e.op, ast.Invert) and t == "int" and self.module is not None:
                return p, "(Z.lnot %s)" % v, "int"
            self.refuse(e, "unary")
        if isinstance(e, ast.BinOp):
            return self.binop(e)
        if isinstance(e, ast.Compare):
            return self.compare(e)
        if isinstance(e, ast.BoolOp):
            # and/or over booleans whose operands are effect-free
            vals = []
            pre = []
            for x in e.values:
                p, v, t = self.expr(x)
                if t != "bool":
                    self.refuse(e, "boolop on non-bool")
                if p and vals:
                    self.refuse(e, "effect in non-first operand of and/or")
                pre += p
                vals.append(v)
            op = "&&" if isinstance(e.op, ast.And) else "||"
            return pre, "(" + (" %s " % op).join(vals) + ")", "bool"
        if isinstance(e, ast.Tuple):
            pre, vs, ts = [], [], []
            for x in e.elts:
                p, v, t = self.expr(x)
                pre += p
                vs.append(v)
                ts.append(t)
            return pre, "(" + ", ".join(vs) + ")", "tuple:" + ",".join(ts)
        if isinstance(e, ast.List):
            pre, vs, ts = [], [], []
            for x in e.elts:
                p, v, t = self.expr(x)
                if p:
                    self.refuse(e, "effect in list literal")
                vs.append(v)
                ts.append(t)
            if len(set(ts)) > 1:
                self.refuse(e, "heterogeneous list")
            return [], "[" + "; ".join(vs) + "]", "list:" + (ts[0] if ts else "int")
        if isinstance(e, ast.Subscript):
            return self.subscript(e)
        if isinstance(e, ast.Call):
            return self.call(e)
        if isinstance(e, (ast.ListComp, ast.SetComp)) and self.module is not None:
            p, v, t = self.listcomp(e)
            if isinstance(e, ast.SetComp):
                if t != "list:int":
                    self.refuse(e, "set comprehension of " + t)
                t = "set:int"
            return p, v, t
        self.refuse(e, "expression")

    # ---------------- second wave helpers ----------------
    def local_names(self):
        """every name the function binds anywhere (assignments, loop targets, with/except/import/walrus/comprehension)"""
        if getattr(self, "_locals", None) is None:
            out = set(a.arg for a in self.node.args.args)
            for n in ast.walk(self.node):
                if isinstance(n, ast.Name) and isinstance(n.ctx, (ast.Store, ast.Del)):
                    out.add(n.id)
                elif isinstance(n, ast.alias):
                    out.add((n.asname or n.name).split(".")[0])
                elif isinstance(n, ast.ExceptHandler) and n.name:
                    out.add(n.name)
                elif isinstance(n, (ast.FunctionDef, ast.ClassDef)) and n is not self.node:
                    out.add(n.name)
            self._locals = out
        return self._locals

    def module_constant(self, name):
        """the constant expression a module-level `NAME = <int/str/bytes literal>` binds (assigned exactly once)"""
        if self.module is None:
            return None
        found = []
        for st in ast.walk(self.module):
            tgts = []
            if isinstance(st, ast.Assign):
                tgts = st.targets
            elif isinstance(st, (ast.AugAssign, ast.AnnAssign)):
                tgts = [st.target]
            elif isinstance(st, (ast.Global, ast.Nonlocal)) and name in st.names:
                return None
            elif isinstance(st, (ast.Import, ast.ImportFrom)) and any(
                    (a.asname or a.name).split(".")[0] == name or a.name == "*" for a in st.names):
                return None
            elif isinstance(st, (ast.FunctionDef, ast.ClassDef)) and st.name == name:
                return None
            for t in tgts:
                for n in ast.walk(t):
                    if isinstance(n, ast.Name) and n.id == name:
                        found.append(st)
        if len(found) != 1 or found[0] not in self.module.body or not isinstance(found[0], ast.Assign):
            return None
        v = found[0].value
        if isinstance(v, ast.Constant) and isinstance(v.value, (int, str, bytes)) and not isinstance(v.value, bool):
            return v
        return None

    def is_module(self, root):
        """`root` refers, in this function, to the standard module of that name: bound at module level only by a plain
        `import root` (no alias, no other binding anywhere at module level) and not bound locally"""
        if self.module is None or root in self.ty or root in self.local_names():
            return False
        plain, other = 0, 0
        for st in ast.walk(self.module):
            if isinstance(st, ast.Import):
                for a in st.names:
                    bound = (a.asname or a.name).split(".")[0]
                    if bound == root:
                        if a.asname is None and a.name.split(".")[0] == root and st in self.module.body:
                            plain += 1
                        else:
                            other += 1
            elif isinstance(st, ast.ImportFrom):
                other += sum(1 for a in st.names if (a.asname or a.name) == root or a.name == "*") if st in self.module.body else 0
                other += sum(1 for a in st.names if (a.asname or a.name) == root) if st not in self.module.body else 0
            elif isinstance(st, (ast.FunctionDef, ast.ClassDef)) and st.name == root and st in self.module.body:
                other += 1
            elif isinstance(st, ast.Name) and st.id == root and isinstance(st.ctx, (ast.Store, ast.Del)):
                other += 1
            elif isinstance(st, (ast.Global, ast.Nonlocal)) and root in st.names:
                other += 1
        return plain >= 1 and other == 0

    def self_record(self):
        cls = self.spec["cls"]
        return "(mk%s %s)" % (cls, " ".join("self_" + f for f in self.fields))

    def imported_constant(self, name):
        """NAME imported with `from py7zr.<m> import NAME` where <m> binds it once, at module level, to
        binascii.unhexlify("..") or a bytes literal: the bytes"""
        if self.spec.get("out") != "ArchiveinfoSig" or name in self.local_names():
            return None
        imps = [(st, a) for st in self.module.body if isinstance(st, ast.ImportFrom) and st.level == 0 and (st.module or "").startswith("py7zr.")
                for a in st.names if (a.asname or a.name) == name]
        stores = [n for n in ast.walk(self.module) if isinstance(n, ast.Name) and n.id == name and not isinstance(n.ctx, ast.Load)]
        if len(imps) != 1 or stores or imps[0][1].asname is not None:
            return None
        fname = imps[0][0].module.split(".", 1)[1] + ".py"
        key = (self.spec["_repo"], fname)
        if key not in _MODCACHE:
            _MODCACHE[key] = ast.parse(open(os.path.join(self.spec["_repo"], "py7zr", fname), encoding="utf-8").read())
        mod = _MODCACHE[key]
        binds = [st for st in ast.walk(mod) if isinstance(st, (ast.Assign, ast.AnnAssign, ast.AugAssign))
                 and any(isinstance(n, ast.Name) and n.id == name for t in (st.targets if isinstance(st, ast.Assign) else [st.target])
                         for n in ast.walk(t))]
        if len(binds) != 1 or binds[0] not in mod.body or not isinstance(binds[0], ast.Assign):
            return None
        v = binds[0].value
        if isinstance(v, ast.Call) and ast.unparse(v.func) == "binascii.unhexlify" and len(v.args) == 1 and not v.keywords \
                and isinstance(v.args[0], ast.Constant) and isinstance(v.args[0].value, str) \
                and any(isinstance(st, ast.Import) and any(a.name == "binascii" and a.asname is None for a in st.names) for st in mod.body):
            return [], "[" + "; ".join(str(b) for b in bytes.fromhex(v.args[0].value)) + "]", "bytes"
        if isinstance(v, ast.Constant) and isinstance(v.value, bytes):
            return [], "[" + "; ".join(str(b) for b in v.value) + "]", "bytes"
        return None

    def const_object_attr(self, e):
        """NAME.X where NAME is imported from another module of the package and is there the single instance of a class
        whose attribute X is bound once, at class level, to binascii.unhexlify("..") / a bytes or int literal"""
        name = e.value.id
        fname, inst = CONST_OBJECTS[name]
        imp = [st for st in self.module.body if isinstance(st, ast.ImportFrom) and st.level == 0
               and st.module == "py7zr." + fname[:-3] and any(a.name == inst and (a.asname or a.name) == name for a in st.names)]
        others = [n for n in ast.walk(self.module) if isinstance(n, ast.Name) and n.id == name and isinstance(n.ctx, (ast.Store, ast.Del))]
        if len(imp) != 1 or others or name in self.local_names():
            self.refuse(e, "%s is not the constant object of %s" % (name, fname))
        key = (self.spec["_repo"], fname)
        if key not in _MODCACHE:
            path = os.path.join(self.spec["_repo"], "py7zr", fname)
            _MODCACHE[key] = ast.parse(open(path, encoding="utf-8").read())
        mod = _MODCACHE[key]
        binds = [st for st in ast.walk(mod) if isinstance(st, (ast.Assign, ast.AnnAssign, ast.AugAssign))
                 and any(isinstance(n, ast.Name) and n.id == inst for t in (st.targets if isinstance(st, ast.Assign) else [st.target])
                         for n in ast.walk(t))]
        if len(binds) != 1 or binds[0] not in mod.body or not isinstance(binds[0], ast.Assign) \
                or not (isinstance(binds[0].value, ast.Call) and isinstance(binds[0].value.func, ast.Name)
                        and not binds[0].value.args and not binds[0].value.keywords):
            self.refuse(e, "%s is not bound once to an instance in %s" % (inst, fname))
        cname = binds[0].value.func.id
        cls = [n for n in mod.body if isinstance(n, ast.ClassDef) and n.name == cname]
        if len(cls) != 1 or any(isinstance(n, ast.FunctionDef) for n in cls[0].body):
            self.refuse(e, "class %s of %s" % (cname, fname))
        vals = [st for st in ast.walk(cls[0]) if isinstance(st, (ast.Assign, ast.AnnAssign, ast.AugAssign))
                and any(isinstance(n, ast.Name) and n.id == e.attr for t in (st.targets if isinstance(st, ast.Assign) else [st.target])
                        for n in ast.walk(t))]
        setters = [n for n in ast.walk(mod) if isinstance(n, ast.Attribute) and n.attr == e.attr and isinstance(n.ctx, (ast.Store, ast.Del))]
        if len(vals) != 1 or vals[0] not in cls[0].body or not isinstance(vals[0], ast.Assign) or setters:
            self.refuse(e, "%s.%s is not a constant" % (name, e.attr))
        v = vals[0].value
        if isinstance(v, ast.Call) and ast.unparse(v.func) == "binascii.unhexlify" and len(v.args) == 1 and not v.keywords \
                and isinstance(v.args[0], ast.Constant) and isinstance(v.args[0].value, str) \
                and any(isinstance(st, ast.Import) and any(a.name == "binascii" and a.asname is None for a in st.names) for st in mod.body):
            bs = bytes.fromhex(v.args[0].value)
            return [], "[" + "; ".join(str(b) for b in bs) + "]", "bytes"
        if isinstance(v, ast.Constant) and isinstance(v.value, bytes):
            return [], "[" + "; ".join(str(b) for b in v.value) + "]", "bytes"
        self.refuse(e, "value of %s.%s" % (name, e.attr))

    def dotted(self, e):
        if isinstance(e, ast.Name):
            return e.id
        if isinstance(e, ast.Attribute):
            b = self.dotted(e.value)
            return None if b is None else b + "." + e.attr
        return None

    def attribute(self, e):
        d = self.dotted(e)
        if d in EXTERNAL_CONSTANTS and self.is_module(d.split(".")[0]):
            return [], str_lit(EXTERNAL_CONSTANTS[d]), "str"
        if self.fields and isinstance(e.value, ast.Name) and e.value.id == "self":
            if e.attr not in self.fields:
                self.refuse(e, "attribute self.%s is not a field of the record" % e.attr)
            return [], "self_" + e.attr, self.fields[e.attr]
        if isinstance(e.value, ast.Name) and e.value.id in CONST_OBJECTS and e.value.id not in self.ty:
            return self.const_object_attr(e)
        if self.kind == "objmethod" and isinstance(e.value, ast.Name) and e.value.id == "self" \
                and e.attr in self.spec["state"] and "self" not in self.ty:
            return [], self.spec["state"][e.attr][0], self.spec["state"][e.attr][1]
        p, v, t = self.expr(e.value)
        if t.startswith("opt:"):
            p, v, t = self.unwrap(p, v, t)       # AttributeError on None
        if t in CLASSES3 and t not in DICT_RECORDS and e.attr in CLASSES3[t]:
            return p, "(%s_%s %s)" % (t, e.attr, v), CLASSES3[t][e.attr]
        if t == "buffer" and e.attr == "view":
            return p, v, "bytes"
        if t == "path":
            if e.attr == "parts":
                return p, "(pp_parts %s)" % v, "list:str"
            if e.attr == "anchor":
                return p, "(pp_anchor %s)" % v, "str"
        self.refuse(e, "attribute %s of %s" % (e.attr, t))

    def truthy(self, e, v, t):
        if t == "bool":
            return v
        if self.module is None:
            self.refuse(e, "if test type")
        if is_seq(t):
            return "(py_nonempty %s)" % v
        if t == "int":
            return "(negb (%s =? 0))" % v
        if t in ("optmatch2", "optmatch0"):
            return "(py_is_some %s)" % v
        if t == "optlist:int":
            return "(match %s with Some l => py_nonempty l | None => false end)" % v
        if t == "optbool":
            return "(match %s with Some b => b | None => false end)" % v
        if t == "optbytes" and self.spec.get("out") == "CompChain":
            return "(match %s with Some b => py_nonempty b | None => false end)" % v
        self.refuse(e, "truth value of " + t)

    def test(self, e):
        """e in a boolean context (if / while / operand of not, and, or there): (pre-lines, Coq bool)"""
        if isinstance(e, ast.BoolOp):
            vals, pre = [], []
            op = "&&" if isinstance(e.op, ast.And) else "||"
            for x in e.values:
                p, v = self.test(x)
                if p and vals:
                    if self.spec.get("out") != "ArchiveinfoRecords":
                        self.refuse(e, "effect in non-first operand of and/or")
                    # short circuit: the operand (and what it may raise) is evaluated only when the result is still open
                    sofar = "(" + (" %s " % op).join(vals) + ")" if len(vals) > 1 else vals[0]
                    t1 = self.fresh()
                    inner = " ".join(p) + " Ok %s" % v
                    pre.append("do %s <- (if %s then %s else %s);" % (
                        (t1, sofar, inner, "Ok false") if op == "&&" else (t1, sofar, "Ok true", inner)))
                    vals = [t1]
                    continue
                pre += p
                vals.append(v)
            return pre, ("(" + (" %s " % op).join(vals) + ")" if len(vals) > 1 else vals[0])
        if isinstance(e, ast.UnaryOp) and isinstance(e.op, ast.Not):
            p, v = self.test(e.operand)
            return p, "(negb %s)" % v
        p, v, t = self.expr(e)
        return p, self.truthy(e, v, t)

    def coerce(self, node, v, t, want):
        """a value of type t where `want` is declared"""
        if t == want:
            return v, t
        if want in ("optint", "optbytes", "optlist:int") and t == "nonetype":
            return "None", want
        if want.startswith("key:") and t != want:
            v2, _ = self.coerce(node, v, t, want[4:])       # d[k] = value: the key is there afterwards
            return "(Some %s)" % v2, want
        if want.startswith("opt:") and t == "nonetype":
            return "None", want
        if want.startswith("opt:") and t == want[4:]:
            return "(Some %s)" % v, want
        if (want, t) in (("optint", "int"), ("optbytes", "bytes"), ("optlist:int", "list:int")):
            return "(Some %s)" % v, want
        if want == "optlist:int" and t == "nonetype":
            return "None", want
        if want == "boollist" and t == "list:bool":
            return v, want
        if t.startswith("list:") and want.startswith("list:") and v == "[]":
            return v, want
        self.refuse(node, "a value of type %s where %s is declared" % (t, want))

    def unwrap(self, p, v, t):
        """an Optional[int] used as an int: TypeError when it is None"""
        if t in ("optint", "optbytes", "optlist:int", "optpath"):
            t1 = self.fresh()
            return p + ["do %s <- py_unwrap %s;" % (t1, v)], t1, t[3:]
        if t.startswith("opt:"):
            t1 = self.fresh()
            return p + ["do %s <- py_unwrap %s;" % (t1, v)], t1, t[4:]
        return p, v, t

    def has_io(self, node):
        """does evaluating node read from / write to the file"""
        for n in ast.walk(node):
            if isinstance(n, ast.Call):
                if isinstance(n.func, ast.Attribute) and self.is_file(n.func.value):
                    return True
                if isinstance(n.func, ast.Attribute) and any(self.is_file(a) for a in n.args):
                    return True
                if isinstance(n.func, ast.Name) and ((n.func.id in WHITELIST and WHITELIST[n.func.id][2] in ("reader", "writer"))
                                                     or (n.func.id in WAVE2 and WAVE2[n.func.id]["kind"] in ("reader", "writer"))):
                    return True
        return False

    def listcomp(self, e):
        """[elt for x in range(..) / a list]  ->  for_m accumulating the list (and the input when elt reads the file)"""
        if len(e.generators) != 1 or len(e.generators[0].ifs) > 1 or e.generators[0].is_async:
            self.refuse(e, "comprehension form")
        g = e.generators[0]
        it = g.iter
        if isinstance(it, ast.Call) and isinstance(it.func, ast.Name) and it.func.id == "zip" and len(it.args) == 2 \
                and "zip" not in self.local_names() and isinstance(g.target, ast.Tuple) and len(g.target.elts) == 2 \
                and all(isinstance(x, ast.Name) and x.id not in self.ty for x in g.target.elts) and not self.has_io(e):
            # [elt for a, b in zip(xs, ys) if cond]
            p1, v1, t1 = self.expr(it.args[0])
            p2, v2, t2 = self.expr(it.args[1])
            el1 = "bool" if t1 == "boollist" else t1[5:] if t1.startswith("list:") else self.refuse(e, "zip over " + t1)
            el2 = "bool" if t2 == "boollist" else t2[5:] if t2.startswith("list:") else self.refuse(e, "zip over " + t2)
            a, b = g.target.elts[0].id, g.target.elts[1].id
            saved = dict(self.ty)
            self.ty[a], self.ty[b] = el1, el2
            pc, c = self.test(g.ifs[0]) if g.ifs else ([], "true")
            pe, ve, te = self.unwrap(*self.expr(e.elt))   # an Optional element is used as a value further on (TypeError if None)
            self.ty = saved
            if pc:
                self.refuse(e, "effect in a comprehension filter")
            acc = self.fresh() + "acc"
            nm = self.fresh()
            lines = p1 + p2 + ["do %ss <- for_m (combine %s %s) (fun '(%s, %s) %s =>" % (nm, v1, v2, a, b, acc)]
            lines += ["    if %s then" % c] + ["      " + y for y in pe] + ["      Ok (%s ++ [%s], false)" % (acc, ve),
                                                                           "    else Ok (%s, false)) [];" % acc]
            lines += ["let %s := %ss in" % (nm, nm)]
            return lines, nm, ("boollist" if te == "bool" else "list:" + te)
        if g.ifs and self.spec.get("out") in REC_OUTS and isinstance(g.target, ast.Name) and g.target.id not in self.ty \
                and not self.has_io(e):
            # [elt for x in L if cond]
            p, v, t = self.expr(it)
            elty = "bool" if t == "boollist" else t[5:] if t.startswith("list:") else self.refuse(e, "comprehension over " + t)
            saved = dict(self.ty)
            self.ty[g.target.id] = elty
            pc, c = self.test(g.ifs[0])
            pe, ve, te = self.expr(e.elt)
            self.ty = saved
            acc = self.fresh() + "acc"
            nm = self.fresh()
            lines = p + ["do %ss <- for_m %s (fun %s %s =>" % (nm, v, g.target.id, acc)] + ["    " + y for y in pc]
            lines += ["    if %s then" % c] + ["      " + y for y in pe] + ["      Ok (%s ++ [%s], false)" % (acc, ve),
                                                                           "    else Ok (%s, false)) [];" % acc]
            lines += ["let %s := %ss in" % (nm, nm)]
            return lines, nm, ("boollist" if te == "bool" else "list:" + te)
        if g.ifs:
            self.refuse(e, "comprehension filter")
        if isinstance(e.elt, ast.Dict) and self.spec.get("out") in REC_OUTS and isinstance(it, ast.Call) \
                and isinstance(it.func, ast.Name) and it.func.id == "range" and len(it.args) == 1 and "range" not in self.local_names() \
                and isinstance(g.target, ast.Name) and all(isinstance(k, ast.Constant) and isinstance(k.value, str) for k in e.elt.keys) \
                and all(isinstance(v, ast.Constant) for v in e.elt.values):
            # [{"k": const, ..} for _ in range(n)]: n separate dicts with these keys; as values they are equal
            keys = {k.value: v for k, v in zip(e.elt.keys, e.elt.values)}
            rs = [r for r in DICT_RECORDS if set(keys) <= set(CLASSES3[r])
                  and all(ft.startswith("key:") for fk, ft in CLASSES3[r].items() if fk not in keys)]
            if len(rs) != 1:
                self.refuse(e, "dict literal with keys %s is not one of the known records" % sorted(keys))
            vs = []
            for fk, ft in CLASSES3[rs[0]].items():
                if fk in keys:
                    pv, vv, tv = self.expr(keys[fk])
                    vv, _ = self.coerce(e, vv, tv, ft)
                    vs.append(vv)
                else:
                    vs.append("None")
            p, hi, t = self.expr(it.args[0])
            if t != "int":
                self.refuse(e, "range argument type")
            return p, "(repeat (mk%s %s) (Z.to_nat %s))" % (rs[0], " ".join(vs), hi), "list:" + rs[0]
        if isinstance(it, ast.Call) and isinstance(it.func, ast.Name) and it.func.id == "range" and len(it.args) == 1 \
                and "range" not in self.local_names():
            p, hi, t = self.expr(it.args[0])
            if t != "int":
                self.refuse(e, "range argument type")
            pre, xs, elty = p, "(py_range 0 %s)" % hi, "int"
        else:
            p, v, t = self.expr(it)
            if t == "boollist":
                pre, xs, elty = p, v, "bool"
            elif t.startswith("list:"):
                pre, xs, elty = p, v, t[5:]
            else:
                self.refuse(e, "comprehension over " + t)
        if not isinstance(g.target, ast.Name) or g.target.id in self.ty:
            self.refuse(e, "comprehension target")
        x = g.target.id
        saved = dict(self.ty)
        self.ty[x] = elty
        io = self.io if self.has_io(e.elt) else None
        if self.has_io(it):
            self.refuse(e, "file access in the iterable of a comprehension")
        pe, ve, te = self.expr(e.elt)
        self.ty = saved
        acc = self.fresh() + "acc"
        st = "'(%s, %s)" % (acc, io) if io else acc
        tup = "(%s ++ [%s], %s)" % (acc, ve, io) if io else "%s ++ [%s]" % (acc, ve)
        nm = self.fresh()
        lines = pre + ["do %ss <- for_m %s (fun %s %s =>" % (nm, xs, x, st)]
        lines += ["    " + y for y in pe] + ["    Ok (%s, false)) %s;" % (tup, "([], %s)" % io if io else "[]")]
        lines += ["let '(%s, %s) := %ss in" % (nm, io, nm)] if io else ["let %s := %ss in" % (nm, nm)]
        return lines, nm, ("boollist" if te == "bool" else "list:" + te)

    def binop(self, e):
        pl, l, tl = self.unwrap(*self.expr(e.left))
        pr, r, tr = self.unwrap(*self.expr(e.right))
        pre = pl + pr
        op = e.op
        if tl == "int" and tr == "int":
            simple = {ast.Add: "+", ast.Sub: "-", ast.Mult: "*"}
            if type(op) in simple:
                return pre, "(%s %s %s)" % (l, simple[type(op)], r), "int"
            bit = {ast.BitAnd: "Z.land", ast.BitOr: "Z.lor", ast.BitXor: "Z.lxor"}
            if type(op) in bit:
                return pre, "(%s %s %s)" % (bit[type(op)], l, r), "int"
            rc = self.const_int(e.right)
            if isinstance(op, (ast.FloorDiv, ast.Mod)):
                sym = "/" if isinstance(op, ast.FloorDiv) else "mod"
                if rc is not None and rc != 0:
                    return pre, "(%s %s %s)" % (l, sym, r), "int"
                t = self.fresh()
                fn = "py_floordiv" if isinstance(op, ast.FloorDiv) else "py_mod"
                return pre + ["do %s <- %s %s %s;" % (t, fn, l, r)], t, "int"
            if isinstance(op, (ast.LShift, ast.RShift)):
                fn = "Z.shiftl" if isinstance(op, ast.LShift) else "Z.shiftr"
                if rc is not None and rc >= 0:
                    return pre, "(%s %s %s)" % (fn, l, r), "int"
                t = self.fresh()
                pfn = "py_shl" if isinstance(op, ast.LShift) else "py_shr"
                return pre + ["do %s <- %s %s %s;" % (t, pfn, l, r)], t, "int"
        if isinstance(op, ast.Add) and tl == tr and (tl == "bytes" or tl.startswith("list:") or tl == "boollist"
                                                     or (tl == "str" and self.module is not None)):
            return pre, "(%s ++ %s)" % (l, r), tl
        if isinstance(op, ast.Mult) and tl == "list:bool" and tr == "int":
            return pre, "(repeat %s (Z.to_nat %s))" % (l.strip("[]"), r), "boollist"
        if isinstance(op, ast.Mult) and tl == "list:int" and tr == "int" and self.module is not None \
                and isinstance(e.left, ast.List) and len(e.left.elts) == 1:
            return pre, "(repeat %s (Z.to_nat %s))" % (l.strip("[]"), r), "list:int"
        self.refuse(e, "binop %s on %s,%s" % (type(op).__name__, tl, tr))

    def compare(self, e):
        if len(e.ops) == 2 and self.spec.get("out") in REC_OUTS and isinstance(e.comparators[0], (ast.Name, ast.Constant)):
            # a OP b OP c = (a OP b) and (b OP c); b is a name / constant: evaluating it twice is evaluating it once
            pa, va, ta = self.compare(ast.copy_location(ast.Compare(left=e.left, ops=[e.ops[0]], comparators=[e.comparators[0]]), e))
            pb, vb, tb = self.compare(ast.copy_location(ast.Compare(left=e.comparators[0], ops=[e.ops[1]], comparators=[e.comparators[1]]), e))
            if pb:
                self.refuse(e, "effect in the second half of a chained comparison")
            return pa, "(%s && %s)" % (va, vb), "bool"
        if len(e.ops) != 1:
            self.refuse(e, "chained comparison")
        c0 = e.comparators[0]
        if isinstance(e.ops[0], (ast.In, ast.NotIn)) and isinstance(c0, ast.Call) and isinstance(c0.func, ast.Attribute) \
                and c0.func.attr == "keys" and not c0.args and not c0.keywords:
            df = self.dict_field(c0.func.value, e.left)
            if df is None:
                self.refuse(e, "key test on something that is not a known dict record")
            v = "(py_is_some %s)" % df[1] if df[2].startswith("key:") else "true"
            return df[0], (v if isinstance(e.ops[0], ast.In) else "(negb %s)" % v), "bool"
        pl, l, tl = self.expr(e.left)
        pr, r, tr = self.expr(e.comparators[0])
        if isinstance(e.ops[0], (ast.Is, ast.IsNot)) and tr == "nonetype" and tl == "optstr":
            return pl, ("(negb (py_is_some %s))" if isinstance(e.ops[0], ast.Is) else "(py_is_some %s)") % l, "bool"
        if isinstance(e.ops[0], (ast.Is, ast.IsNot)) and tr == "nonetype" and (self.fields or self.spec.get("out") in REC_OUTS) \
                and not pl and (tl in ("int", "bool", "bytes", "list:int", "boollist") or tl.startswith("list:")):
            # a record field / value of a non-optional type is never None
            return [], ("false" if isinstance(e.ops[0], ast.Is) else "true"), "bool"
        if isinstance(e.ops[0], (ast.Is, ast.IsNot)) and tr == "nonetype" and (tl in ("optint", "optbytes", "optlist:int", "optpath") or tl.startswith("opt:")) and self.module is not None:
            return pl, ("(negb (py_is_some %s))" if isinstance(e.ops[0], ast.Is) else "(py_is_some %s)") % l, "bool"
        if isinstance(e.ops[0], (ast.In, ast.NotIn)) and tl == "int" and tr in ("set:int", "list:int") and self.module is not None:
            v = "(py_in_ints %s %s)" % (l, r)
            return pl + pr, (v if isinstance(e.ops[0], ast.In) else "(negb %s)" % v), "bool"
        if not isinstance(e.ops[0], (ast.Is, ast.IsNot)):
            pl, l, tl = self.unwrap(pl, l, tl)
            pr, r, tr = self.unwrap(pr, r, tr)
        pre = pl + pr
        op = e.ops[0]
        if tl == "int" and tr == "int":
            m = {ast.Lt: "(%s <? %s)", ast.LtE: "(%s <=? %s)", ast.Gt: "(%s >? %s)", ast.GtE: "(%s >=? %s)",
                 ast.Eq: "(%s =? %s)", ast.NotEq: "(negb (%s =? %s))"}
            if type(op) in m:
                if isinstance(op, ast.Gt):
                    return pre, "(%s <? %s)" % (r, l), "bool"
                if isinstance(op, ast.GtE):
                    return pre, "(%s <=? %s)" % (r, l), "bool"
                return pre, m[type(op)] % (l, r), "bool"
        if tl == "bool" and tr == "bool" and isinstance(op, (ast.Eq, ast.NotEq)) and self.module is not None:
            v = "(Bool.eqb %s %s)" % (l, r)
            return pre, (v if isinstance(op, ast.Eq) else "(negb %s)" % v), "bool"
        if tl == "bytes" and tr == "bytes" and isinstance(op, (ast.Eq, ast.NotEq)):
            v = "(bytes_eqb %s %s)" % (l, r)
            return pre, (v if isinstance(op, ast.Eq) else "(negb %s)" % v), "bool"
        if tl == "str" and tr == "str" and isinstance(op, (ast.Eq, ast.NotEq)):
            v = "(py_str_eqb %s %s)" % (l, r)
            return pre, (v if isinstance(op, ast.Eq) else "(negb %s)" % v), "bool"
        self.refuse(e, "compare %s on %s,%s" % (type(op).__name__, tl, tr))

    def subscript(self, e):
        if self.module is not None and isinstance(e.slice, ast.Constant) and isinstance(e.slice.value, str):
            pb, b, tb = self.expr(e.value)
            if tb in DICT_RECORDS and e.slice.value in CLASSES3[tb]:
                ft = CLASSES3[tb][e.slice.value]
                if ft.startswith("key:"):
                    t1 = self.fresh()
                    return pb + ["do %s <- py_unwrap (%s_%s %s);" % (t1, tb, e.slice.value, b)], t1, ft[4:]      # KeyError
                return pb, "(%s_%s %s)" % (tb, e.slice.value, b), ft
            self.refuse(e, "string key on " + tb)
        if self.kind == "method" and isinstance(e.value, ast.Attribute) and isinstance(e.value.value, ast.Name) \
                and e.value.value.id == "self":
            return self.self_dict(e)
        # call(...)[0] on a tuple-returning call
        pb, b, tb = self.expr(e.value)
        if self.module is not None:
            pb, b, tb = self.unwrap(pb, b, tb) if tb == "optbytes" else (pb, b, tb)
        s = e.slice
        if tb.startswith("tuple:"):
            c = self.const_int(s)
            parts = tb[6:].split(",")
            if c is None or len(parts) != 2 or c not in (0, 1):
                self.refuse(e, "tuple index")
            return pb, "(%s %s)" % ("fst" if c == 0 else "snd", b), parts[c]
        if isinstance(s, ast.Slice):
            if s.step is not None:
                self.refuse(e, "slice step")
            pre = list(pb)
            bounds = []
            for x in (s.lower, s.upper):
                if x is None:
                    bounds.append("None")
                else:
                    p, v, t = self.expr(x)
                    if t != "int":
                        self.refuse(e, "slice bound type")
                    pre += p
                    bounds.append("(Some %s)" % v)
            if not (tb == "bytes" or tb.startswith("list:") or tb == "boollist" or tb == "str") or tb[5:] in CLASSES3:
                self.refuse(e, "slice of " + tb)
            return pre, "(py_slice %s %s %s)" % (b, bounds[0], bounds[1]), tb
        pi, i, ti = self.expr(s)
        if ti != "int":
            self.refuse(e, "index type")
        if tb == "bytes":
            t = self.fresh()
            return pb + pi + ["do %s <- py_index %s %s;" % (t, b, i)], t, "int"
        if tb == "boollist":
            t = self.fresh()
            return pb + pi + ["do %s <- py_index %s %s;" % (t, b, i)], t, "bool"
        if tb == "list:str":
            t = self.fresh()
            return pb + pi + ["do %s <- py_index %s %s;" % (t, b, i)], t, "str"
        if tb == "optlist:int" and self.module is not None:
            pb, b, tb = self.unwrap(pb, b, tb)
        if tb == "list:int" and self.module is not None:
            t = self.fresh()
            return pb + pi + ["do %s <- py_index %s %s;" % (t, b, i)], t, "int"
        if tb.startswith("list:") and tb[5:] in CLASSES3 and self.module is not None:
            t = self.fresh()
            return pb + pi + ["do %s <- py_index %s %s;" % (t, b, i)], t, tb[5:]
        self.refuse(e, "subscript of " + tb)

    def dict_field(self, x, key):
        """x["key"] for x of a dict-record type: (pre, Gallina field value, field type) or None"""
        if not (isinstance(key, ast.Constant) and isinstance(key.value, str)) or self.module is None:
            return None
        if isinstance(x, ast.Name) and ("%s__%s" % (x.id, key.value)) in self.ty and x.id not in self.ty:
            n = "%s__%s" % (x.id, key.value)          # the variable of a loop that rebuilds its list (lowered)
            return [], n, self.ty[n]
        if isinstance(x, ast.Name) and self.ty.get(x.id) in DICT_RECORDS and key.value in CLASSES3[self.ty[x.id]]:
            r = self.ty[x.id]
            return [], "(%s_%s %s)" % (r, key.value, x.id), CLASSES3[r][key.value]
        return None

    def call(self, e):
        f = e.func
        args = e.args
        # a call that reads from a sub-buffer (x = io.BytesIO(data)): translated as if x were the file, on the variable x
        sub = None
        if isinstance(f, ast.Attribute) and isinstance(f.value, ast.Name) and self.ty.get(f.value.id) == "filebuf":
            sub = f.value.id
        elif args and isinstance(args[0], ast.Name) and self.ty.get(args[0].id) == "filebuf":
            sub = args[0].id
        if sub is not None and self.io == "inp" and self.filevar != sub:
            if any(self.has_io(a) for a in args[(0 if isinstance(f, ast.Attribute) and isinstance(f.value, ast.Name) and f.value.id == sub else 1):]):
                self.refuse(e, "file access in the arguments of a call on a sub-buffer")
            old = self.filevar
            self.filevar = sub
            try:
                p, v, t = self.call(e)
            finally:
                self.filevar = old
            return [_re.sub(r"\binp\b", sub, x) for x in p], v, t
        if self.spec.get("out") in ("ArchiveinfoSig", "DecompChain", "CompChain"):
            # a local io.BytesIO() that is only written to: the variable holds what has been written
            if isinstance(f, ast.Attribute) and isinstance(f.value, ast.Name) and self.ty.get(f.value.id) == "wbuf" \
                    and f.attr == "getvalue" and not args and not e.keywords:
                return [], f.value.id, "bytes"
            if isinstance(f, ast.Name) and args and isinstance(args[0], ast.Name) and self.ty.get(args[0].id) == "wbuf" \
                    and self.filevar != args[0].id and f.id in WHITELIST and WHITELIST[f.id][2] == "writer":
                old = (self.filevar, self.io)
                self.filevar, self.io = args[0].id, "out"
                try:
                    p, v, t = self.call(e)
                finally:
                    self.filevar, self.io = old
                return [_re.sub(r"\bout\b", args[0].id, x) for x in p], v, t
            if isinstance(f, ast.Attribute) and self.is_file(f.value) and f.attr == "seek" and self.io == "out" and self.spec.get("seek0") \
                    and len(args) == 2 and not e.keywords and self.const_int(args[0]) == 0 and self.const_int(args[1]) == 0:
                # file.seek(0, 0) before anything is written (checked in translate()): the bytes go to offset 0
                return [], "tt", "none"
            if isinstance(f, ast.Name) and f.id == "calculate_crc32" and f.id not in self.local_names() and self.spec.get("fuel") \
                    and len(args) in (1, 2) and not e.keywords and any(
                        isinstance(st, ast.ImportFrom) and st.module == "py7zr.helpers" and any(a.name == "calculate_crc32" and a.asname is None for a in st.names)
                        for st in self.module.body):
                hs = WAVE2["calculate_crc32"]
                key = (self.spec["_repo"], hs["file"])
                if key not in _MODCACHE:
                    _MODCACHE[key] = ast.parse(open(os.path.join(self.spec["_repo"], "py7zr", hs["file"]), encoding="utf-8").read())
                hn = find_function(_MODCACHE[key], "calculate_crc32")
                ps = [a.arg for a in hn.args.args] if hn is not None else []
                if ps != list(hs["args"]) or len(hn.args.defaults) != 2:
                    self.refuse(e, "helpers.calculate_crc32 signature")
                dv = []
                for d in hn.args.defaults:
                    try:
                        val = ast.literal_eval(ast.unparse(d)) if isinstance(d, ast.Constant) else eval(compile(ast.Expression(d), "<default>", "eval"), {"__builtins__": {}})
                    except Exception:
                        self.refuse(e, "default argument of helpers.calculate_crc32")
                    if not isinstance(val, int) or isinstance(val, bool) or val < 0:
                        self.refuse(e, "default argument of helpers.calculate_crc32")
                    dv.append(str(val))
                p, v, t = self.expr(args[0])
                if t != "bytes":
                    self.refuse(e, "calculate_crc32 argument type " + t)
                if len(args) == 2:
                    p2, v2, t2 = self.expr(args[1])
                    if t2 != "int":
                        self.refuse(e, "calculate_crc32 argument type " + t2)
                    p, dv = p + p2, [v2] + dv[1:]
                t1 = self.fresh()
                return p + ["do %s <- HelpersCrc.calculate_crc32 zcrc32 fuel %s %s;" % (t1, v, " ".join(dv))], t1, "int"
            if isinstance(f, ast.Attribute) and self.is_file(f.value) and f.attr == "seek" and self.io == "inp" and self.spec.get("absolute") \
                    and len(args) == 2 and not e.keywords and self.const_int(args[1]) == 0 and not getattr(self, "_abs_seek_done", False):
                # file.seek(n, 0) as the first thing the method does: `inp` is the file from offset 0 (checked in translate())
                p, n, t = self.expr(args[0])
                if t != "int" or p:
                    self.refuse(e, "seek offset")
                self._abs_seek_done = True
                return ["do _ <- (if %s <? 0 then Err EOther else Ok tt);" % n, "let inp := snd (rd_read inp %s) in" % n], "tt", "none"
        if isinstance(f, ast.Attribute) and self.is_file(f.value) and f.attr == "tell" and self.io == "out" and not args and not e.keywords \
                and self.spec.get("tell"):
            # the position: where the method started (explicit parameter pos0) plus what it has written so far
            return [], "(pos0 + py_len out)", "int"
        if isinstance(f, ast.Attribute) and self.is_file(f.value) and f.attr == "seek" and self.io == "inp" and len(args) == 2 \
                and not e.keywords and self.dotted(args[1]) == "os.SEEK_CUR" and self.is_module("os") and self.ty.get(self.filevar) != "filebuf":
            p, n, t = self.expr(args[0])
            if t != "int":
                self.refuse(e, "seek offset")
            # relative seek forward (past the end is allowed); backward is not expressed
            return p + ["do _ <- (if %s <? 0 then Err EUnsupported else Ok tt);" % n, "let inp := snd (rd_read inp %s) in" % n], "tt", "none"
        if isinstance(f, ast.Name) and f.id == "__field" and len(args) == 2 and isinstance(args[0], ast.Name) \
                and self.ty.get(args[0].id) in CLASSES3:
            r = self.ty[args[0].id]
            return [], "(%s_%s %s)" % (r, args[1].value, args[0].id), CLASSES3[r][args[1].value]
        if isinstance(f, ast.Name) and f.id == "__getkey" and len(args) == 1 and isinstance(args[0], ast.Name):
            t = self.ty.get(args[0].id, "")
            if not t.startswith("key:"):
                return [], args[0].id, t
            t1 = self.fresh()
            return ["do %s <- py_unwrap %s;" % (t1, args[0].id)], t1, t[4:]       # KeyError
        if isinstance(f, ast.Name) and f.id == "ArchiveTimestamp" and len(args) == 1 and not e.keywords and self.module is not None \
                and "ArchiveTimestamp" not in self.local_names() and any(
                    isinstance(st, ast.ImportFrom) and st.module == "py7zr.helpers" and any(a.name == "ArchiveTimestamp" and a.asname is None for a in st.names)
                    for st in self.module.body):
            # helpers.ArchiveTimestamp is a subclass of int without __new__/__init__: ArchiveTimestamp(v) is the integer v
            p, v, t = self.expr(args[0])
            if t != "int":
                self.refuse(e, "ArchiveTimestamp argument type " + t)
            return p, v, "int"
        if isinstance(f, ast.Attribute) and f.attr == "get" and len(args) in (1, 2) and not e.keywords:
            df = self.dict_field(f.value, args[0])
            if df is not None and df[2].startswith("key:"):
                dflt = args[1] if len(args) == 2 else ast.Constant(value=None)
                inner = df[2][4:]
                if isinstance(dflt, ast.Constant) and dflt.value is None and inner in ("optint",):
                    # d.get(k): None when absent, else the (possibly None) value
                    return df[0], "(match %s with Some v => v | None => None end)" % df[1], inner
                if isinstance(dflt, ast.Constant) and dflt.value is None and inner == "str":
                    return df[0], df[1], "optstr"
                if isinstance(dflt, ast.Constant) and dflt.value is False and inner == "bool":
                    return df[0], "(match %s with Some b => b | None => false end)" % df[1], "bool"
                self.refuse(e, "dict.get default")
        if isinstance(f, ast.Name) and f.id == "bool" and len(args) == 1 and not e.keywords and self.module is not None \
                and "bool" not in self.local_names():
            p, v, t = self.expr(args[0])
            if t == "bool":
                return p, v, "bool"
            self.refuse(e, "bool() of " + t)
        # file.read(n)
        if isinstance(f, ast.Attribute) and self.is_file(f.value):
            if f.attr == "read" and self.io == "inp" and len(args) == 1:
                p, n, t = self.expr(args[0])
                if t != "int":
                    self.refuse(e, "read size")
                t1 = self.fresh()
                if self.spec.get("short_reads"):
                    self._short_read_nodes = getattr(self, "_short_read_nodes", set()) | {(e.lineno, e.col_offset)}
                    if len(self._short_read_nodes) > 1:
                        self.refuse(e, "a second read in a method whose file may return short reads")
                    return p + ["let '(%s, inp) := py_read_short inp %s rd in" % (t1, n)], t1, "bytes"
                if self.spec.get("sched"):
                    return p + ["let '(%s, inp, sched) := py_read_sched inp %s sched in" % (t1, n)], t1, "bytes"
                return p + ["let '(%s, inp) := rd_read inp %s in" % (t1, n)], t1, "bytes"
            self.refuse(e, "file method " + f.attr)
        if isinstance(f, ast.Attribute):
            # int.from_bytes(x, byteorder="little")
            if isinstance(f.value, ast.Name) and f.value.id == "int" and f.attr == "from_bytes":
                ok = len(args) == 1 and len(e.keywords) == 1 and e.keywords[0].arg == "byteorder" \
                    and isinstance(e.keywords[0].value, ast.Constant) and e.keywords[0].value.value == "little"
                ok = ok or (len(args) == 2 and isinstance(args[1], ast.Constant) and args[1].value == "little"
                            and not e.keywords)
                if not ok:
                    self.refuse(e, "from_bytes form")
                p, v, t = self.expr(args[0])
                if t != "bytes":
                    self.refuse(e, "from_bytes arg")
                return p, "(py_from_bytes_le %s)" % v, "int"
            # x.to_bytes(n, "little") ; x.bit_length()
            if f.attr == "to_bytes":
                if not (len(args) == 2 and isinstance(args[1], ast.Constant) and args[1].value == "little"):
                    self.refuse(e, "to_bytes form")
                p, v, t = self.expr(f.value)
                pn, n, tn = self.expr(args[0])
                if t != "int" or tn != "int":
                    self.refuse(e, "to_bytes types")
                t1 = self.fresh()
                return p + pn + ["do %s <- py_to_bytes_le %s %s;" % (t1, v, n)], t1, "bytes"
            if f.attr == "bit_length" and not args:
                p, v, t = self.expr(f.value)
                if t != "int":
                    self.refuse(e, "bit_length type")
                return p, "(py_bit_length %s)" % v, "int"
            if self.module is not None:
                return self.call2(e)
            self.refuse(e, "method " + f.attr)
        if not isinstance(f, ast.Name):
            self.refuse(e, "call target")
        fn = f.id
        if self.module is not None and (fn.startswith("__mk_") and fn[5:] in CLASSES3 or (fn in CTOR_RECORDS and fn not in self.local_names())):
            rec = fn[5:] if fn.startswith("__mk_") else fn
            names = list(CLASSES3[rec]) if fn.startswith("__mk_") else CTOR_RECORDS[rec]
            if e.keywords or len(args) != len(names) or (not fn.startswith("__mk_") and names != list(CLASSES3[rec])):
                self.refuse(e, "constructor arguments of " + rec)
            pre, vs = [], []
            for a, k in zip(args, names):
                p, v, t = self.expr(a)
                v, t = self.coerce(e, v, t, CLASSES3[rec][k])
                pre += p
                vs.append(v)
            return pre, "(mk%s %s)" % (rec, " ".join(vs)), rec
        if fn == "next" and self.module is not None and len(args) == 1 and not e.keywords and isinstance(args[0], ast.Name) \
                and self.ty.get(args[0].id) == "iter:int" and "next" not in self.local_names():
            t1 = self.fresh()
            it = args[0].id
            return ["do %sn <- py_next %s;" % (t1, it), "let '(%s, %s) := %sn in" % (t1, it, t1)], t1, "int"
        if fn == "next" and self.module is not None and len(args) == 2 and not e.keywords and isinstance(args[0], ast.Name) \
                and self.ty.get(args[0].id) == "iter:bool" and "next" not in self.local_names() \
                and isinstance(args[1], ast.Constant) and isinstance(args[1].value, bool):
            t1 = self.fresh()
            it = args[0].id
            return ["let '(%s, %s) := py_next_default %s %s in" % (t1, it, it, "true" if args[1].value else "false")], t1, "bool"
        if fn == "min" and self.spec.get("out") == "DecompChain" and len(args) == 2 and not e.keywords and "min" not in self.local_names():
            pa, va, ta = self.expr(args[0])
            pb, vb, tb = self.expr(args[1])
            if ta != "int" or tb != "int":
                self.refuse(e, "min() argument types")
            return pa + pb, "(Z.min %s %s)" % (va, vb), "int"
        if fn == "any" and self.spec.get("out") in REC_OUTS and len(args) == 1 and not e.keywords \
                and isinstance(args[0], ast.GeneratorExp) and "any" not in self.local_names():
            ge = args[0]
            g = ge.generators[0]
            if len(ge.generators) != 1 or g.ifs or g.is_async or not isinstance(g.target, ast.Name) or g.target.id in self.ty:
                self.refuse(e, "any() form")
            p, v, t = self.expr(g.iter)
            elty = "bool" if t == "boollist" else t[5:] if t.startswith("list:") else self.refuse(e, "any() over " + t)
            saved = dict(self.ty)
            self.ty[g.target.id] = elty
            pc, c = self.test(ge.elt)
            self.ty = saved
            if pc:
                self.refuse(e, "an element test of any() that may raise")
            return p, "(existsb (fun %s => %s) %s)" % (g.target.id, c, v), "bool"
        if fn == "iter" and self.module is not None and len(args) == 1 and not e.keywords and "iter" not in self.local_names():
            p, v, t = self.expr(args[0])
            if t == "boollist" and self.spec.get("out") in REC_OUTS:
                return p, v, "iter:bool"
            if t != "list:int":
                self.refuse(e, "iter() of " + t)
            return p, v, "iter:int"
        if fn == "sum" and self.module is not None and len(args) == 1 and not e.keywords and "sum" not in self.local_names():
            p, v, t = self.expr(args[0])
            if t != "list:int":
                self.refuse(e, "sum() of " + t)
            return p, "(py_sum %s)" % v, "int"
        if fn == "bool" and self.module is not None and len(args) == 1 and not e.keywords and "bool" not in self.local_names():
            p, v = self.test(args[0])
            return p, v, "bool"
        if fn in ("hasattr", "getattr") and self.module is not None:
            return self.stat_attr(e)
        if fn == "isinstance" and self.module is not None and len(args) == 2 and not e.keywords \
                and isinstance(args[1], ast.Name) and args[1].id == "str" and "str" not in self.local_names():
            p, v, t = self.expr(args[0])
            if p or t != "str":
                self.refuse(e, "isinstance(x, str) on a value of type " + t)
            return [], "true", "bool"     # the parameter is a str by the signature this function is translated under
        if fn == "str" and self.module is not None and len(args) == 1 and not e.keywords and "str" not in self.local_names():
            p, v, t = self.expr(args[0])
            if t != "str":
                self.refuse(e, "str() of " + t)
            return p, v, "str"
        if fn in ("pack", "unpack") and args and isinstance(args[0], ast.Constant):
            fmt = args[0].value
            tag = {"B": "B", "<L": "L", "<Q": "Q"}.get(fmt)
            if tag is None or len(args) != 2:
                self.refuse(e, "pack/unpack format %r" % (fmt,))
            p, v, t = self.expr(args[1])
            t1 = self.fresh()
            if fn == "pack":
                if t != "int":
                    self.refuse(e, "pack arg")
                return p + ["do %s <- py_pack_%s %s;" % (t1, tag, v)], t1, "bytes"
            if t != "bytes" or tag == "B":
                self.refuse(e, "unpack arg")
            # unpack returns a 1-tuple; only `unpack(...)[0]` is supported: handled by caller via tuple type
            return p + ["do %s <- py_unpack_%s %s;" % (t1, tag, v)], "(%s, tt)" % t1, "tuple:int,unit"
        if fn == "ord" and len(args) == 1:
            p, v, t = self.expr(args[0])
            if t != "bytes":
                self.refuse(e, "ord arg")
            t1 = self.fresh()
            return p + ["do %s <- py_ord %s;" % (t1, v)], t1, "int"
        if fn == "int" and len(args) == 1:
            p, v, t = self.expr(args[0])
            if t == "str" and self.module is not None and not e.keywords:
                t1 = self.fresh()
                return p + ["do %s <- py_int_ascii_digits %s;" % (t1, v)], t1, "int"
            if t != "int":
                self.refuse(e, "int() arg")
            return p, v, "int"
        if fn == "len" and len(args) == 1:
            p, v, t = self.expr(args[0])
            if self.module is not None:
                p, v, t = self.unwrap(p, v, t) if t == "optbytes" else (p, v, t)
            return p, "(py_len %s)" % v, "int"
        if fn in ("bytearray", "bytes") and not args and not e.keywords and self.spec.get("out") == "DecompChain":
            return [], "[]", "bytes"
        if fn in ("bytearray", "bytes") and len(args) == 1:
            p, v, t = self.expr(args[0])
            if t == "bytes":
                return p, v, "bytes"
            if t == "int":
                t1 = self.fresh()
                return p + ["do %s <- py_zeros %s;" % (t1, v)], t1, "bytes"
            self.refuse(e, "bytes() arg")
        if fn == "unhexlify" and len(args) == 1 and isinstance(args[0], ast.Constant) and isinstance(args[0].value, str):
            bs = bytes.fromhex(args[0].value)
            return [], "[" + "; ".join(str(b) for b in bs) + "]", "bytes"
        if fn == "reduce" and len(args) == 3 and isinstance(args[0], ast.Name) and args[0].id in ("and_", "or_"):
            p, v, t = self.expr(args[1])
            pi, i, ti = self.expr(args[2])
            if t != "boollist" or ti != "bool":
                self.refuse(e, "reduce types")
            return p + pi, "(%s %s %s)" % ("py_all" if args[0].id == "and_" else "py_any", i, v), "bool"
        if fn in WHITELIST or (self.module is not None and fn in WAVE2 and WAVE2[fn]["kind"] in ("reader", "writer", "pure")
                               and WAVE2[fn]["file"] == self.spec.get("file") and fn not in self.local_names()):
            if fn in WHITELIST:
                _, _, kind, argtys, retty = WHITELIST[fn]
            else:
                kind, argtys, retty = WAVE2[fn]["kind"], WAVE2[fn]["args"], WAVE2[fn]["ret"]
            pre, vs = [], []
            cargs = list(args)
            # f(*name) where name is the variadic parameter that stands for one argument
            cargs = [a.value if isinstance(a, ast.Starred) and isinstance(a.value, ast.Name) and a.value.id == self.spec.get("vararg_one")
                     else a for a in cargs]
            if fn not in WHITELIST and WAVE2[fn].get("cwd"):
                if not self.spec.get("cwd"):
                    self.refuse(e, "call of %s, which uses pathlib.Path.cwd()" % fn)
            if kind in ("reader", "writer"):
                if not cargs or not self.is_file(cargs[0]):
                    self.refuse(e, "call of %s without the file" % fn)
                cargs = cargs[1:]
            if e.keywords and self.module is not None and all(k.arg in argtys for k in e.keywords):
                names = list(argtys)
                if len(cargs) + len(e.keywords) == len(names) and [k.arg for k in e.keywords] == names[len(cargs):]:
                    cargs = cargs + [k.value for k in e.keywords]
                else:
                    self.refuse(e, "keyword arguments of " + fn)
            elif e.keywords:
                self.refuse(e, "call arity/keywords of " + fn)
            if len(cargs) != len(argtys):
                self.refuse(e, "call arity/keywords of " + fn)
            for a, (an, at) in zip(cargs, argtys.items()):
                p, v, t = self.expr(a)
                if self.module is not None and t == "optbytes" and at == "bytes":
                    p, v, t = self.unwrap(p, v, t)
                if self.spec.get("out") in REC_OUTS and t == "optint" and at == "int":
                    p, v, t = self.unwrap(p, v, t)      # None where a number is packed: struct.error / TypeError
                if t != at:
                    self.refuse(e, "argument type of %s.%s" % (fn, an))
                pre += p
                vs.append(v)
            t1 = self.fresh()
            if kind == "reader":
                if self.io != "inp":
                    self.refuse(e, "reader call in non-reader")
                return pre + ["do %s <- %s inp %s;" % (t1 + "r", fn, " ".join(vs)),
                              "let '(%s, inp) := %s in" % (t1, t1 + "r")], t1, retty
            if kind == "writer":
                if self.io != "out":
                    self.refuse(e, "writer call in non-writer")
                return pre + ["do %s <- %s %s;" % (t1, fn, " ".join(vs)), "let out := out ++ %s in" % t1], "tt", "none"
            qfn = fn
            if fn not in WHITELIST and WAVE2[fn]["out"] != self.spec.get("out") and self.spec.get("out") == "HelpersPath2":
                qfn = "%s.%s" % (WAVE2[fn]["out"], fn)       # a function generated into another file
            if fn not in WHITELIST and WAVE2[fn].get("cwd"):
                vs.append("cwd0")
            return pre + ["do %s <- %s %s;" % (t1, qfn, " ".join(vs))], t1, retty
        self.refuse(e, "call of " + fn)

    def call2(self, e):
        """second wave: method calls"""
        f, args = e.func, e.args
        if e.keywords:
            if f.attr == "write" and self.io == "out" and isinstance(f.value, ast.Name) and f.value.id.startswith("self_"):
                r3 = self.record_call(e, self.dotted(f))       # self.x.write(file, k=v): keywords matched against the callee
                if r3 is not None:
                    return r3
            self.refuse(e, "keyword arguments")
        d = self.dotted(f)
        if d == "struct.pack" and self.is_module("struct") and len(args) == 2 and isinstance(args[0], ast.Constant) \
                and args[0].value in ("B", "<L", "<Q"):
            p, v, t = self.expr(args[1])
            if t != "int":
                self.refuse(e, "pack arg")
            t1 = self.fresh()
            return p + ["do %s <- py_pack_%s %s;" % (t1, {"B": "B", "<L": "L", "<Q": "Q"}[args[0].value], v)], t1, "bytes"
        r3 = self.record_call(e, d)
        if r3 is not None:
            return r3
        if d == "functools.reduce" and self.is_module("functools") and len(args) == 3 \
                and self.dotted(args[0]) in ("operator.or_", "operator.and_") and self.is_module("operator"):
            p, v, t = self.expr(args[1])
            pi, i, ti = self.expr(args[2])
            if t != "boollist" or ti != "bool":
                self.refuse(e, "reduce types")
            return p + pi, "(%s %s %s)" % ("py_all" if self.dotted(args[0]) == "operator.and_" else "py_any", i, v), "bool"
        if d == "functools.reduce" and self.is_module("functools") and len(args) == 3 and isinstance(args[0], ast.Name) \
                and args[0].id in ("or_", "and_") and args[0].id not in self.local_names():
            p, v, t = self.expr(args[1])
            pi, i, ti = self.expr(args[2])
            if t != "boollist" or ti != "bool":
                self.refuse(e, "reduce types")
            return p + pi, "(%s %s %s)" % ("py_all" if args[0].id == "and_" else "py_any", i, v), "bool"
        if d == "functools.reduce" and self.is_module("functools") and len(args) == 3 and isinstance(args[0], ast.Lambda) \
                and ast.unparse(args[0]) not in ("lambda x, y: x or y", "lambda x, y: x and y"):
            lam = args[0]
            ps = [a.arg for a in lam.args.args]
            p, v, t = self.expr(args[1])
            pi, i, ti = self.expr(args[2])
            elt = "bool" if t == "boollist" else t[5:] if t.startswith("list:") else None
            if len(ps) != 2 or lam.args.defaults or elt is None or any(x in self.ty for x in ps):
                self.refuse(e, "reduce lambda")
            saved = dict(self.ty)
            self.ty[ps[0]], self.ty[ps[1]] = ti, elt
            pb, vb = self.test(lam.body) if ti == "bool" else self.expr(lam.body)[:2]
            self.ty = saved
            if pb:
                self.refuse(e, "effect in a reduce lambda")
            return p + pi, "(fold_left (fun %s %s => %s) %s %s)" % (ps[0], ps[1], vb, v, i), ti
        if d == "functools.reduce" and self.is_module("functools") and len(args) == 3 and isinstance(args[0], ast.Lambda) \
                and ast.unparse(args[0]) in ("lambda x, y: x or y", "lambda x, y: x and y"):
            p, v, t = self.expr(args[1])
            pi, i, ti = self.expr(args[2])
            if t != "boollist" or ti != "bool":
                self.refuse(e, "reduce types")
            return p + pi, "(%s %s %s)" % ("py_all" if " and " in ast.unparse(args[0]) else "py_any", i, v), "bool"
        if d == "pathlib.Path.cwd" and self.is_module("pathlib") and not args and self.spec.get("cwd"):
            return [], "cwd0", "path"
        if d == "pathlib.Path" and self.is_module("pathlib") and len(args) == 1 and self.spec.get("out") == "HelpersPath2" \
                and not isinstance(args[0], ast.Starred):
            p0, v0, t0 = self.expr(args[0])
            if t0 == "path":
                return p0, v0, "path"          # Path(p) of a path object p: the same path
        if d == "pathlib.Path" and self.is_module("pathlib"):
            # pathlib.Path(s) / pathlib.Path(*segments): the path object whose raw segments are the arguments
            if len(args) == 1 and isinstance(args[0], ast.Starred):
                p, v, t = self.expr(args[0].value)
                if t != "list:str":
                    self.refuse(e, "pathlib.Path(*x) argument type " + t)
                return p, "(%s : ppath)" % v, "path"
            pre, vs = [], []
            for a in args:
                p, v, t = self.expr(a)
                if t != "str":
                    self.refuse(e, "pathlib.Path argument type " + t)
                pre += p
                vs.append(v)
            return pre, "([%s] : ppath)" % "; ".join(vs), "path"
        if d in self.spec.get("externs", {}) and self.is_module(d.split(".")[0]):
            fn, ats, rt = self.spec["externs"][d]
            if len(args) != len(ats):
                self.refuse(e, "arity of " + d)
            pre, vs = [], []
            for a, at in zip(args, ats):
                p, v, t = self.expr(a)
                if t != at:
                    self.refuse(e, "argument type of %s: %s" % (d, t))
                pre += p
                vs.append(v)
            return pre, "(%s %s)" % (fn, " ".join(vs)), rt
        if isinstance(f.value, ast.Name) and f.value.id == "self" and self.spec.get("out") in REC_OUTS:
            return self.selfcall3(e)
        if isinstance(f.value, ast.Name) and f.value.id == "self" and self.kind == "method":
            return self.selfcall(e)
        if isinstance(f.value, ast.Attribute) and isinstance(f.value.value, ast.Name) and f.value.value.id == "self" \
                and self.kind == "method":
            return self.self_regex(e)
        if isinstance(f.value, ast.Attribute) and isinstance(f.value.value, ast.Name) and f.value.value.id == "self" \
                and self.kind == "objmethod":
            sv, st_ = self.spec["state"].get(f.value.attr, (None, None))
            if st_ == "cipher" and f.attr in self.spec["cipher_ops"] and len(args) == 1:
                p, v, t = self.expr(args[0])
                if t != "bytes":
                    self.refuse(e, "cipher argument type " + t)
                t1 = self.fresh()
                return p + ["do %sr <- %s %s %s;" % (t1, self.spec["cipher_ops"][f.attr], sv, v),
                            "let '(%s, %s) := %sr in" % (sv, t1, t1)], t1, "bytes"
            self.refuse(e, "method self.%s.%s" % (f.value.attr, f.attr))
        if d is not None and d.startswith("stat.") and self.is_module("stat") and f.attr in STAT_FUNCTIONS and len(args) == 1:
            fn, rt = STAT_FUNCTIONS[f.attr]
            p, v, t = self.unwrap(*self.expr(args[0]))
            if t != "int":
                self.refuse(e, "stat.%s argument type %s" % (f.attr, t))
            t1 = self.fresh()
            return p + ["do %s <- %s %s;" % (t1, fn, v)], t1, rt
        if d == "os.path.realpath" and self.is_module("os") and self.spec.get("realpath_of") and len(args) == 1 and not e.keywords \
                and isinstance(args[0], ast.Name) and args[0].id == self.spec["realpath_of"]:
            return [], "real0", "str"        # what the operating system answers: an explicit parameter
        if d in EXTERNAL_FUNCTIONS and self.is_module(d.split(".")[0]):
            fn, ats, rt = EXTERNAL_FUNCTIONS[d]
            if len(args) != len(ats):
                self.refuse(e, "arity of " + d)
            pre, vs = [], []
            for a, at in zip(args, ats):
                p, v, t = self.expr(a)
                if t != at:
                    self.refuse(e, "argument type of %s: %s" % (d, t))
                pre += p
                vs.append(v)
            return pre, "(%s %s)" % (fn, " ".join(vs)), rt
        if d == "re.match" and self.is_module("re"):
            if not (len(args) == 2 and isinstance(args[0], ast.Constant) and args[0].value in RE_MATCH_PATTERNS):
                self.refuse(e, "re.match with a pattern the translator does not know")
            p, v, t = self.expr(args[1])
            if t != "str":
                self.refuse(e, "re.match argument type " + t)
            return p, "(%s %s)" % (RE_MATCH_PATTERNS[args[0].value], v), "optmatch0"
        p, v, t = self.expr(f.value)
        if t == "str" and f.attr in ("startswith", "endswith") and len(args) == 1 and isinstance(args[0], ast.Tuple) \
                and args[0].elts:
            # s.startswith((a, b, ...)): any of them
            pre, alts = list(p), []
            for x in args[0].elts:
                px, vx, tx = self.expr(x)
                if px or tx != "str":
                    self.refuse(e, "%s tuple element" % f.attr)
                alts.append("(py_%s %s %s)" % (f.attr, v, vx))
            return pre, "(" + " || ".join(alts) + ")", "bool"
        if t == "str" and f.attr == "lstrip" and len(args) == 1:
            pa, a, ta = self.expr(args[0])
            if ta != "str":
                self.refuse(e, "lstrip argument type " + ta)
            return p + pa, "(py_lstrip %s %s)" % (v, a), "str"
        if t == "str" and f.attr == "rstrip" and len(args) == 1 and not e.keywords and self.spec.get("out") == "HelpersPath2":
            pa, a, ta = self.expr(args[0])
            if ta != "str":
                self.refuse(e, "rstrip argument type " + ta)
            return p + pa, "(py_rstrip %s %s)" % (v, a), "str"
        if t == "match2" and f.attr == "group" and len(args) == 1 and self.const_int(args[0]) in (1, 2):
            return p, "(%s %s)" % ("fst" if self.const_int(args[0]) == 1 else "snd", v), "str"
        if t == "str" and f.attr in ("startswith", "endswith") and len(args) == 1:
            pa, a, ta = self.expr(args[0])
            if ta != "str":
                self.refuse(e, "%s argument type %s" % (f.attr, ta))
            return p + pa, "(py_%s %s %s)" % (f.attr, v, a), "bool"
        if t == "optpath" and self.spec.get("out") == "HelpersPath2":
            p, v, t = self.unwrap(p, v, t)         # a method of None: AttributeError
        if t == "path" and f.attr == "is_absolute" and not args:
            return p, "(pp_is_absolute %s)" % v, "bool"
        if t == "path" and f.attr == "as_posix" and not args and not e.keywords and self.spec.get("out") == "HelpersPath2":
            return p, "(pp_str %s)" % v, "str"          # posix flavour: str(path)
        if t == "path" and f.attr == "joinpath" and len(args) == 1 and self.spec.get("out") == "HelpersPath2":
            pa, a, ta = self.expr(args[0])
            if ta == "optpath":
                pa, a, ta = self.unwrap(pa, a, ta)
            if ta == "str":
                return p + pa, "(pp_joinpath %s %s)" % (v, a), "path"
            if ta == "path":
                return p + pa, "(pp_joinpath_p %s %s)" % (v, a), "path"
            self.refuse(e, "joinpath argument type " + ta)
        if t == "path" and f.attr == "relative_to" and len(args) == 1 and self.spec.get("out") == "HelpersPath2":
            pa, a, ta = self.expr(args[0])
            if ta != "path":
                self.refuse(e, "relative_to argument type " + ta)
            t1 = self.fresh()
            return p + pa + ["do %s <- pp_relative_to %s %s;" % (t1, v, a)], t1, "path"       # ValueError when not below
        if self.spec.get("out") in REC_OUTS and len(args) == 1 and isinstance(args[0], ast.Constant) \
                and args[0].value == "utf-16LE" and not e.keywords:
            t1 = self.fresh()
            if t == "bytes" and f.attr == "decode":
                return p + ["do %s <- py_decode_utf16le %s;" % (t1, v)], t1, "str"
            if t == "char" and f.attr == "encode":
                return p + ["do %s <- py_encode_utf16le_char %s;" % (t1, v)], t1, "bytes"
            if t == "str" and f.attr == "encode":
                return p + ["do %s <- py_encode_utf16le %s;" % (t1, v)], t1, "bytes"
        if self.spec.get("out") in REC_OUTS and t == "str" and f.attr == "replace" and len(args) == 2 and not e.keywords \
                and all(isinstance(a, ast.Constant) and isinstance(a.value, str) and len(a.value) == 1 for a in args):
            return p, "(py_replace_char %s %d %d)" % (v, ord(args[0].value), ord(args[1].value)), "str"
        if t == "stage" and f.attr == "decompress" and len(args) == 2 and not e.keywords and isinstance(f.value, ast.Name) \
                and f.value.id in getattr(self, "enum_ctx", {}):
            # decompressor.decompress(data, max_length) on the i-th element of self.chain: the abstract step; the element is
            # an object that changes in place, i.e. the list holds the new state at index i
            idx, lst = self.enum_ctx[f.value.id]
            pa, va, ta = self.expr(args[0])
            pb, vb, tb = self.expr(args[1])
            if ta != "bytes" or tb != "int":
                self.refuse(e, "argument types of a stage's decompress")
            t1 = self.fresh()
            return p + pa + pb + ["let '(%ss, %s) := dstep %s %s %s in" % (t1, t1, v, va, vb),
                                  "do %s <- py_setitem %s %s %ss;" % (lst, lst, idx, t1)], t1, "bytes"
        if t == "stage" and f.attr in ("compress", "flush") and not e.keywords and isinstance(f.value, ast.Name) \
                and f.value.id in getattr(self, "enum_ctx", {}) and self.spec.get("out") == "CompChain" and len(args) == (1 if f.attr == "compress" else 0):
            # compressor.compress(data) / compressor.flush() on the i-th element of self.chain: the abstract calls; the element is an
            # object that changes in place: the list holds the new state at index i, and so does the loop variable from here on
            idx, lst = self.enum_ctx[f.value.id]
            pa, va = [], ""
            if args:
                pa, va, ta = self.expr(args[0])
                if ta != "bytes":
                    self.refuse(e, "argument type of a stage's compress: " + ta)
            t1 = self.fresh()
            call = "cstep %s %s" % (v, va) if args else "cflush %s" % v
            return p + pa + ["let '(%ss, %s) := %s in" % (t1, t1, call), "do %s <- py_setitem %s %s %ss;" % (lst, lst, idx, t1),
                             "let %s := %ss in" % (f.value.id, t1)], t1, "bytes"
        self.refuse(e, "method %s of %s" % (f.attr, t))

    def class_node(self):
        return next((n for n in self.module.body if isinstance(n, ast.ClassDef) and n.name == self.spec.get("cls")), None)

    def self_attr_value(self, name):
        """the expression bound to self.<name>: the only `self.<name> = e` of the class (in __init__), or the only
        class-level `<name> = e`; None when it is assigned more than once or not found"""
        cls = self.class_node()
        if cls is None:
            return None
        found = []
        for st in ast.walk(self.module):
            tgts = []
            if isinstance(st, ast.Assign):
                tgts = st.targets
            elif isinstance(st, (ast.AugAssign, ast.AnnAssign)):
                tgts = [st.target]
            elif isinstance(st, ast.Delete):
                tgts = st.targets
            for t in tgts:
                for n in ast.walk(t):
                    if isinstance(n, ast.Attribute) and n.attr == name:
                        found.append((st, "inst"))
                    if isinstance(n, ast.Name) and n.id == name and st in cls.body:
                        found.append((st, "class"))
            if isinstance(st, ast.Call) and isinstance(st.func, ast.Name) and st.func.id in ("setattr", "delattr") \
                    and len(st.args) >= 2 and not (isinstance(st.args[1], ast.Constant) and st.args[1].value != name):
                found.append((st, "setattr"))
        if len(found) != 1 or not isinstance(found[0][0], ast.Assign) or len(found[0][0].targets) != 1:
            return None
        st, where = found[0]
        if where == "inst":
            init = next((n for n in cls.body if isinstance(n, ast.FunctionDef) and n.name == "__init__"), None)
            t = st.targets[0]
            if init is None or st not in init.body or not (isinstance(t, ast.Attribute) and isinstance(t.value, ast.Name)
                                                            and t.value.id == "self"):
                return None
        return st.value

    def self_regex(self, e):
        """self.<pat>.match(x) where self.<pat> = re.compile(<known pattern>, re.IGNORECASE)"""
        f, args = e.func, e.args
        v = self.self_attr_value(f.value.attr)
        ok = isinstance(v, ast.Call) and self.dotted(v.func) == "re.compile" and self.is_module("re") \
            and len(v.args) == 2 and not v.keywords \
            and isinstance(v.args[0], ast.Constant) and isinstance(v.args[0].value, str) \
            and self.dotted(v.args[1]) == "re.IGNORECASE"
        if not ok or f.attr != "match" or len(args) != 1 or e.keywords:
            self.refuse(e, "regular expression use")
        m = _re.fullmatch(RE_DIGITS_OPTLETTER, v.args[0].value)
        if m is None or len(set(m.group(1))) != len(m.group(1)):
            self.refuse(e, "regular expression %r is not one the translator knows" % v.args[0].value)
        p, a, t = self.expr(args[0])
        if t != "str":
            self.refuse(e, "match() argument type " + t)
        return p, "(re_digits_optletter_ci %s %s)" % (str_lit(m.group(1)), a), "optmatch2"

    def self_dict(self, e):
        """self.<d>[k] where <d> is a class-level dict literal with distinct str keys and int-valued entries"""
        v = self.self_attr_value(e.value.attr)
        if not isinstance(v, ast.Dict) or not v.keys:
            self.refuse(e, "self.%s is not a dict literal" % e.value.attr)
        items, seen = [], set()
        for k, x in zip(v.keys, v.values):
            if not (isinstance(k, ast.Constant) and isinstance(k.value, str)) or k.value in seen:
                self.refuse(e, "dict key")
            seen.add(k.value)
            px, vx, tx = self.expr(x)
            if px or tx != "int":
                self.refuse(e, "dict value")
            items.append("(%s, %s)" % (str_lit(k.value), vx))
        pk, kv, tk = self.expr(e.slice)
        if tk != "str":
            self.refuse(e, "dict key type " + tk)
        t1 = self.fresh()
        return pk + ["do %s <- py_dict_str_get [%s] %s;" % (t1, "; ".join(items), kv)], t1, "int"

    def method_spec(self, cls, name):
        sp = WAVE2.get("%s.%s" % (cls, name))
        return sp if sp is not None and sp["file"] == self.spec.get("file") else None

    def record_call(self, e, d):
        """calls on / of the record classes: C.retrieve(file), obj.write(file), self.m(..), it.count(True), next(it)"""
        f, args = e.func, e.args
        # C.retrieve(file, a..)
        if isinstance(f.value, ast.Name) and f.value.id in CLASSES3 and f.value.id not in self.ty and f.attr == "retrieve":
            sp = self.method_spec(f.value.id, "retrieve")
            if sp is None or self.io != "inp" or not args or not self.is_file(args[0]) or e.keywords or len(args) - 1 != len(sp["args"]):
                self.refuse(e, "call of %s.retrieve" % f.value.id)
            pre, vs = [], []
            for a, (an, at) in zip(args[1:], sp["args"].items()):
                p, v, t = self.expr(a)
                if t != at:
                    self.refuse(e, "argument type of %s.retrieve.%s: %s" % (f.value.id, an, t))
                pre += p
                vs.append(v)
            t1 = self.fresh()
            return pre + ["do %sr <- %s inp %s;" % (t1, sp["coqname"], " ".join(vs)), "let '(%s, inp) := %sr in" % (t1, t1)], t1, sp["cls"]
        if f.attr == "count" and len(args) == 1 and isinstance(args[0], ast.Constant) and args[0].value is True and not e.keywords:
            p, v, t = self.expr(f.value)
            if t == "boollist":
                return p, "(py_count_true %s)" % v, "int"
        if not (isinstance(f.value, ast.Name) and (f.value.id == "self" or f.value.id in CLASSES3)) and f.attr not in ("write", "append", "pop", "count"):
            sp0 = [sp for k, sp in WAVE2.items() if sp.get("kind") == "objfun" and k.endswith("." + f.attr) and sp["file"] == self.spec.get("file")]
            if len(sp0) == 1 and not e.keywords and len(args) == len(sp0[0]["args"]):
                sp = sp0[0]
                p, v, t = self.expr(f.value)
                if t == sp["cls"]:
                    pre, vs = list(p), [v]
                    for a, (an, at) in zip(args, sp["args"].items()):
                        pa, va, ta = self.expr(a)
                        if ta != at:
                            self.refuse(e, "argument type of %s.%s" % (sp["cls"], f.attr))
                        pre += pa
                        vs.append(va)
                    t1 = self.fresh()
                    return pre + ["do %s <- %s %s;" % (t1, sp["coqname"], " ".join(vs))], t1, sp["ret"]
        if f.attr == "write" and self.io == "out" and self.fields and isinstance(f.value, ast.Name) \
                and f.value.id.startswith("self_") and f.value.id[5:] in self.fields \
                and (self.fields[f.value.id[5:]].startswith("opt:") or self.method_spec(self.fields[f.value.id[5:]], "write") is not None
                     and self.method_spec(self.fields[f.value.id[5:]], "write").get("mutates")):
            # self.x.write(file, a..) where x holds an object (or None: AttributeError) of a record class
            fld = f.value.id[5:]
            ft = self.fields[fld]
            cls = ft[4:] if ft.startswith("opt:") else ft
            sp = self.method_spec(cls, "write") if cls in CLASSES3 else None
            if sp is None or not args or not self.is_file(args[0]) or len(args) - 1 > len(sp["args"]):
                self.refuse(e, "call of self.%s.write" % fld)
            callee = find_function(self.module, cls + ".write")
            cparams = [a.arg for a in callee.args.args][2:]
            defaults = dict(zip(reversed(cparams), reversed(callee.args.defaults)))
            given = dict(zip(cparams, args[1:]))
            for kw in e.keywords:
                if kw.arg is None or kw.arg not in cparams or kw.arg in given:
                    self.refuse(e, "keyword argument of self.%s.write" % fld)
                given[kw.arg] = kw.value
            pre, vs = [], []
            for an, at in sp["args"].items():
                a = given.get(an, defaults.get(an))
                if a is None:
                    self.refuse(e, "missing argument %s of self.%s.write" % (an, fld))
                pa, va, ta = self.expr(a)
                if ta != at or (pa and an not in given):
                    self.refuse(e, "argument type of self.%s.write.%s" % (fld, an))
                pre += pa
                vs.append(va)
            recv = "self_" + fld
            if ft.startswith("opt:"):
                t0 = self.fresh()
                pre.append("do %s <- py_unwrap %s;" % (t0, recv))
                recv = t0
            t1 = self.fresh()
            call = "do %s <- %s %s;" % (t1, sp["coqname"], " ".join([recv] + vs))
            if sp.get("mutates"):
                if self.kind != "objwriter" or not self.spec.get("mutates"):
                    self.refuse(e, "a method that changes the object called from one that may not")
                t2, t3 = self.fresh(), self.fresh()
                return pre + [call, "let '(%s, %s) := %s in" % (t2, t3, t1),
                              "let self_%s := %s in" % (fld, "(Some %s)" % t2 if ft.startswith("opt:") else t2),
                              "let out := out ++ %s in" % t3], "tt", "none"
            return pre + [call, "let out := out ++ %s in" % t1], "tt", "none"
        if isinstance(f.value, ast.Name) and self.ty.get(f.value.id) in CLASSES3 and f.attr == "write" and self.io == "out":
            cls = self.ty[f.value.id]
            sp = self.method_spec(cls, "write")
            if sp is None or sp.get("mutates") or not args or not self.is_file(args[0]) or e.keywords or len(args) != 1 + len(sp["args"]):
                self.refuse(e, "call of %s.write" % cls)
            t1 = self.fresh()
            return ["do %s <- %s %s;" % (t1, sp["coqname"], f.value.id), "let out := out ++ %s in" % t1], "tt", "none"
        return None

    def selfcall3(self, e):
        """self.m(..) in a record method: a pure method (is_simple), or a reader method that continues on the same file"""
        f, args = e.func, e.args
        sp = self.method_spec(self.spec["cls"], f.attr)
        if sp is None and args and isinstance(args[-1], ast.Constant) and isinstance(args[-1].value, str):
            # a method specialised on its last (constant str) argument
            sp = self.method_spec(self.spec["cls"], "%s[%s]" % (f.attr, args[-1].value))
            if sp is not None:
                args = args[:-1]
        if sp is None:
            self.refuse(e, "method self.%s" % f.attr)
        if sp["kind"] == "pure" and sp.get("static") and not e.keywords and len(args) == len(sp["args"]):
            pre, vs = [], []
            for a, (an, at) in zip(args, sp["args"].items()):
                p, v, t = self.expr(a)
                if t != at:
                    self.refuse(e, "argument type of self.%s: %s" % (f.attr, t))
                pre += p
                vs.append(v)
            t1 = self.fresh()
            return pre + ["do %s <- %s %s;" % (t1, sp["coqname"], " ".join(vs))], t1, sp["ret"]
        if sp["kind"] == "objwriter" and self.kind == "objwriter" and not sp.get("mutates") and not sp.get("tell") and args \
                and self.is_file(args[0]) and not e.keywords and len(args) == 1 + len(sp["args"]):
            pre, vs = [], [self.self_record()]
            for a, (an, at) in zip(args[1:], sp["args"].items()):
                p, v, t = self.expr(a)
                if t != at:
                    self.refuse(e, "argument type of self.%s: %s" % (f.attr, t))
                pre += p
                vs.append(v)
            t1 = self.fresh()
            return pre + ["do %s <- %s %s;" % (t1, sp["coqname"], " ".join(vs)), "let out := out ++ %s in" % t1], "tt", "none"
        if sp["kind"] == "method":
            if e.keywords or len(args) != len(sp["args"]):
                self.refuse(e, "arity of self.%s" % f.attr)
            pre, vs = [], []
            for a, (an, at) in zip(args, sp["args"].items()):
                p, v, t = self.expr(a)
                if t != at:
                    self.refuse(e, "argument type of self.%s: %s" % (f.attr, t))
                pre += p
                vs.append(v)
            t1 = self.fresh()
            return pre + ["do %s <- %s %s;" % (t1, sp["coqname"], " ".join(vs))], t1, sp["ret"]
        if sp.get("retself") and sp["kind"] == "objproc" and self.fields and not e.keywords and len(args) == len(sp["args"]) \
                and self.kind in ("objproc", "objreader"):
            pre, vs = [], [self.self_record()]
            for a, (an, at) in zip(args, sp["args"].items()):
                p, v, t = self.expr(a)
                if t != at:
                    self.refuse(e, "argument type of self.%s: %s" % (f.attr, t))
                pre += p
                vs.append(v)
            t1, t2 = self.fresh(), self.fresh()
            cls = self.spec["cls"]
            lines = pre + ["do %sp <- %s %s;" % (t1, sp["coqname"], " ".join(vs)), "let '(%s, %s) := %sp in" % (t1, t2, t1)]
            lines += ["let self_%s := %s_%s %s in" % (fld, cls, fld, t1) for fld in self.fields]
            return lines, t2, sp["ret"]
        if sp.get("retself") and sp["kind"] == "objreader" and self.kind == "objreader" and len(args) == 1 + len(sp["args"]) \
                and self.is_file(args[0]) and not e.keywords and not sp.get("fuel") and bool(sp.get("short_reads")) == bool(self.spec.get("short_reads")):
            if sp.get("short_reads"):
                # at most one call site that reads: the branches of an `if` are alternatives, so two sites on different
                # paths would be fine, but the one parameter rd stands for ONE read per call of this method
                self._short_read_nodes = getattr(self, "_short_read_nodes", set()) | {(e.lineno, e.col_offset)}
            pre, vs = [], []
            for a, (an, at) in zip(args[1:], sp["args"].items()):
                p, v, t = self.expr(a)
                if t != at or self.has_io(a):
                    self.refuse(e, "argument type of self.%s: %s" % (f.attr, t))
                pre += p
                vs.append(v)
            t1, t2 = self.fresh(), self.fresh()
            cls = self.spec["cls"]
            lines = pre + ["do %sr <- %s %s inp%s%s;" % (t1, sp["coqname"], self.self_record(), "".join(" " + v for v in vs),
                                                          " rd" if sp.get("short_reads") else ""),
                           "let '((%s, %s), inp) := %sr in" % (t1, t2, t1)]
            lines += ["let self_%s := %s_%s %s in" % (fld, cls, fld, t1) for fld in self.fields]
            return lines, t2, sp["ret"]
        if sp["kind"] in ("objfun", "objproc") and self.fields and not e.keywords and len(args) == len(sp["args"]):
            pre, vs = [], [self.self_record()]
            for a, (an, at) in zip(args, sp["args"].items()):
                p, v, t = self.expr(a)
                if t != at:
                    self.refuse(e, "argument type of self.%s: %s" % (f.attr, t))
                pre += p
                vs.append(v)
            t1 = self.fresh()
            cls = self.spec["cls"]
            if sp["kind"] == "objfun":
                return pre + ["do %s <- %s %s;" % (t1, sp["coqname"], " ".join(vs))], t1, sp["ret"]
            if self.kind in ("objfun",):
                self.refuse(e, "a method that changes the object called from one that may not")
            lines = pre + ["do %s <- %s %s;" % (t1, sp["coqname"], " ".join(vs))]
            lines += ["let self_%s := %s_%s %s in" % (fld, cls, fld, t1) for fld in self.fields]
            return lines, "tt", "none"
        if sp["kind"] == "objreader" and self.kind == "objreader" and len(args) == 1 + len(sp["args"]) and self.is_file(args[0]) \
                and not e.keywords and not sp.get("fuel"):
            t1 = self.fresh()
            cls = self.spec["cls"]
            pre, vs = [], []
            for a, (an, at) in zip(args[1:], sp["args"].items()):
                p, v, t = self.expr(a)
                if t != at or self.has_io(a):
                    self.refuse(e, "argument type of self.%s: %s" % (f.attr, t))
                pre += p
                vs.append(v)
            lines = pre + ["do %sr <- %s %s inp%s;" % (t1, sp["coqname"], self.self_record(), "".join(" " + v for v in vs)),
                           "let '(%s, inp) := %sr in" % (t1, t1)]
            lines += ["let self_%s := %s_%s %s in" % (fld, cls, fld, t1) for fld in self.fields]
            return lines, "tt", "none"
        self.refuse(e, "method self.%s" % f.attr)

    def selfcall(self, e):
        """self.m(...) inside a method: the property table of the spec, or another translated method of the class"""
        f, args = e.func, e.args
        props = self.spec.get("self_props", {})
        if f.attr == "_get_property" and len(args) == 1 and isinstance(args[0], ast.Constant) and args[0].value in props:
            pn = props[args[0].value]
            return [], pn, self.spec["selfargs"][pn]
        callee = WAVE2.get("%s.%s" % (self.spec.get("cls"), f.attr))
        if callee is None or callee.get("selfargs") is None or any(
                self.spec.get("selfargs", {}).get(k) != t for k, t in callee["selfargs"].items()):
            self.refuse(e, "method self.%s" % f.attr)
        if len(args) != len(callee["args"]):
            self.refuse(e, "arity of self.%s" % f.attr)
        pre, vs = [], list(callee["selfargs"])
        for a, (an, at) in zip(args, callee["args"].items()):
            p, v, t = self.unwrap(*self.expr(a)) if at == "int" else self.expr(a)
            if t != at:
                self.refuse(e, "argument type of self.%s.%s" % (f.attr, an))
            pre += p
            vs.append(v)
        t1 = self.fresh()
        return pre + ["do %s <- %s %s;" % (t1, callee["coqname"], " ".join(vs))], t1, callee["ret"]

    def stat_attr(self, e):
        """hasattr(stat, "NAME") / getattr(stat, "NAME") for the names of STAT_CONSTANTS"""
        fn, args = e.func.id, e.args
        if len(args) == 2 and isinstance(args[0], ast.Name) and args[0].id == "stat" and self.is_module("stat") \
                and isinstance(args[1], ast.Constant) and args[1].value in STAT_CONSTANTS and not e.keywords:
            if fn == "hasattr":
                return [], "true", "bool"
            return [], args[1].value, "int"
        self.refuse(e, fn + " form")

    # ---------------- statements ----------------
    def assigned(self, stmts):
        """names assigned anywhere in stmts (in order of first appearance)"""
        out = []

        def add(n):
            if n not in out:
                out.append(n)

        for st in ast.walk(ast.Module(body=list(stmts), type_ignores=[])):
            if isinstance(st, (ast.Assign, ast.AugAssign, ast.AnnAssign)):
                tgts = st.targets if isinstance(st, ast.Assign) else [st.target]
                for t in tgts:
                    if isinstance(t, ast.Subscript):
                        t = t.value
                    for n in ast.walk(t):
                        if isinstance(n, ast.Name):
                            add(n.id)
            elif isinstance(st, ast.Expr) and isinstance(st.value, ast.Call):
                c = st.value
                if isinstance(c.func, ast.Attribute) and c.func.attr in ("append", "pop") and isinstance(c.func.value, ast.Name):
                    add(c.func.value.id)
                if isinstance(c.func, ast.Attribute) and self.is_file(c.func.value):
                    add(self.io or "out")
                if isinstance(c.func, ast.Attribute) and c.func.attr in ("append", "pop") and isinstance(c.func.value, ast.Attribute) \
                        and isinstance(c.func.value.value, ast.Name) and c.func.value.value.id == "self" and self.fields:
                    add("self_" + c.func.value.attr)
            if isinstance(st, ast.Attribute) and isinstance(st.ctx, ast.Store) and isinstance(st.value, ast.Name) \
                    and st.value.id == "self" and self.fields:
                add("self_" + st.attr)
            if isinstance(st, ast.Call) and isinstance(st.func, ast.Attribute) and isinstance(st.func.value, ast.Name) and self.outvar is not None \
                    and st.func.value.id == self.outvar:
                add("out")
            if isinstance(st, ast.Call) and isinstance(st.func, ast.Attribute) and self.is_file(st.func.value) and self.spec.get("sched"):
                add("inp")
                add("sched")
            if isinstance(st, ast.Call) and isinstance(st.func, ast.Attribute) and st.func.attr in ("compress", "flush") \
                    and isinstance(st.func.value, ast.Name) and self.spec.get("out") == "CompChain" and self.fields \
                    and "chain" in self.fields and st.func.value.id != "self":
                add("self_chain")
            if isinstance(st, ast.Call) and isinstance(st.func, ast.Attribute) and isinstance(st.func.value, ast.Name) \
                    and st.func.value.id == "self" and self.fields and self.module is not None:
                sp = WAVE2.get("%s.%s" % (self.spec.get("cls"), st.func.attr))
                if sp is not None and sp["kind"] in ("objproc", "objreader"):
                    for fld in self.fields:
                        add("self_" + fld)
            if isinstance(st, ast.Call) and isinstance(st.func, ast.Attribute) and st.func.attr == "decompress" \
                    and isinstance(st.func.value, ast.Name) and self.spec.get("out") == "DecompChain" and self.fields \
                    and "chain" in self.fields and st.func.value.id != "self":
                add("self_chain")
            if isinstance(st, ast.Call) and isinstance(st.func, ast.Name) and st.func.id == "next" and len(st.args) in (1, 2) \
                    and isinstance(st.args[0], ast.Name) and self.module is not None:
                add(st.args[0].id)
            if isinstance(st, ast.Call) and self.module is not None and isinstance(st.func, ast.Attribute) \
                    and st.func.attr in ("retrieve", "write", "_read", "read") and self.io and self.spec.get("out") in REC_OUTS \
                    and any(self.is_file(a) for a in st.args):
                add(self.io)
            if isinstance(st, ast.Call) and self.module is not None and isinstance(st.func, ast.Attribute) \
                    and isinstance(st.func.value, ast.Name) and st.func.value.id == "self" and self.io \
                    and self.spec.get("out") in REC_OUTS and any(self.is_file(a) for a in st.args):
                add(self.io)      # self.m(file, ..): a method of the class that reads / writes the file
            if isinstance(st, ast.Call) and self.module is not None and isinstance(st.func, ast.Attribute) and st.func.attr == "write" \
                    and self.fields and self.io == "out":
                # self.x.write(file): x is rebound to the object after the call when that write changes its object
                rv = st.func.value
                fld = rv.id[5:] if isinstance(rv, ast.Name) and rv.id.startswith("self_") else (
                    rv.attr if isinstance(rv, ast.Attribute) and isinstance(rv.value, ast.Name) and rv.value.id == "self" else None)
                if fld in self.fields:
                    ft = self.fields[fld]
                    sp2 = self.method_spec(ft[4:] if ft.startswith("opt:") else ft, "write")
                    if sp2 is not None and sp2.get("mutates"):
                        add("self_" + fld)
            if isinstance(st, ast.Call):
                if isinstance(st.func, ast.Attribute) and self.is_file(st.func.value):
                    add(self.io or "out")
                if isinstance(st.func, ast.Name) and st.func.id in WHITELIST and WHITELIST[st.func.id][2] in ("reader", "writer"):
                    add(self.io or "out")
                if isinstance(st.func, ast.Name) and self.module is not None and st.func.id in WAVE2 \
                        and WAVE2[st.func.id]["kind"] in ("reader", "writer"):
                    add(self.io)
        return out

    def ret(self, val):
        if self.loops:
            self.loops[-1]["ret"] = True
            return ["RETURN " + val]
        if self.spec.get("retself") and self.kind == "objreader" and self.spec.get("outfile"):
            return ["Ok (((%s, %s), inp), out)" % (self.self_record(), val)]
        if self.spec.get("retself") and self.kind == "objproc" and self.spec.get("outfile"):
            return ["Ok ((%s, %s), out)" % (self.self_record(), val)]
        if self.spec.get("retself") and self.kind == "objreader":
            return ["Ok ((%s, %s), inp)" % (self.self_record(), val)]
        if self.spec.get("retself") and self.kind == "objproc":
            return ["Ok (%s, %s)" % (self.self_record(), val)]
        if self.kind == "objreader" and self.retty == "self" and val == "tt":
            return ["Ok (%s, inp)" % self.self_record()]
        if self.kind in ("objproc", "classinit"):
            return ["Ok %s" % self.self_record()]
        if self.kind in ("reader", "objreader"):
            return ["Ok (%s, inp)" % val]
        if self.kind == "writer":
            return ["Ok out"]
        if self.kind == "objwriter":
            return ["Ok (%s, out)" % self.self_record()] if self.spec.get("mutates") else ["Ok out"]
        if self.kind == "objmethod":
            return ["Ok (%s, (%s))" % (val, ", ".join(v for v, _ in self.spec["state"].values()))]
        return ["Ok %s" % val]

    def block(self, stmts, k):
        """translate stmts; k() yields the lines of the continuation (called when the
        block falls through).  Returns lines."""
        if not stmts:
            return k()
        st, rest = stmts[0], stmts[1:]
        cont = lambda: self.block(rest, k)  # noqa: E731
        if isinstance(st, ast.Expr) and isinstance(st.value, ast.Constant) and isinstance(st.value.value, str):
            return cont()  # docstring
        if isinstance(st, ast.Pass):
            return cont()
        if self.module is not None:
            lifted = self.lift_ifexp(st)
            if lifted is not None:
                return self.block([lifted] + rest, k)
        if isinstance(st, ast.Assert) and self.module is not None and not self.loops:
            # assert c : AssertionError when c is false (the message, if any, is not evaluated here)
            p, c = self.test(st.test)
            return p + ["if %s then" % c] + ["  " + x for x in cont()] + ["else", "Err EOther"]
        if isinstance(st, ast.Return) and isinstance(st.value, ast.Call) and self.io == "out" and self.has_io(st.value) \
                and self.module is not None:
            # `return file.write(x)` / `return write_bytes(file, x)`: the value returned by a write is not modelled
            p, v, t = self.expr(st.value) if not (isinstance(st.value.func, ast.Attribute) and self.is_file(st.value.func.value)) \
                else self.file_write(st.value)
            return p + self.ret("tt")
        if isinstance(st, ast.Return) and isinstance(st.value, ast.IfExp) and self.module is not None:
            # `return a if c else b`  ==  `if c: return a` / `else: return b`
            v = st.value
            fake = ast.If(test=v.test, body=[ast.Return(value=v.body)], orelse=[ast.Return(value=v.orelse)])
            for n in [fake] + fake.body + fake.orelse:
                ast.copy_location(n, st)
            return self.block([fake], lambda: self.refuse(st, "fall through a conditional return"))
        if isinstance(st, ast.Return):
            if st.value is None and self.kind == "objwriter" and not self.loops:
                return ["Ok (%s, out)" % self.self_record()] if self.spec.get("mutates") else ["Ok out"]
            if st.value is None:
                return self.ret("tt")
            p, v, t = self.expr(st.value)
            if self.kind == "objwriter":
                self.refuse(st, "return of a value from a writer method")
            if self.module is not None and self.retty == "optint" and t == "int":
                v, t = "(Some %s)" % v, "optint"
            if self.module is not None and self.retty == "optint" and t == "nonetype":
                v, t = "None", "optint"
            if self.module is not None and t != self.retty:
                self.refuse(st, "return of %s in a function returning %s" % (t, self.retty))
            return p + self.ret(v)
        if isinstance(st, ast.AnnAssign) and self.module is not None and isinstance(st.target, ast.Name) \
                and st.target.id.startswith("self_") and st.target.id[5:] in self.fields and st.value is not None:
            # `self.x: T = v`: the annotation is checked against the record
            ann = ast.unparse(st.annotation).replace("List", "list")
            want = {"int": "int", "bool": "bool", "list[int]": "list:int", "list[bool]": "boollist", "bytes": "bytes"}.get(ann)
            if want != self.fields[st.target.id[5:]]:
                self.refuse(st, "annotation %s of a field of type %s" % (ann, self.fields[st.target.id[5:]]))
            fake = ast.Assign(targets=[st.target], value=st.value)
            ast.copy_location(fake, st)
            return self.block([fake] + rest, k)
        if isinstance(st, ast.AnnAssign) and self.module is not None and isinstance(st.annotation, ast.Name) \
                and st.annotation.id.startswith("list__") and st.annotation.id[6:] in CLASSES3:
            self.ty[st.target.id] = "list:" + st.annotation.id[6:]
            return ["let %s : list %s := [] in" % (st.target.id, st.annotation.id[6:])] + cont()
        if isinstance(st, ast.AnnAssign) and self.module is not None and isinstance(st.target, ast.Name) and st.value is not None \
                and not isinstance(st.value, ast.List):
            # `x: T = v` on a local variable: the annotation is not used (the type is the type of v)
            fake = ast.Assign(targets=[st.target], value=st.value)
            ast.copy_location(fake, st)
            return self.block([fake] + rest, k)
        if isinstance(st, ast.AnnAssign) and self.module is not None:
            # `x: list[str] = []`
            ann = ast.unparse(st.annotation).replace("List", "list")
            if isinstance(st.target, ast.Name) and ann == "list[bool]" and isinstance(st.value, ast.List) and not st.value.elts \
                    and self.spec.get("out") in REC_OUTS:
                self.ty[st.target.id] = "boollist"
                return ["let %s : list bool := [] in" % st.target.id] + cont()
            if not (isinstance(st.target, ast.Name) and ann == "list[str]" and isinstance(st.value, ast.List)
                    and not st.value.elts):
                self.refuse(st, "annotated assignment")
            self.ty[st.target.id] = "list:str"
            return ["let %s : list (list Z) := [] in" % st.target.id] + cont()
        if isinstance(st, ast.Assign) and self.spec.get("out") == "ArchiveinfoSig" and len(st.targets) == 1 and self.io == "inp" \
                and self.is_file(st.targets[0]) and isinstance(st.value, ast.Call) and self.dotted(st.value.func) == "io.BytesIO" \
                and self.is_module("io") and len(st.value.args) == 1 and not st.value.keywords \
                and isinstance(st.value.args[0], ast.Call) and isinstance(st.value.args[0].func, ast.Name) \
                and st.value.args[0].func.id == "read_fully" and "read_fully" not in self.local_names() \
                and len(st.value.args[0].args) == 2 and not st.value.args[0].keywords and self.is_file(st.value.args[0].args[0]) \
                and any(isinstance(x, ast.ImportFrom) and x.module == "py7zr.helpers" and any(a.name == "read_fully" and a.asname is None for a in x.names)
                        for x in self.module.body):
            # file = io.BytesIO(read_fully(file, n)): from here on `file` is the next n bytes (fewer at the end of the file);
            # helpers.read_fully(fp, n) on a file object = fp.read(n) repeated until n bytes or the end (prims.py checks it)
            p, n, t = self.expr(st.value.args[0].args[1])
            if t != "int" or p:
                self.refuse(st, "read_fully size")
            t1 = self.fresh()
            return ["do _ <- (if %s <? 0 then Err EOther else Ok tt);" % n, "let '(%s, _) := rd_read inp %s in" % (t1, n), "let inp := %s in" % t1] + cont()
        if isinstance(st, ast.Assign) and self.spec.get("out") == "ArchiveinfoSig" and len(st.targets) == 1 \
                and isinstance(st.targets[0], ast.Name) and isinstance(st.value, ast.Call) and self.dotted(st.value.func) == "io.BytesIO" \
                and self.is_module("io") and not st.value.args and not st.value.keywords and st.targets[0].id not in self.ty:
            self.ty[st.targets[0].id] = "wbuf"
            return ["let %s : bytes := [] in" % st.targets[0].id] + cont()
        if isinstance(st, ast.Assign) and self.spec.get("out") in REC_OUTS and len(st.targets) == 1 \
                and isinstance(st.targets[0], ast.Name) and isinstance(st.value, ast.Call) and self.dotted(st.value.func) == "io.BytesIO" \
                and self.is_module("io") and len(st.value.args) == 1 and not st.value.keywords and self.io == "inp" \
                and st.targets[0].id != self.filevar and self.ty.get(st.targets[0].id, "filebuf") == "filebuf":
            p, v, t = self.expr(st.value.args[0])
            if t != "bytes":
                self.refuse(st, "io.BytesIO of " + t)
            self.ty[st.targets[0].id] = "filebuf"
            return p + ["let %s := %s in" % (st.targets[0].id, v)] + cont()
        if isinstance(st, ast.Assign):
            if len(st.targets) != 1:
                self.refuse(st, "multi-target assign")
            tg = st.targets[0]
            p, v, t = self.expr(st.value)
            if isinstance(tg, ast.Name) and tg.id in self.narrowed and t != "bytes":
                self.narrowed.discard(tg.id)
            if isinstance(tg, ast.Name) and (tg.id in self.decl or (tg.id.startswith("self_") and tg.id[5:] in self.fields)):
                ft = self.decl[tg.id] if tg.id in self.decl else self.fields[tg.id[5:]]
                if ft == "optlist:int" and isinstance(st.value, ast.List) and not st.value.elts:
                    v, t = "(Some [])", ft
                v, t = self.coerce(st, v, t, ft)
                self.ty[tg.id] = ft
                if isinstance(st.value, ast.List) and not st.value.elts:
                    t = ft
                if t == "list:bool":
                    t = "boollist"
                if t != ft:
                    self.refuse(st, "assignment of %s to the field %s : %s" % (t, tg.id[5:], ft))
                if v == "[]":
                    return p + ["let %s : %s := [] in" % (tg.id, coq_ty(ft))] + cont()
                return p + ["let %s := %s in" % (tg.id, v)] + cont()
            if isinstance(tg, ast.Name):
                if self.module is not None and isinstance(st.value, ast.List) and not st.value.elts:
                    lt = self.spec.get("locals", {}).get(tg.id)
                    if lt is None:
                        self.refuse(st, "empty list literal without annotation")
                    self.ty[tg.id] = lt      # the element type is given by the spec (checked by the uses: append of that type)
                    return p + ["let %s : %s := [] in" % (tg.id, coq_ty(lt))] + cont()
                self.ty[tg.id] = "boollist" if t == "list:bool" else t
                if t == "list:int" and not st.value.elts if isinstance(st.value, ast.List) else False:
                    self.ty[tg.id] = "boollist"  # `result = []` in read_boolean
                return p + ["let %s := %s in" % (tg.id, v)] + cont()
            if isinstance(tg, ast.Tuple) and t.startswith("tuple:") and all(isinstance(x, ast.Name) for x in tg.elts):
                parts = t[6:].split(",")
                if len(parts) != len(tg.elts):
                    self.refuse(st, "tuple arity")
                for x, pt in zip(tg.elts, parts):
                    self.ty[x.id] = pt
                return p + ["let '(%s) := %s in" % (", ".join(x.id for x in tg.elts), v)] + cont()
            self.refuse(st, "assign target")
        if isinstance(st, ast.AugAssign):
            tg = st.target
            fake = ast.BinOp(left=tg, op=st.op, right=st.value)
            ast.copy_location(fake, st)
            if isinstance(tg, ast.Name):
                p, v, t = self.expr(ast.BinOp(left=ast.Name(id=tg.id, ctx=ast.Load()), op=st.op, right=st.value))
                if tg.id in self.decl:
                    v, t = self.coerce(st, v, t, self.decl[tg.id])
                return p + ["let %s := %s in" % (tg.id, v)] + cont()
            if isinstance(tg, ast.Subscript) and isinstance(tg.value, ast.Name) and (
                    self.ty.get(tg.value.id) == "bytes" or (self.ty.get(tg.value.id) == "list:int" and self.spec.get("out") in ("DecompChain", "CompChain"))):
                arr = tg.value.id
                pi, i, ti = self.expr(tg.slice)
                t0 = self.fresh()
                load = ast.Name(id=t0, ctx=ast.Load())
                self.ty[t0] = "int"
                p, v, t = self.expr(ast.BinOp(left=load, op=st.op, right=st.value))
                return pi + ["do %s <- py_index %s %s;" % (t0, arr, i)] + p + \
                    ["do %s <- py_setitem %s %s %s;" % (arr, arr, i, v)] + cont()
            self.refuse(st, "augassign target")
        if isinstance(st, ast.Expr) and self.spec.get("out") in REC_OUTS and isinstance(st.value, ast.Call) \
                and isinstance(st.value.func, ast.Name) and st.value.func.id == "list" and "list" not in self.local_names() \
                and "map" not in self.local_names() and len(st.value.args) == 1 and not st.value.keywords \
                and isinstance(st.value.args[0], ast.Call) and isinstance(st.value.args[0].func, ast.Name) \
                and st.value.args[0].func.id == "map" and len(st.value.args[0].args) == 3 and not st.value.args[0].keywords \
                and isinstance(st.value.args[0].args[0], ast.Lambda):
            # list(map(lambda x, y: x.update({"k": y}), L, V)): for the pairs of zip(L, V), the dict x gets x["k"] = y
            lam, lst, vec = st.value.args[0].args
            ps = [a.arg for a in lam.args.args]
            b = lam.body
            ok = len(ps) == 2 and not lam.args.defaults and isinstance(b, ast.Call) and isinstance(b.func, ast.Attribute) \
                and b.func.attr == "update" and isinstance(b.func.value, ast.Name) and b.func.value.id == ps[0] \
                and len(b.args) == 1 and not b.keywords and isinstance(b.args[0], ast.Dict) and len(b.args[0].keys) == 1 \
                and isinstance(b.args[0].keys[0], ast.Constant) and isinstance(b.args[0].values[0], ast.Name) \
                and b.args[0].values[0].id == ps[1] and isinstance(lst, ast.Name) and lst.id.startswith("self_")
            if not ok:
                self.refuse(st, "list(map(lambda ...)) form")
            lt = self.ty.get(lst.id, "")
            rec = lt[5:] if lt.startswith("list:") else ""
            key = b.args[0].keys[0].value
            pv, vv, tv = self.expr(vec)
            if rec not in DICT_RECORDS or key not in CLASSES3[rec] or pv:
                self.refuse(st, "list(map(lambda ...)) over %s" % lt)
            elt = "bool" if tv == "boollist" else tv[5:] if tv.startswith("list:") else self.refuse(st, "map over " + tv)
            fv, _ = self.coerce(st, "y", elt, CLASSES3[rec][key])
            flds = " ".join(fv if fk == key else "(%s_%s x)" % (rec, fk) for fk in CLASSES3[rec])
            return ["let %s := py_zip_update (fun x y => mk%s %s) %s %s in" % (lst.id, rec, flds, lst.id, vv)] + cont()
        if isinstance(st, ast.Expr):
            c = st.value
            if isinstance(c, ast.Call) and isinstance(c.func, ast.Attribute) and self.kind == "objmethod" \
                    and isinstance(c.func.value, ast.Attribute) and isinstance(c.func.value.value, ast.Name) \
                    and c.func.value.value.id == "self":
                sv, st_ = self.spec["state"].get(c.func.value.attr, (None, None))
                if st_ == "buffer" and not c.keywords:
                    if c.func.attr in ("add", "set") and len(c.args) == 1:
                        p, v, t = self.expr(c.args[0])
                        if t != "bytes":
                            self.refuse(st, "Buffer.%s argument type %s" % (c.func.attr, t))
                        new = "%s ++ %s" % (sv, v) if c.func.attr == "add" else v
                        return p + ["let %s := %s in" % (sv, new)] + cont()
                    if c.func.attr == "reset" and not c.args:
                        return ["let %s : bytes := [] in" % sv] + cont()
                self.refuse(st, "method self.%s.%s" % (c.func.value.attr, c.func.attr))
            if isinstance(c, ast.Call) and isinstance(c.func, ast.Attribute):
                if self.outvar is not None and isinstance(c.func.value, ast.Name) and c.func.value.id == self.outvar:
                    if not (c.func.attr == "write" and len(c.args) == 1 and not c.keywords):
                        self.refuse(st, "method %s of the output file" % c.func.attr)
                    p, v, t = self.expr(c.args[0])
                    if t != "bytes":
                        self.refuse(st, "write of non-bytes")
                    return p + ["let out := out ++ %s in" % v] + cont()
                if self.is_file(c.func.value) and c.func.attr == "write" and self.io == "out" and len(c.args) == 1:
                    p, v, t = self.expr(c.args[0])
                    if t != "bytes":
                        self.refuse(st, "write of non-bytes")
                    return p + ["let out := out ++ %s in" % v] + cont()
                if c.func.attr == "append" and isinstance(c.func.value, ast.Name) and len(c.args) == 1:
                    n = c.func.value.id
                    p, v, t = self.expr(c.args[0])
                    if self.module is not None and self.ty.get(n) == "boollist" and t == "bool":
                        return p + ["let %s := %s ++ [%s] in" % (n, n, v)] + cont()
                    if self.module is not None and self.ty.get(n) in ("list:int", "optlist:int") and t == "optint":
                        p, v, t = self.unwrap(p, v, t)      # a None here fails later in the Python (arithmetic / struct.pack)
                    if self.module is not None and self.ty.get(n) == "optlist:int" and t == "int":
                        t1 = self.fresh()
                        return p + ["do %s <- py_unwrap %s;" % (t1, n), "let %s := Some (%s ++ [%s]) in" % (n, t1, v)] + cont()
                    if self.module is not None and self.ty.get(n) != "list:" + t:
                        self.refuse(st, "append of %s to %s" % (t, self.ty.get(n)))
                    return p + ["let %s := %s ++ [%s] in" % (n, n, v)] + cont()
                if c.func.attr == "pop" and isinstance(c.func.value, ast.Name) and not c.args and not c.keywords \
                        and self.module is not None and self.ty.get(c.func.value.id, "").startswith("list:"):
                    n = c.func.value.id   # the popped element is discarded (expression statement)
                    return ["do %s <- py_pop_ %s;" % (n, n)] + cont()
            if isinstance(c, ast.Call):
                p, v, t = self.expr(c)
                return p + cont()
            self.refuse(st, "expression statement")
        if isinstance(st, ast.If) and self.module is not None and isinstance(st.test, ast.Compare) \
                and len(st.test.ops) == 1 and isinstance(st.test.ops[0], (ast.Is, ast.IsNot)) \
                and isinstance(st.test.comparators[0], ast.Constant) and st.test.comparators[0].value is None \
                and not (self.spec.get("out") in REC_OUTS and self.spec.get("out") != "CompChain"):
            # `if x is None:` / `if x is not None:` on an Optional[int] variable: a match that rebinds x as the int
            x = st.test.left
            if not (isinstance(x, ast.Name) and self.ty.get(x.id) in ("optint", "optmatch2", "optpath", "optbytes")):
                self.refuse(st, "`is None` test on something that is not an Optional variable")
            inner = {"optint": "int", "optmatch2": "match2", "optpath": "path", "optbytes": "bytes"}[self.ty[x.id]]
            none_body, some_body = (st.body, st.orelse) if isinstance(st.test.ops[0], ast.Is) else (st.orelse, st.body)
            saved = dict(self.ty)
            a = self.block(none_body, cont)
            self.ty = dict(saved)
            self.ty[x.id] = inner
            b = self.block(some_body, cont)
            self.ty = dict(saved)
            return ["match %s with" % x.id, "| None =>"] + ["  " + y for y in a] + ["| Some %s =>" % x.id] + \
                ["  " + y for y in b] + ["end"]
        if isinstance(st, ast.If) and self.spec.get("out") == "CompChain" and isinstance(st.test, ast.Name) \
                and self.ty.get(st.test.id) == "optbytes" and st.test.id not in self.narrowed:
            # `if x:` on an Optional[bytes] variable: in the first branch x is a (non-empty) bytes object
            p, c = self.test(st.test)
            saved = dict(self.ty)
            self.narrowed.add(st.test.id)
            try:
                a = self.try_block(st.body, cont)
            finally:
                self.narrowed.discard(st.test.id)
            self.ty = dict(saved)
            b = self.try_block(st.orelse, cont)
            self.ty = dict(saved)
            return p + ["if %s then" % c] + ["  " + x for x in a] + ["else"] + b
        if isinstance(st, ast.If) and self.spec.get("join") and rest and not any(
                isinstance(n, (ast.Return, ast.Break, ast.Continue)) for n in ast.walk(st)):
            # both branches fall through (or raise): the statement is an expression that yields the variables it assigns,
            # and the continuation is emitted once
            p, c = self.test(st.test)
            saved = dict(self.ty)
            names = self.assigned([st])
            tmp0 = self.tmp
            ra = self.try_block(st.body, lambda: [])
            ty_a = dict(self.ty)
            self.ty = dict(saved)
            rb = self.try_block(st.orelse, lambda: [])
            ty_b = dict(self.ty)
            if ra == ["Err EUnsupported"]:
                ty_a = dict(ty_b)     # the untranslated branch raises: the types after the `if` are the other branch's
            if rb == ["Err EUnsupported"]:
                ty_b = dict(ty_a)
            self.ty = dict(saved)
            self.tmp = tmp0      # the two passes above only computed the types
            joined = [v for v in names if v in (self.io,) or v in saved or (v in ty_a and v in ty_b)]
            if self.spec.get("out") == "DecompChain":
                # a local that is not read after the `if` is not part of what the statement yields (it may be unbound on a path)
                later = {n.id for r in rest for n in ast.walk(r) if isinstance(n, ast.Name)}
                joined = [v for v in joined if v in (self.io,) or v.startswith("self_") or v in later]
            for v in joined:
                if v != self.io and v not in saved and ty_a[v] != ty_b[v]:
                    self.refuse(st, "variable %s gets different types in the branches" % v)
            tup = "tt" if not joined else joined[0] if len(joined) == 1 else "(%s)" % ", ".join(joined)
            a = self.try_block(st.body, lambda: ["Ok %s" % tup])
            self.ty = dict(saved)
            b = self.try_block(st.orelse, lambda: ["Ok %s" % tup])
            self.ty = dict(saved)
            for v in joined:
                if v != self.io and v not in saved:
                    self.ty[v] = ty_a[v]
            j = self.fresh() + "j"
            lines = p + ["do %s <- (if %s then" % (j, c)] + ["    " + x for x in a] + ["  else"] + ["    " + x for x in b]
            lines[-1] += ");"
            if not joined:
                pass
            elif len(joined) == 1:
                lines.append("let %s := %s in" % (joined[0], j))
            else:
                lines.append("let '(%s) := %s in" % (", ".join(joined), j))
            return lines + cont()
        if isinstance(st, ast.If):
            p, c = self.test(st.test)
            # the continuation is duplicated into both branches (functions are small)
            saved = dict(self.ty)
            a = self.try_block(st.body, cont)
            ty_a = self.ty
            self.ty = dict(saved)
            b = self.try_block(st.orelse, cont)
            for kx, vx in ty_a.items():
                self.ty.setdefault(kx, vx)
            return p + ["if %s then" % c] + ["  " + x for x in a] + ["else"] + b
        if isinstance(st, ast.Raise) and self.module is not None and (not self.loops or self.spec.get("out") in REC_OUTS):
            # raise E(...) : the function ends with Err (the arguments of the exception are not evaluated here: they must
            # be effect-free names / constants)
            x = st.exc

            def harmless(a):
                """an exception argument whose evaluation has no effect and cannot raise (names, constants, %-formatting
                and repr/str of such)"""
                if isinstance(a, (ast.Name, ast.Constant)):
                    return True
                if isinstance(a, ast.BinOp) and isinstance(a.op, ast.Mod) and isinstance(a.left, ast.Constant) \
                        and isinstance(a.left.value, str) and a.left.value.count("%") == 1 and "%s" in a.left.value:
                    return harmless(a.right)
                if isinstance(a, ast.Call) and isinstance(a.func, ast.Name) and a.func.id in ("repr", "str") and len(a.args) == 1 \
                        and not a.keywords and a.func.id not in self.local_names():
                    return isinstance(a.args[0], (ast.Name, ast.Constant))
                return False
            if st.cause is None and isinstance(x, ast.Name) and x.id in EXC_ERR and x.id not in self.local_names() \
                    and self.spec.get("out") == "DecompChain":
                return ["Err %s" % EXC_ERR[x.id]]        # `raise E`: the class is instantiated without arguments
            if st.cause is not None or not (isinstance(x, ast.Call) and isinstance(x.func, ast.Name) and not x.keywords):
                self.refuse(st, "raise form")
            pre = []
            for a in x.args:
                if harmless(a):
                    continue
                if isinstance(a, ast.JoinedStr):
                    # f"...{e:spec}...": the interpolated expressions are evaluated (they may raise), their values dropped
                    for part in a.values:
                        if isinstance(part, ast.Constant):
                            continue
                        v = part.value
                        if harmless(v) or (isinstance(v, ast.Call) and isinstance(v.func, ast.Attribute) and self.is_file(v.func.value)
                                           and v.func.attr == "tell" and not v.args):
                            continue
                        p, _, t = self.expr(v)
                        if t not in ("int", "bytes", "str"):
                            self.refuse(st, "formatted value of type " + t)
                        pre += p
                    continue
                self.refuse(st, "raise form")
            return pre + ["Err %s" % EXC_ERR.get(x.func.id, "EOther")]
        if isinstance(st, ast.Try) and self.spec.get("out") == "HelpersPath2" and len(st.body) == 1 and not st.orelse and not st.finalbody \
                and len(st.handlers) == 1 and isinstance(st.handlers[0].type, ast.Name) and st.handlers[0].type.id == "ValueError" \
                and st.handlers[0].name is None and "ValueError" not in self.local_names() \
                and isinstance(st.body[0], ast.Expr) and isinstance(st.body[0].value, ast.Call) \
                and isinstance(st.body[0].value.func, ast.Attribute) and st.body[0].value.func.attr == "relative_to" \
                and len(st.body[0].value.args) == 1 and not st.body[0].value.keywords:
            # try: a.relative_to(b)  except ValueError: H   -- PurePath.relative_to (no walk_up) raises ValueError exactly when
            # a is not b or below it (pp_is_relative_to; compared with pathlib by harness/prims.py); its value is dropped here
            c = st.body[0].value
            pa, a, ta = self.expr(c.func.value)
            pb, b, tb = self.expr(c.args[0])
            if ta != "path" or tb != "path":
                self.refuse(st, "relative_to on %s, %s" % (ta, tb))
            saved = dict(self.ty)
            h = self.block(st.handlers[0].body, cont)
            self.ty = dict(saved)
            ok = cont()
            return pa + pb + ["if (pp_is_relative_to %s %s) then" % (a, b)] + ["  " + x for x in ok] + ["else"] + h
        if isinstance(st, ast.For):
            return self.forloop(st, cont)
        if isinstance(st, ast.While) and self.module is not None:
            return self.whileloop(st, cont)
        if isinstance(st, ast.Break):
            return ["BREAK"]
        if isinstance(st, ast.Continue):
            return ["CONTINUE"]
        self.refuse(st, "statement")

    # ---------------- third wave: lowering of a method body to plain local variables ----------------
    def lower(self, body):
        """self.x -> self_x ; dict locals with constant keys -> one local per key ; loops that mutate the objects of a
        list attribute -> loops that rebuild the list.  Works on a copy of the body; anything it does not recognise is
        left alone (and then refused by the translation proper)."""
        import copy
        body = [self.rewrite_self(st) if self.fields else copy.deepcopy(st) for st in body]
        body = self.lower_dicts(body)
        body = self.lower_mutating_loops(body)
        for st in body:
            ast.fix_missing_locations(st)
        return body

    def lower_dicts(self, body):
        mod = ast.Module(body=body, type_ignores=[])
        cands = {}
        for st in ast.walk(mod):
            tg = st.targets[0] if isinstance(st, ast.Assign) and len(st.targets) == 1 else \
                st.target if isinstance(st, ast.AnnAssign) else None
            if isinstance(tg, ast.Name) and isinstance(getattr(st, "value", None), ast.Dict) and st.value.keys \
                    and all(isinstance(k, ast.Constant) and isinstance(k.value, str) for k in st.value.keys):
                cands.setdefault(tg.id, set()).update(k.value for k in st.value.keys)
        if not cands:
            return body
        parents = {}
        for p in ast.walk(mod):
            for ch in ast.iter_child_nodes(p):
                parents[ch] = p
        for n in ast.walk(mod):
            if isinstance(n, ast.Name) and n.id in cands:
                p = parents.get(n)
                if isinstance(p, ast.Subscript) and p.value is n and isinstance(p.slice, ast.Constant) and isinstance(p.slice.value, str):
                    cands[n.id].add(p.slice.value)
        recs = {}
        for v, keys in cands.items():
            rs = [r for r in DICT_RECORDS if keys <= set(CLASSES3[r])]
            if len(rs) != 1:
                self.refuse(self.node, "dict %s with keys %s is not one of the known records" % (v, sorted(keys)))
            recs[v] = rs[0]
            for k, t in CLASSES3[rs[0]].items():
                self.decl["%s__%s" % (v, k)] = t
        tr = self

        class T(ast.NodeTransformer):
            def dict_assign(t, st, tg):
                out = []
                for k, v in zip(st.value.keys, st.value.values):
                    out.append(ast.copy_location(ast.Assign(targets=[ast.Name(id="%s__%s" % (tg.id, k.value), ctx=ast.Store())],
                                                            value=t.visit(v)), st))
                return out

            def visit_Assign(t, st):
                if len(st.targets) == 1 and isinstance(st.targets[0], ast.Name) and st.targets[0].id in recs \
                        and isinstance(st.value, ast.Dict):
                    return t.dict_assign(st, st.targets[0])
                return t.generic_visit(st)

            def visit_AnnAssign(t, st):
                if isinstance(st.target, ast.Name) and st.target.id in recs and isinstance(st.value, ast.Dict):
                    return t.dict_assign(st, st.target)
                return t.generic_visit(st)

            def visit_Subscript(t, n):
                if isinstance(n.value, ast.Name) and n.value.id in recs and isinstance(n.slice, ast.Constant) \
                        and isinstance(n.slice.value, str):
                    if n.slice.value not in CLASSES3[recs[n.value.id]]:
                        tr.refuse(n, "key %r of the dict %s" % (n.slice.value, n.value.id))
                    return ast.copy_location(ast.Name(id="%s__%s" % (n.value.id, n.slice.value), ctx=n.ctx), n)
                return t.generic_visit(n)

            def visit_Name(t, n):
                if n.id in recs:
                    if not isinstance(n.ctx, ast.Load):
                        tr.refuse(n, "dict variable %s is rebound" % n.id)
                    r = recs[n.id]
                    return ast.copy_location(ast.Call(func=ast.Name(id="__mk_" + r, ctx=ast.Load()),
                                                      args=[ast.Name(id="%s__%s" % (n.id, k), ctx=ast.Load()) for k in CLASSES3[r]],
                                                      keywords=[]), n)
                return n
        return T().visit(mod).body

    def lower_mutating_loops(self, body):
        """for x in self_L / enumerate(self_L) whose body assigns attributes of x (a record of CLASSES3):
             accN: list[R] = []
             for x in self_L:  x__f = x.f (all fields) ; body with x.f -> x__f ; accN.append(__mk_R(x__f ...))
             self_L = accN"""
        tr = self
        counter = [0]

        def stores_attr(node, var):
            for n in ast.walk(node):
                if isinstance(n, ast.Attribute) and isinstance(n.value, ast.Name) and n.value.id == var:
                    if isinstance(n.ctx, ast.Store):
                        return True
                    # x.attr.append(..) / pop
                if isinstance(n, ast.Subscript) and isinstance(n.value, ast.Name) and n.value.id == var and isinstance(n.ctx, ast.Store) \
                        and isinstance(n.slice, ast.Constant) and isinstance(n.slice.value, str):
                    return True
            for n in ast.walk(node):
                if isinstance(n, ast.Call) and isinstance(n.func, ast.Attribute) and n.func.attr in ("append", "pop") \
                        and isinstance(n.func.value, ast.Attribute) and isinstance(n.func.value.value, ast.Name) \
                        and n.func.value.value.id == var:
                    return True
            return False

        class T(ast.NodeTransformer):
            def visit_For(t, st):
                st = t.generic_visit(st)
                it, tg = st.iter, st.target
                enum = isinstance(it, ast.Call) and isinstance(it.func, ast.Name) and it.func.id == "enumerate" and len(it.args) == 1
                src = it.args[0] if enum else it
                var = tg.elts[1] if enum and isinstance(tg, ast.Tuple) and len(tg.elts) == 2 else tg
                if not (isinstance(src, ast.Name) and isinstance(var, ast.Name) and stores_attr(ast.Module(body=st.body, type_ignores=[]), var.id)):
                    return st
                lt = tr.fields.get(src.id[5:]) if src.id.startswith("self_") else None
                if not (lt and lt.startswith("list:") and lt[5:] in CLASSES3):
                    tr.refuse(st, "loop that assigns attributes of its variable over something that is not a list attribute of self")
                if st.orelse or any(isinstance(n, (ast.Break, ast.Return)) for n in ast.walk(st)):
                    tr.refuse(st, "break / return in a loop that updates the objects of a list")
                rec = lt[5:]
                counter[0] += 1
                acc = "acc%d" % counter[0]
                x = var.id

                class A(ast.NodeTransformer):
                    def visit_Attribute(a, n):
                        if isinstance(n.value, ast.Name) and n.value.id == x and n.attr in CLASSES3[rec] and rec not in DICT_RECORDS:
                            return ast.copy_location(ast.Name(id="%s__%s" % (x, n.attr), ctx=n.ctx), n)
                        return a.generic_visit(n)

                    def visit_Subscript(a, n):
                        if isinstance(n.value, ast.Name) and n.value.id == x and rec in DICT_RECORDS and isinstance(n.slice, ast.Constant) \
                                and isinstance(n.slice.value, str):
                            if n.slice.value not in CLASSES3[rec]:
                                tr.refuse(n, "key %r of the dict %s" % (n.slice.value, x))
                            nm = ast.copy_location(ast.Name(id="%s__%s" % (x, n.slice.value), ctx=n.ctx), n)
                            if isinstance(n.ctx, ast.Store):
                                return nm
                            return ast.copy_location(ast.Call(func=ast.Name(id="__getkey", ctx=ast.Load()), args=[nm], keywords=[]), n)
                        return a.generic_visit(n)
                new_body = [ast.Assign(targets=[ast.Name(id="%s__%s" % (x, f), ctx=ast.Store())],
                                       value=(ast.Call(func=ast.Name(id="__field", ctx=ast.Load()),
                                                       args=[ast.Name(id=x, ctx=ast.Load()), ast.Constant(value=f)], keywords=[])
                                              if rec in DICT_RECORDS else
                                              ast.Attribute(value=ast.Name(id=x, ctx=ast.Load()), attr=f, ctx=ast.Load())))
                            for f in CLASSES3[rec]]
                for f, ft in CLASSES3[rec].items():
                    tr.decl["%s__%s" % (x, f)] = ft
                new_body += [A().visit(b) for b in st.body]
                for n in ast.walk(ast.Module(body=new_body[len(CLASSES3[rec]):], type_ignores=[])):
                    if isinstance(n, ast.Name) and n.id == x:
                        tr.refuse(st, "the loop variable %s is used as a whole object in a loop that updates it" % x)
                new_body.append(ast.Expr(value=ast.Call(
                    func=ast.Attribute(value=ast.Name(id=acc, ctx=ast.Load()), attr="append", ctx=ast.Load()),
                    args=[ast.Call(func=ast.Name(id="__mk_" + rec, ctx=ast.Load()),
                                   args=[ast.Name(id="%s__%s" % (x, f), ctx=ast.Load()) for f in CLASSES3[rec]], keywords=[])],
                    keywords=[])))
                pre = ast.AnnAssign(target=ast.Name(id=acc, ctx=ast.Store()), annotation=ast.Name(id="list__" + rec, ctx=ast.Load()),
                                    value=ast.List(elts=[], ctx=ast.Load()), simple=1)
                loop = ast.For(target=st.target, iter=st.iter, body=new_body, orelse=[])
                post = ast.Assign(targets=[ast.Name(id=src.id, ctx=ast.Store())], value=ast.Name(id=acc, ctx=ast.Load()))
                for n in (pre, loop, post):
                    ast.copy_location(n, st)
                return [pre, loop, post]
        return T().visit(ast.Module(body=body, type_ignores=[])).body

    def try_block(self, stmts, k):
        """block(), except that a branch the translator cannot express for a reason listed in spec["partial"] becomes
        Err EUnsupported (recorded in the report: the generated function is then partial)"""
        ty0, tmp0 = dict(self.ty), self.tmp
        try:
            return self.block(stmts, k)
        except Refused as r:
            for pat in self.spec.get("partial", []):
                if pat in str(r):
                    self.ty, self.tmp = ty0, tmp0
                    note = "line %d: %s" % (stmts[0].lineno if stmts else 0, pat)
                    if note not in self.partial:
                        self.partial.append(note)
                    return ["Err EUnsupported"]
            raise

    def file_write(self, c):
        p, v, t = self.expr(c.args[0]) if len(c.args) == 1 and not c.keywords and c.func.attr == "write" else self.refuse(c, "file method")
        if t != "bytes":
            self.refuse(c, "write of non-bytes")
        return p + ["let out := out ++ %s in" % v], "tt", "none"

    def rewrite_self(self, st):
        """in a method over a record: self.x -> the local variable self_x (one statement, not its nested blocks' copies)"""
        fields = self.fields

        class T(ast.NodeTransformer):
            def visit_Attribute(tr, n):
                if isinstance(n.value, ast.Name) and n.value.id == "self" and n.attr in fields:
                    return ast.copy_location(ast.Name(id="self_" + n.attr, ctx=n.ctx), n)
                return tr.generic_visit(n)
        import copy
        return ast.fix_missing_locations(T().visit(copy.deepcopy(st)))

    def lift_ifexp(self, st):
        """`x.append(a if c else b)` / `v = a if c else b` with an effect-free test -> an if statement"""
        def split(mk, ife):
            # the conditional expression is the whole value: its test is the first thing the statement evaluates
            a, b = mk(ife.body), mk(ife.orelse)
            new = ast.If(test=ife.test, body=[a], orelse=[b])
            for n in (new, a, b):
                ast.copy_location(n, st)
            return ast.fix_missing_locations(new)
        if isinstance(st, ast.Expr) and isinstance(st.value, ast.Call) and isinstance(st.value.func, ast.Attribute) \
                and st.value.func.attr == "append" and len(st.value.args) == 1 and isinstance(st.value.args[0], ast.IfExp) \
                and isinstance(st.value.func.value, ast.Name):
            c = st.value
            return split(lambda v: ast.Expr(value=ast.Call(func=c.func, args=[v], keywords=[])), c.args[0])
        if isinstance(st, ast.Assign) and len(st.targets) == 1 and isinstance(st.targets[0], ast.Name) and isinstance(st.value, ast.IfExp):
            return split(lambda v: ast.Assign(targets=st.targets, value=v), st.value)
        return None

    def whileloop(self, st, cont):
        """while c: body  ->  while_m fuel (fun state => c) (fun state => body) state   (Err EFuel when the fuel runs out)"""
        if st.orelse or not self.spec.get("fuel"):
            self.refuse(st, "while")
        if any(isinstance(n, ast.Return) for n in ast.walk(ast.Module(body=st.body, type_ignores=[]))):
            self.refuse(st, "return inside while")
        state = [v for v in self.assigned(st.body) if v in self.ty or (v in ("inp", "out") and self.spec.get("out") in REC_OUTS)
                 or (v == "sched" and self.spec.get("sched"))]
        if not state:
            self.refuse(st, "loop without state")
        pc, c = self.test(st.test)
        if pc:
            self.refuse(st, "effect in a while condition")
        tup = state[0] if len(state) == 1 else "(%s)" % ", ".join(state)
        spat = state[0] if len(state) == 1 else "'(%s)" % ", ".join(state)
        before = dict(self.ty)
        self.loops.append({"ret": False})
        body = self.block(st.body, lambda: ["CONTINUE"])
        self.loops.pop()
        self.ty = before
        body = [("Ok (%s, true)" % tup) if x.strip() == "BREAK" else ("Ok (%s, false)" % tup) if x.strip() == "CONTINUE" else x
                for x in body]
        st_name = self.fresh() + "s"
        lines = ["do %s <- while_m fuel (fun %s => %s) (fun %s =>" % (st_name, spat, c, spat)]
        lines += ["    " + x for x in body]
        lines[-1] += ") %s;" % tup
        if len(state) == 1:
            lines += ["let %s := %s in" % (state[0], st_name)]
        else:
            lines += ["let '(%s) := %s in" % (", ".join(state), st_name)]
        return lines + cont()

    def forloop(self, st, cont):
        if st.orelse:
            self.refuse(st, "for-else")
        it = st.iter
        pre = []
        if isinstance(it, ast.Call) and isinstance(it.func, ast.Name) and it.func.id == "range":
            if len(it.args) == 1:
                p, hi, t = self.expr(it.args[0])
                pre, xs = p, "(py_range 0 %s)" % hi
            elif len(it.args) == 2:
                p1, lo, _ = self.expr(it.args[0])
                p2, hi, _ = self.expr(it.args[1])
                pre, xs = p1 + p2, "(py_range %s %s)" % (lo, hi)
            elif len(it.args) == 3 and self.module is not None and self.const_int(it.args[2]) == -1:
                p1, lo, t1 = self.expr(it.args[0])
                p2, hi, t2 = self.expr(it.args[1])
                if t1 != "int" or t2 != "int":
                    self.refuse(st, "range argument types")
                pre, xs = p1 + p2, "(py_range_down %s %s)" % (lo, hi)      # range(lo, hi, -1): lo, lo-1, ..., hi+1
            else:
                self.refuse(st, "range arity")
            elty = "int"
        elif isinstance(it, ast.Call) and isinstance(it.func, ast.Name) and it.func.id == "enumerate" and len(it.args) == 1:
            p, v, t = self.expr(it.args[0])
            if t == "boollist":
                pre, xs, elty = p, "(py_enumerate %s)" % v, "tuple:int,bool"
            elif t.startswith("list:") and self.module is not None:
                pre, xs, elty = p, "(py_enumerate %s)" % v, "tuple:int," + t[5:]
                if t == "list:stage" and isinstance(it.args[0], ast.Name) and isinstance(st.target, ast.Tuple) and len(st.target.elts) == 2 \
                        and all(isinstance(x, ast.Name) for x in st.target.elts):
                    self.enum_ctx = dict(getattr(self, "enum_ctx", {}), **{st.target.elts[1].id: (st.target.elts[0].id, it.args[0].id)})
            else:
                self.refuse(st, "enumerate arg type")
        else:
            p, v, t = self.expr(it)
            if t.startswith("list:"):
                pre, xs, elty = p, v, t[5:]
            elif t == "boollist":
                pre, xs, elty = p, v, "bool"
            elif t == "str" and self.spec.get("out") in REC_OUTS:
                pre, xs, elty = p, v, "char"
            else:
                self.refuse(st, "iteration over " + t)
        # loop variable pattern
        tg = st.target
        before = dict(self.ty)
        if self.module is not None:
            for n in ast.walk(tg):
                if isinstance(n, ast.Name) and n.id in self.ty:
                    self.refuse(st, "loop target %s rebinds an existing variable" % n.id)
        if isinstance(tg, ast.Name):
            pat = tg.id
            self.ty[tg.id] = elty
        elif isinstance(tg, ast.Tuple) and elty.startswith("tuple:"):
            parts = elty[6:].split(",")
            if len(parts) != len(tg.elts) or not all(isinstance(x, ast.Name) for x in tg.elts):
                self.refuse(st, "loop target")
            for x, pt in zip(tg.elts, parts):
                self.ty[x.id] = pt
            pat = "'(%s)" % ", ".join(x.id for x in tg.elts)
        else:
            self.refuse(st, "loop target")
        has_ret = any(isinstance(n, ast.Return) for n in ast.walk(ast.Module(body=st.body, type_ignores=[])))
        if has_ret and (self.module is None or (self.kind not in ("pure", "objfun") and not (self.kind == "objproc" and self.spec.get("retself")))):
            self.refuse(st, "return inside loop")
        state = [v for v in self.assigned(st.body) if v in self.ty or v in ("inp", "out")]
        if has_ret:
            # `return v` inside the loop: the state carries rv : option <return type>; the loop breaks with
            # rv = Some v, and the code after the loop returns it
            if "rv" in self.ty or "rv" in state:
                self.refuse(st, "variable named rv in a function with return inside a loop")
            state = state + ["rv"]
        if not state:
            self.refuse(st, "loop without state")
        tup = state[0] if len(state) == 1 else "(%s)" % ", ".join(state)
        spat = state[0] if len(state) == 1 else "'(%s)" % ", ".join(state)
        self.loops.append({"ret": False})
        body = self.block(st.body, lambda: ["CONTINUE"])
        self.loops.pop()
        if self.module is not None:
            self.ty = before    # the loop target and names first bound in the body are not bound after the loop here
        rtup = None
        if has_ret:
            rtup = "(%s)" % ", ".join(state[:-1] + ["Some RV"]) if len(state) > 1 else "Some RV"

        def marker(x):
            y = x.strip()
            if y == "BREAK":
                return "Ok (%s, true)" % tup
            if y == "CONTINUE":
                return "Ok (%s, false)" % tup
            if y.startswith("RETURN ") and has_ret:
                return "Ok (%s, true)" % rtup.replace("RV", y[7:])
            return x
        body = [marker(x) for x in body]
        st_name = self.fresh() + "s"
        init = tup
        if has_ret:
            init = "(%s)" % ", ".join(state[:-1] + ["@None %s" % coq_ty(self.retty)]) if len(state) > 1 \
                else "(@None %s)" % coq_ty(self.retty)
        lines = pre + ["do %s <- for_m %s (fun %s %s =>" % (st_name, xs, pat, spat)]
        lines += ["    " + x for x in body]
        lines[-1] += ") %s;" % init
        if len(state) == 1:
            lines += ["let %s := %s in" % (state[0], st_name)]
        else:
            lines += ["let '(%s) := %s in" % (", ".join(state), st_name)]
        if has_ret:
            return lines + ["match rv with", "| Some r =>"] + ["  " + x for x in self.ret("r")] + ["| None =>"] + \
                ["  " + x for x in cont()] + ["end"]
        return lines + cont()

    def translate(self):
        node = self.node
        params = [a.arg for a in node.args.args]
        if self.spec.get("absolute"):
            # the reader positions the file itself: its first statement is file.seek(n, 0) and there is no other seek
            body = [st for st in node.body if not (isinstance(st, ast.Expr) and isinstance(st.value, ast.Constant))]
            seeks = [n for n in ast.walk(node) if isinstance(n, ast.Call) and isinstance(n.func, ast.Attribute) and n.func.attr == "seek"]
            if not body or len(seeks) != 1 or not (isinstance(body[0], ast.Expr) and body[0].value is seeks[0]) \
                    or len(seeks[0].args) != 2 or ast.unparse(seeks[0].args[1]) != "0" or len(params) < 2 \
                    or ast.unparse(seeks[0].func.value) != params[1]:
                self.refuse(node, "a reader of the whole file must start with file.seek(n, 0)")
        if self.spec.get("seek0"):
            # the writer positions the file at 0 before it writes anything: only asserts may come before file.seek(0, 0),
            # and there is no other seek
            body = [st for st in node.body if not (isinstance(st, ast.Expr) and isinstance(st.value, ast.Constant))]
            k = next((i for i, st in enumerate(body) if not isinstance(st, ast.Assert)), len(body))
            seeks = [n for n in ast.walk(node) if isinstance(n, ast.Call) and isinstance(n.func, ast.Attribute) and n.func.attr == "seek"]
            if k >= len(body) or len(seeks) != 1 or not (isinstance(body[k], ast.Expr) and body[k].value is seeks[0]) \
                    or ast.unparse(seeks[0]) != "%s.seek(0, 0)" % (params[1] if len(params) > 1 else "?"):
                self.refuse(node, "a writer at offset 0 must start (after its asserts) with file.seek(0, 0)")
        if self.kind in ("reader", "writer"):
            self.filevar = params[0]
            params = params[1:]
        if self.kind in ("objfun", "objproc"):
            if not params or params[0] != "self":
                self.refuse(node, "method signature")
            params = params[1:]
            if self.spec.get("outfile"):
                # the first parameter is a file that is only written to: what it receives is collected in `out`
                if not params:
                    self.refuse(node, "method signature")
                self.outvar = params[0]
                params = params[1:]
        if self.kind == "classinit":
            if not params or params[0] != "cls" or [ast.unparse(d) for d in node.decorator_list] != ["classmethod"]:
                self.refuse(node, "classmethod signature")
            params = params[1:]
        if self.kind in ("objreader", "objwriter"):
            if len(params) < 2 or params[0] != "self":
                self.refuse(node, "method signature")
            self.filevar = params[1]
            params = params[2:]
            if self.spec.get("outfile"):
                # the parameter after the file that is read is a file that is only written to: what it receives is collected in `out`
                if self.kind != "objreader" or not params:
                    self.refuse(node, "method signature")
                self.outvar = params[0]
                params = params[1:]
        if self.spec.get("out") == "CompChain":
            self.decl.update(self.spec.get("locals", {}))     # declared types of locals that hold None or a value
        if self.kind in ("objreader", "objwriter", "objfun", "objproc"):
            for n in self.local_names():
                if n.startswith("self_") or n in ("inp", "out"):
                    self.refuse(node, "a variable named " + n)
            # init_of: the class whose __init__ sets the attributes (a subclass that calls super().__init__() first)
            ini = dict.fromkeys(self.fields) if self.spec.get("noinit") else init_fields(self.module, self.spec.get("init_of", self.spec["cls"]))
            for f in self.fields:
                if f in ini:
                    continue
                uses = sorted(((n.lineno, n.col_offset, isinstance(n.ctx, ast.Store)) for n in ast.walk(node)
                               if isinstance(n, ast.Attribute) and n.attr == f and isinstance(n.value, ast.Name) and n.value.id == "self"))
                first_store = [st for st in node.body if isinstance(st, (ast.Assign, ast.AnnAssign))
                               and any(isinstance(t, ast.Attribute) and t.attr == f for t in
                                       (st.targets if isinstance(st, ast.Assign) else [st.target]))]
                if uses and not (uses[0][2] and first_store and first_store[0].lineno == uses[0][0]):
                    self.refuse(node, "field %s is not set by __init__ and may be read before it is assigned" % f)
            for n in ast.walk(node):
                if isinstance(n, ast.Name) and n.id == "self" and not isinstance(getattr(n, "ctx", None), ast.Load):
                    self.refuse(node, "self is rebound")
        if self.kind == "classinit" and any(n.startswith("self_") for n in self.local_names()):
            self.refuse(node, "a variable named self_*")
        if self.kind in ("method", "objmethod"):
            if not params or params[0] != "self":
                self.refuse(node, "method without self")
            params = params[1:]
        if self.spec.get("vararg_one") and node.args.vararg is not None and node.args.vararg.arg == self.spec["vararg_one"] \
                and not (node.args.kwarg or node.args.kwonlyargs or node.args.posonlyargs):
            # `*name` that stands for exactly one argument: the only uses allowed are `f(*name)`
            va = node.args.vararg.arg
            for n in ast.walk(node):
                if isinstance(n, ast.Name) and n.id == va:
                    par = next((q for q in ast.walk(node) if isinstance(q, ast.Starred) and q.value is n), None)
                    if par is None:
                        self.refuse(node, "the variadic parameter %s is used other than as *%s" % (va, va))
            params = params + [va]
        elif self.module is not None and (node.args.vararg or node.args.kwarg or node.args.kwonlyargs or node.args.posonlyargs):
            self.refuse(node, "parameter kinds")
        if list(self.argtys.keys()) != params:
            self.refuse(node, "parameter list %r differs from the whitelist %r" % (params, list(self.argtys)))
        rp_of = self.spec.get("realpath_of")
        if rp_of:
            # the parameter is only handed to os.path.realpath: the generated function takes that result (real0 : str) instead
            uses = [n for n in ast.walk(node) if isinstance(n, ast.Name) and n.id == rp_of]
            calls = [n for n in ast.walk(node) if isinstance(n, ast.Call) and self.dotted(n.func) == "os.path.realpath" and len(n.args) == 1
                     and not n.keywords and n.args[0] in uses]
            if rp_of not in params or len(uses) != 1 or len(calls) != 1 or "real0" in self.local_names() or "real0" in params:
                self.refuse(node, "the parameter %s must be used exactly once, as os.path.realpath(%s)" % (rp_of, rp_of))
            self.ty.pop(rp_of, None)
            self.ty["real0"] = "str"
        sig = " ".join("(%s : %s)" % (("real0", "list Z") if p == rp_of else (p, coq_ty(self.argtys[p]))) for p in params)
        if self.kind == "method":
            for p, t in self.spec["selfargs"].items():
                self.ty[p] = t
            sig = " ".join(["(%s : %s)" % (p, coq_ty(t)) for p, t in self.spec["selfargs"].items()] + ([sig] if sig else []))
        if self.kind == "objmethod":
            sig = " ".join(["(%s : %s)" % (v, coq_ty(t)) for v, t in self.spec["state"].values()] + ([sig] if sig else []))
        if self.spec.get("fuel"):
            if "fuel" in self.ty:
                self.refuse(node, "a variable named fuel")
            sig = "(fuel : nat) " + sig
        if self.spec.get("tell"):
            if "pos0" in self.ty or "pos0" in self.local_names():
                self.refuse(node, "a variable named pos0")
            self.ty["pos0"] = "int"
            sig = "(pos0 : Z) " + sig
        if self.spec.get("cwd"):
            # pathlib.Path.cwd(): the path object of the current directory, an explicit parameter
            if "cwd0" in self.ty or "cwd0" in self.local_names():
                self.refuse(node, "a variable named cwd0")
            self.ty["cwd0"] = "path"
            sig = (sig + " (cwd0 : ppath)").strip()
        if self.kind in ("objfun", "objproc", "classinit"):
            cls = self.spec["cls"]
            for f, t in self.fields.items():
                self.ty["self_" + f] = t
            src = "self" if self.kind != "classinit" else "%s_init" % cls
            unpack = "\n".join("  let self_%s := %s_%s %s in" % (f, cls, f, src) for f in self.fields)
            rt = cls if self.kind != "objfun" else coq_ty(self.retty)
            if self.spec.get("retself"):
                rt = "(%s * %s)" % (cls, coq_ty(self.retty))
            if self.spec.get("outfile"):
                rt = "(%s * bytes)" % rt
                unpack += "\n  let out : bytes := [] in"
            head = "Definition %s %s%s : res %s :=\n%s" % (
                self.spec["coqname"], "(self : %s) " % cls if self.kind != "classinit" else "", sig,
                "(%s)" % rt if " " in rt and not rt.startswith("(") else rt, unpack)
        elif self.kind in ("objreader", "objwriter"):
            cls = self.spec["cls"]
            for f, t in self.fields.items():
                self.ty["self_" + f] = t
            unpack = "\n".join("  let self_%s := %s_%s self in" % (f, cls, f) for f in self.fields)
            if self.kind == "objreader":
                rt = cls if self.retty == "self" else coq_ty(self.retty)
                if self.spec.get("retself"):
                    rt = "(%s * %s)" % (cls, coq_ty(self.retty))
                if self.spec.get("short_reads"):
                    # the file may return fewer bytes than asked for: rd = the most the (single) read of this call returns
                    if "rd" in self.ty or "rd" in self.local_names():
                        self.refuse(node, "a variable named rd")
                    sig = (sig + " (rd : nat)").strip()
                if self.spec.get("sched"):
                    # the file may return fewer bytes than asked for: sched = the most each successive read returns
                    if "sched" in self.ty or "sched" in self.local_names():
                        self.refuse(node, "a variable named sched")
                    sig = (sig + " (sched : list nat)").strip()
                if self.spec.get("outfile"):
                    rt = "((%s * bytes) * bytes)" % rt
                    unpack += "\n  let out : bytes := [] in"
                    head = "Definition %s (self : %s) (inp : bytes) %s : res %s :=\n%s" % (self.spec["coqname"], cls, sig, rt, unpack)
                else:
                    head = "Definition %s (self : %s) (inp : bytes) %s : res (%s * bytes) :=\n%s" % (
                        self.spec["coqname"], cls, sig, rt, unpack)
            else:
                head = "Definition %s (self : %s) %s : res %s :=\n%s\n  let out : bytes := [] in" % (
                    self.spec["coqname"], cls, sig, "(%s * bytes)" % cls if self.spec.get("mutates") else "bytes", unpack)
        elif self.kind == "reader":
            head = "Definition %s (inp : bytes) %s : res (%s * bytes) :=" % (self.name, sig, coq_ty(self.retty))
        elif self.kind == "writer":
            head = "Definition %s %s : res bytes :=\n  let out : bytes := [] in" % (self.name, sig)
        else:
            rt = coq_ty(self.retty)
            if self.kind == "objmethod":
                rt = "(%s * (%s))" % (rt, " * ".join(coq_ty(t) for _, t in self.spec["state"].values()))
            head = "Definition %s %s : res %s :=" % (self.spec.get("coqname", self.name.split(".")[-1]), sig,
                                                     "(%s)" % rt if " " in rt and not rt.startswith("(") else rt)
        stmts = self.lower(node.body) if self.module is not None and self.spec.get("out") in REC_OUTS \
            and self.kind in ("objreader", "objwriter", "method", "objfun", "objproc", "classinit") else node.body
        if self.kind == "classinit":
            # obj = cls() ; ... obj.x ... ; return obj   ==   the same method body on a fresh object called self
            stmts = [x for x in stmts if not (isinstance(x, ast.Expr) and isinstance(x.value, ast.Constant))]
            if not (stmts and ast.unparse(stmts[0]) in ("obj = cls()",)) or not (ast.unparse(stmts[-1]) == "return obj"):
                self.refuse(node, "classmethod that is not `obj = cls(); ...; return obj`")
            import copy

            class O(ast.NodeTransformer):
                def visit_Name(t, n):
                    return ast.copy_location(ast.Name(id="self", ctx=n.ctx), n) if n.id == "obj" else n
            mid = [O().visit(copy.deepcopy(x)) for x in stmts[1:-1]]
            if any(isinstance(n, ast.Name) and n.id in ("cls", "obj") for x in mid for n in ast.walk(x)):
                self.refuse(node, "use of cls / obj")
            stmts = self.lower(mid) + [ast.copy_location(ast.Return(value=ast.Name(id="self", ctx=ast.Load())), node)]
        body = self.block(stmts, lambda: self.ret("tt"))
        for x in body:
            if x.strip() in ("BREAK", "CONTINUE") or x.strip().startswith("RETURN "):
                self.refuse(node, "break/continue outside loop")
        return head + "\n" + "\n".join("  " + x for x in body) + "."


def find_function(tree, qual):
    parts = qual.split(".")
    body = tree.body
    node = None
    for p in parts:
        node = next((n for n in body if isinstance(n, (ast.FunctionDef, ast.ClassDef)) and n.name == p), None)
        if node is None:
            return None
        body = node.body
    return node


HEADER = """(* GENERATED by tools/translate.py from %s -- do not edit. *)
From P7 Require Import Prelude PyPrims.
Open Scope Z_scope.

Fixpoint bytes_eqb (a b : bytes) : bool :=
  match a, b with
  | [], [] => true
  | x :: a', y :: b' => (x =? y) && bytes_eqb a' b'
  | _, _ => false
  end.
"""


HEADER2 = """(* GENERATED by tools/translate.py from %s -- do not edit. *)
%s
Open Scope Z_scope.
"""


def subst_params(node, subst):
    """a copy of the function in which the parameters of `subst` are gone and their uses are the given string constants
    (Refused when one of them is assigned)"""
    import copy
    node = copy.deepcopy(node)
    for n in ast.walk(node):
        if isinstance(n, ast.Name) and n.id in subst and not isinstance(n.ctx, ast.Load):
            raise Refused("parameter %s is assigned" % n.id)
    if not all(any(a.arg == p for a in node.args.args) for p in subst):
        raise Refused("parameter to specialise not found")
    node.args.args = [a for a in node.args.args if a.arg not in subst]

    class T(ast.NodeTransformer):
        def visit_Name(t, n):
            if n.id in subst:
                return ast.copy_location(ast.Constant(value=subst[n.id]), n)
            return n
    return ast.fix_missing_locations(T().visit(node))


def write_if_changed(path, text):
    old = open(path).read() if os.path.exists(path) else None
    if old != text:
        open(path, "w").write(text)


def placeholder(name, spec):
    """definition emitted for a refused second-wave function: same signature, always Err"""
    sig = " ".join("(%s : %s)" % (p, coq_ty(t)) for p, t in list(spec.get("selfargs", {}).items())
                   + list(spec.get("state", {}).values()) + list(spec["args"].items()))
    if spec.get("fuel"):
        sig = "(fuel : nat) " + sig
    if spec.get("tell"):
        sig = "(pos0 : Z) " + sig
    if spec.get("cwd"):
        sig = (sig + " (cwd0 : ppath)").strip()
    rt = coq_ty(spec["ret"]) if spec["ret"] in COQ_TY else "unit"
    if spec["kind"] == "objmethod":
        rt = "(%s * (%s))" % (rt, " * ".join(coq_ty(t) for _, t in spec["state"].values()))
    if spec["kind"] in ("objreader", "retrieve"):
        cls = spec["cls"]
        ret = cls if spec["ret"] in ("self", cls) else coq_ty(spec["ret"])
        first = "(self : %s) " % cls if spec["kind"] == "objreader" else ""
        return "Definition %s %s(inp : bytes) %s : res (%s * bytes) :=\n  Err EOther." % (spec["coqname"], first, sig, ret)
    if spec["kind"] in ("objfun", "objproc", "classinit"):
        cls = spec["cls"]
        rt = cls if spec["kind"] != "objfun" else coq_ty(spec["ret"])
        return "Definition %s %s%s : res %s :=\n  Err EOther." % (
            spec["coqname"], "(self : %s) " % cls if spec["kind"] != "classinit" else "", sig, "(%s)" % rt if " " in rt else rt)
    if spec["kind"] == "objwriter":
        return "Definition %s (self : %s) %s : res %s :=\n  Err EOther." % (
            spec["coqname"], spec["cls"], sig, "(%s * bytes)" % spec["cls"] if spec.get("mutates") else "bytes")
    if spec["kind"] in ("record", "ctor"):
        return record_text(spec["cls"])
    if spec["kind"] == "init":
        cls = spec["cls"]
        return "%s\nDefinition %s : %s := mk%s %s." % (record_text(cls), spec["coqname"], cls, cls,
                                                      " ".join("None" if t.startswith("opt:") or t.startswith("key:") else DEFAULT_VALUE[t] for t in CLASSES3[cls].values()))
    if spec["kind"] == "reader":
        return "Definition %s (inp : bytes) %s : res (%s * bytes) :=\n  Err EOther." % (name, sig, rt)
    if spec["kind"] == "writer":
        return "Definition %s %s : res bytes :=\n  Err EOther." % (name, sig)
    return "Definition %s %s : res %s :=\n  Err EOther." % (spec.get("coqname", name.split(".")[-1]), sig,
                                                           "(%s)" % rt if " " in rt and not rt.startswith("(") else rt)


def main():
    repo, outdir = sys.argv[1], sys.argv[2]
    os.makedirs(outdir, exist_ok=True)
    report = {"translated": {}, "refused": {}}
    trees, srcs = {}, {}

    def load(fname):
        if fname not in trees:
            srcs[fname] = open(os.path.join(repo, "py7zr", fname), encoding="utf-8").read()
            trees[fname] = ast.parse(srcs[fname])
        return trees[fname]

    chunks = []
    for name in ORDER:
        fname, qual, kind, argtys, retty = WHITELIST[name]
        try:
            node = find_function(load(fname), qual)
            if node is None:
                raise Refused("%s: not found in %s" % (qual, fname))
            seg = ast.get_source_segment(srcs[fname], node)
            text = FnTr(name, node, kind, argtys, retty).translate()
            chunks.append("(* %s:%d %s *)\n%s\n" % (fname, node.lineno, qual, text))
            report["translated"][name] = {
                "source": "%s:%d" % (fname, node.lineno),
                "source_sha256": hashlib.sha256(seg.encode()).hexdigest(),
                "gallina_sha256": hashlib.sha256(text.encode()).hexdigest(),
                "file": "ArchiveinfoPrims.v",
            }
        except (Refused, OSError, SyntaxError) as r:
            report["refused"][name] = str(r)
            chunks.append("(* REFUSED %s: %s *)\n" % (name, str(r).replace("*)", "* )")))
    text = HEADER % "py7zr/archiveinfo.py" + "\n" + "\n".join(chunks)
    write_if_changed(os.path.join(outdir, "ArchiveinfoPrims.v"), text)

    # writer methods: does the method change the object (then it returns the object as well)
    for name, spec in WAVE2.items():
        if spec["kind"] == "objwriter":
            try:
                node = find_function(load(spec["file"]), spec["qual"])
            except (OSError, SyntaxError):
                node = None
            spec["mutates"] = node is None or any(
                (isinstance(n, ast.Attribute) and isinstance(n.value, ast.Name) and n.value.id == "self"
                 and isinstance(n.ctx, (ast.Store, ast.Del)))
                or (isinstance(n, ast.Call) and isinstance(n.func, ast.Attribute) and n.func.attr in ("append", "pop", "extend", "clear", "insert", "remove", "sort")
                    and isinstance(n.func.value, ast.Attribute) and isinstance(n.func.value.value, ast.Name) and n.func.value.value.id == "self")
                for n in ast.walk(node))

    for _round in range(3):
        for name, spec in WAVE2.items():
            if spec["kind"] == "objwriter" and not spec.get("mutates") and spec.get("cls") in CLASSES3:
                try:
                    node = find_function(load(spec["file"]), spec["qual"])
                except (OSError, SyntaxError):
                    node = None
                for n in (ast.walk(node) if node is not None else []):
                    if isinstance(n, ast.Call) and isinstance(n.func, ast.Attribute) and n.func.attr == "write" \
                            and isinstance(n.func.value, ast.Attribute) and isinstance(n.func.value.value, ast.Name) \
                            and n.func.value.value.id == "self":
                        ft = CLASSES3[spec["cls"]].get(n.func.value.attr, "")
                        c2 = ft[4:] if ft.startswith("opt:") else ft
                        sp2 = WAVE2.get(c2 + ".write")
                        if sp2 is not None and sp2.get("mutates"):
                            spec["mutates"] = True

    # explicit self parameters that exist only when the source reads the property
    for name, spec in WAVE2.items():
        if spec.get("opt_self_props"):
            try:
                node = find_function(load(spec["file"]), spec["qual"])
            except (OSError, SyntaxError):
                node = None
            read = set()
            for n in (ast.walk(node) if node is not None else []):
                if (isinstance(n, ast.Call) and isinstance(n.func, ast.Attribute) and n.func.attr == "_get_property"
                        and isinstance(n.func.value, ast.Name) and n.func.value.id == "self" and len(n.args) == 1
                        and isinstance(n.args[0], ast.Constant)):
                    read.add(n.args[0].value)
            spec["selfargs"], spec["self_props"] = dict(spec["selfargs"]), dict(spec["self_props"])
            for key, (pn, pt) in spec["opt_self_props"].items():
                if key in read:
                    spec["selfargs"][pn] = pt
                    spec["self_props"][key] = pn

    # ---- second wave: one file per source area
    for out, desc in OUT_FILES.items():
        srcdesc, requires = desc[0], desc[1]
        chunks = [desc[2]] if len(desc) > 2 else []
        for name, spec in WAVE2.items():
            if spec["out"] != out:
                continue
            fname, qual = spec["file"], spec["qual"]
            try:
                tree = load(fname)
                node = find_function(tree, qual) if spec["kind"] != "record" else tree
                if node is None:
                    raise Refused("%s: not found in %s" % (qual, fname))
                seg = ast.get_source_segment(srcs[fname], node) if spec["kind"] != "record" else "record " + name
                spec = dict(spec, _repo=repo)
                if spec["kind"] == "record":
                    text = record_text(spec["cls"])
                    node = None
                elif spec["kind"] == "ctor":
                    args = [a.arg for a in node.args.args]
                    want = ["self.%s = %s" % (a, a) for a in CTOR_RECORDS[spec["cls"]]]
                    if args != ["self"] + CTOR_RECORDS[spec["cls"]] or [ast.unparse(st) for st in node.body] != want:
                        raise Refused("%s.__init__ does not just store its arguments" % spec["cls"])
                    text = record_text(spec["cls"])
                elif spec["kind"] == "init":
                    text = init_text(tree, spec["cls"], spec)
                elif spec["kind"] == "retrieve":
                    text = retrieve_text(tree, spec["cls"], spec)
                else:
                    if spec.get("subst"):
                        node = subst_params(node, spec["subst"])
                    tr = FnTr(name, node, spec["kind"], spec["args"], spec["ret"], module=tree, spec=spec)
                    text = tr.translate()
                lineno = getattr(node, "lineno", 0)
                chunks.append("(* %s:%d %s *)\n%s\n" % (fname, lineno, qual, text))
                report["translated"][name] = {
                    "source": "%s:%d" % (fname, lineno),
                    "source_sha256": hashlib.sha256(seg.encode()).hexdigest(),
                    "gallina_sha256": hashlib.sha256(text.encode()).hexdigest(),
                    "file": out + ".v",
                }
                if spec["kind"] not in ("record", "ctor", "init", "retrieve") and tr.partial:
                    report["translated"][name]["partial"] = tr.partial
            except (Refused, OSError, SyntaxError) as r:
                report["refused"][name] = str(r)
                chunks.append("(* REFUSED %s: %s *)\n%s\n" % (name, str(r).replace("*)", "* )"), placeholder(name, spec)))
        if len(desc) > 3:
            chunks.append(desc[3] + "\n")
        text = HEADER2 % (srcdesc, requires) + "\n" + "\n".join(chunks)
        write_if_changed(os.path.join(outdir, out + ".v"), text)
    json.dump(report, open(os.path.join(outdir, "translate_report.json"), "w"), indent=1, sort_keys=True)
    print(json.dumps({"translated": sorted(report["translated"]), "refused": report["refused"]}))
    return 0


if __name__ == "__main__":
    sys.exit(main())
