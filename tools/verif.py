#!/venv/bin/python
"""verif.py -- single entry point of the verification machinery.

  verif.py setup                       build everything from files on disk
  verif.py check Cxx [--tier quick|thorough]
  verif.py replay <replay.json>

A check (i) regenerates coq/gen from /repo's working tree, (ii) rebuilds the Coq
development and force-recompiles props/Cxx.v (the property's theorems, with
Print Assumptions), (iii) runs the property's correspondence between the extracted
model and the implementation, (iv) explores the implementation with the model /
spec as oracle, (v) decides and writes evidence/Cxx.json.
"""
import argparse
import importlib
import json
import os
import sys
import traceback

sys.path.insert(0, os.path.dirname(os.path.abspath(__file__)))
import vlib  # noqa: E402

sys.path.insert(0, vlib.REPO)  # the implementation under test: /repo's working tree (or VERIF_REPO)
os.environ["PYTHONPATH"] = vlib.REPO
os.environ.setdefault("PYTHONHASHSEED", "0")


def setup():
    with vlib.Lock():
        rep = vlib.translate()
        print("translate:", json.dumps({"translated": sorted(rep.get("translated", {})), "refused": rep.get("refused", {})}))
        vlib.write_coqproject()
        targets = [f + "o" for f in vlib.coq_files()]
        ok, log = vlib.coq_make(targets, timeout=3000)
        if not ok:
            # a proof file that no longer compiles is the business of the check that depends on it (it will report the
            # property as no longer shown); setup only requires the models that are extracted
            import re
            failed = sorted(set(re.findall(r'File "\./?([a-z]+/[A-Za-z0-9_]+\.v)"', log)))
            print("setup: files that do not compile (reported by the checks that need them): %s" % failed)
        ok, log = vlib.build_model(force=True)
        if not ok:
            print(log[-4000:])
            print("setup: model build FAILED")
            return 1
        ok, log = vlib.build_gmodel()
        if not ok:
            print(log[-4000:])
            print("setup: generated-model build FAILED")
            return 1
        bad = vlib.audit_sources()
        if bad:
            print("setup: audit found forbidden vocabulary:", bad)
            return 1
    print("setup: ok")
    return 0


def check(prop, tier, seed):
    rep = vlib.Report(prop, tier, seed)
    harness = importlib.import_module("harness.%s" % prop.lower())
    broken = []  # reasons the proof side / tie no longer checks
    with vlib.Lock():
        trep = vlib.translate()
        gen_deps = getattr(harness, "GEN_DEPS", [])
        for g in gen_deps:
            if g in trep.get("refused", {}):
                broken.append("translator refused %s: %s" % (g, trep["refused"][g]))
        if "*translator*" in trep.get("refused", {}):
            broken.append("translator crashed: %s" % trep["refused"]["*translator*"][-300:])
        rep.extra["translator"] = {k: v for k, v in trep.get("translated", {}).items() if k in gen_deps}
        obl = vlib.check_props(prop)
        rep.obl = obl
        if not obl["ok"]:
            broken.append("proof obligation no longer checks: %s (props/%s.v); log tail: %s" % (
                obl["failed"], prop, obl["log"][-1500:]))
        bad = vlib.audit_sources()
        if bad:
            broken.append("source audit: %s" % bad)
        mok, mlog = vlib.build_model()
        if not mok:
            broken.append("extracted model does not build: %s" % mlog[-800:])
        gok = False
        if gen_deps:
            gok, glog = vlib.build_gmodel()
            if not gok:
                broken.append("generated model (translation of the current source) does not build: %s" % glog[-800:])
    if gen_deps and gok:
        model = vlib.Model(gen=True)
    else:
        model = vlib.Model() if mok else None
    ctx = {"rep": rep, "tier": tier, "seed": seed, "model": model, "broken": broken, "translate_report": trep}
    try:
        harness.run(ctx)
    except Exception:
        broken.append("harness crashed: %s" % traceback.format_exc()[-1500:])
    finally:
        if model:
            model.close()
    if broken and not rep.violations:
        rep.violation("no longer shown: " + " | ".join(b[:600] for b in broken),
                      {"broken": broken, "theorems": obl["theorems"], "failed": obl.get("failed")}, concrete=False)
    rep.extra.setdefault("trusted_base", getattr(harness, "TRUSTED_BASE", []))
    rep.assumptions = getattr(harness, "ASSUMPTIONS", [])
    return rep.finish(level=getattr(harness, "LEVEL", "proof"))


def replay(path):
    d = json.load(open(path))
    harness = importlib.import_module("harness.%s" % d["property"].lower())
    if not hasattr(harness, "replay"):
        print("no replay function for", d["property"])
        return 2
    return harness.replay(d)


def main():
    ap = argparse.ArgumentParser()
    sub = ap.add_subparsers(dest="cmd")
    sub.add_parser("setup")
    c = sub.add_parser("check")
    c.add_argument("prop")
    c.add_argument("--tier", default=os.environ.get("VERIF_TIER", "quick"))
    r = sub.add_parser("replay")
    r.add_argument("path")
    a = ap.parse_args()
    if a.cmd == "setup":
        return setup()
    if a.cmd == "check":
        seed = int(os.environ.get("VERIF_SEED", "20260930"))
        return check(a.prop, a.tier, seed)
    if a.cmd == "replay":
        return replay(a.path)
    ap.print_help()
    return 2


if __name__ == "__main__":
    sys.exit(main())
