"""vlib.py -- shared machinery of the checks: translate, build, audit, run the
extracted model, write evidence / replays, match known findings."""
import fcntl
import glob
import hashlib
import json
import os
import re
import subprocess
import sys
import time

VERIF = os.path.dirname(os.path.dirname(os.path.abspath(__file__)))
REPO = os.environ.get("VERIF_REPO", "/repo")
COQ = os.path.join(VERIF, "coq")
OCAML = os.path.join(VERIF, "ocaml")
PY = "/venv/bin/python"
NPROC = str(os.cpu_count() or 8)

FORBIDDEN = re.compile(
    r"\b(Admitted|admit|Axiom|Axioms|Parameter|Parameters|Conjecture|Conjectures|bypass_check|Admit Obligations)\b"
    r"|Unset\s+Guard|Unset\s+Positivity|Unset\s+Universe|type-in-type|impredicative-set|native_compute")

# axioms of the standard library that a theorem may depend on (named in DESIGN.md section 4)
ALLOWED_AXIOMS = {
    "functional_extensionality_dep", "FunctionalExtensionality.functional_extensionality_dep",
    "Eqdep.Eq_rect_eq.eq_rect_eq", "Eq_rect_eq.eq_rect_eq", "eq_rect_eq",
    "ClassicalDedekindReals.sig_forall_dec", "ClassicalDedekindReals.sig_not_dec",
    "Classical_Prop.classic", "JMeq_eq", "proof_irrelevance",
}


def env():
    e = dict(os.environ)
    e["PYTHONPATH"] = REPO
    e["PYTHONHASHSEED"] = "0"
    e["PY7ZR_VERIF"] = "1"
    e.setdefault("TZ", "UTC")
    return e


class Lock:
    def __init__(self, name="build"):
        self.path = os.path.join(VERIF, ".%s.lock" % name)

    def __enter__(self):
        self.f = open(self.path, "w")
        fcntl.flock(self.f, fcntl.LOCK_EX)
        return self

    def __exit__(self, *a):
        fcntl.flock(self.f, fcntl.LOCK_UN)
        self.f.close()


def run(cmd, cwd=None, timeout=1200, **kw):
    p = subprocess.run(cmd, cwd=cwd, stdout=subprocess.PIPE, stderr=subprocess.STDOUT, timeout=timeout,
                       text=True, env=env(), **kw)
    return p.returncode, p.stdout


# ------------------------------------------------------------------ translate
def translate():
    """regenerate coq/gen/*.v from the working tree; returns the report dict"""
    rc, out = run([sys.executable, os.path.join(VERIF, "tools", "translate.py"), REPO, os.path.join(COQ, "gen")])
    rep_path = os.path.join(COQ, "gen", "translate_report.json")
    rep = json.load(open(rep_path)) if os.path.exists(rep_path) else {"translated": {}, "refused": {"*": out}}
    if rc != 0:
        rep.setdefault("refused", {})["*translator*"] = out[-2000:]
    return rep


# ------------------------------------------------------------------ coq build
def coq_files():
    fs = []
    for d in ("theories", "gen", "props"):
        fs += sorted(os.path.relpath(p, COQ) for p in glob.glob(os.path.join(COQ, d, "*.v")))
    return fs


def write_coqproject():
    head = ["-Q theories P7", "-Q gen P7gen", "-Q props P7props",
            "-arg -w -arg -notation-overridden,-deprecated-hint-without-locality,-deprecated-instance-without-locality"]
    text = "\n".join(head + coq_files()) + "\n"
    p = os.path.join(COQ, "_CoqProject")
    if not os.path.exists(p) or open(p).read() != text or not os.path.exists(os.path.join(COQ, "Makefile")):
        open(p, "w").write(text)
        run(["coq_makefile", "-f", "_CoqProject", "-o", "Makefile"], cwd=COQ)


def coq_make(targets, timeout=1500):
    """make the given .vo targets (full .vo build, never -vos); returns (ok, log)"""
    write_coqproject()
    # the dependency file of coq_makefile goes stale when a file starts importing another one: rebuild it whenever a source
    # is newer than it
    dep = os.path.join(COQ, ".Makefile.d")
    try:
        if os.path.exists(dep) and any(os.path.getmtime(os.path.join(COQ, f)) > os.path.getmtime(dep) for f in coq_files()):
            os.remove(dep)
    except OSError:
        pass
    rc, out = run(["timeout", str(timeout), "make", "-k", "-j", NPROC] + targets, cwd=COQ, timeout=timeout + 30)
    return rc == 0, out


def audit_sources():
    """forbidden vocabulary anywhere in the development (comments are stripped first)"""
    bad = []
    for f in coq_files() + ["extract/Extract.v"]:
        p = os.path.join(COQ, f)
        if not os.path.exists(p):
            continue
        txt = strip_comments(open(p).read())
        for m in FORBIDDEN.finditer(txt):
            bad.append("%s: %s" % (f, m.group(0)))
    return bad


def strip_comments(s):
    out, depth, i = [], 0, 0
    while i < len(s):
        if s.startswith("(*", i):
            depth += 1
            i += 2
        elif s.startswith("*)", i) and depth > 0:
            depth -= 1
            i += 2
        else:
            if depth == 0:
                out.append(s[i])
            i += 1
    return "".join(out)


def check_props(prop):
    """Force-recompile props/<prop>.v; returns dict(obligations, discharged, theorems,
    assumptions, ok, log, failed) .  Each `Theorem`/`Lemma`/`Example` in the file is one obligation."""
    rel = "props/%s.v" % prop
    path = os.path.join(COQ, rel)
    res = {"obligations": 0, "discharged": 0, "theorems": [], "assumptions": {}, "ok": False, "log": "", "failed": None}
    if not os.path.exists(path):
        res["log"] = "no props file"
        return res
    src = strip_comments(open(path).read())
    thms = re.findall(r"^\s*(?:Theorem|Lemma|Example|Corollary)\s+([A-Za-z0-9_']+)", src, re.M)
    res["theorems"] = thms
    res["obligations"] = len(thms)
    for ext in (".vo", ".glob", ".vok", ".vos"):
        try:
            os.remove(path[:-2] + ext)
        except OSError:
            pass
    ok, log = coq_make([rel + "o"])
    res["log"] = log[-6000:]
    # Print Assumptions output
    cur = None
    blocks = re.split(r"(?m)^(?=Closed under the global context|Axioms:)", log)
    n_closed = log.count("Closed under the global context")
    # `Print Assumptions` prints "Axioms:" then, per axiom, its name at column 0 followed by indented type lines
    bad_axioms = []
    used = []
    in_ax = False
    for line in log.splitlines():
        if line.strip() == "Axioms:":
            in_ax = True
            continue
        if not in_ax:
            continue
        if line[:1] in (" ", "\t"):
            continue
        m = re.match(r"^([A-Za-z_][A-Za-z0-9_.']*)\s*(:.*)?$", line)
        if m:
            name = m.group(1)
            used.append(name)
            if name not in ALLOWED_AXIOMS and name.split(".")[-1] not in {a.split(".")[-1] for a in ALLOWED_AXIOMS}:
                bad_axioms.append(name)
        else:
            in_ax = False
    res["assumptions"] = {"closed": n_closed, "axioms_used": sorted(set(used)), "not_allowed": sorted(set(bad_axioms))}
    if ok and not bad_axioms:
        res["ok"] = True
        res["discharged"] = len(thms)
    else:
        m = re.search(r'File "\./?(props/%s\.v)", line (\d+)' % prop, log)
        if m:
            line = int(m.group(2))
            full = open(path).read().splitlines()
            before = strip_comments("\n".join(full[: line - 1]))
            done = re.findall(r"^\s*(?:Theorem|Lemma|Example|Corollary)\s+([A-Za-z0-9_']+)", before, re.M)
            # the theorem being proved at the failing line is not discharged
            res["discharged"] = max(0, len(done) - 1)
            res["failed"] = done[-1] if done else None
        else:
            m2 = re.search(r'File "\./?([a-z]+/[A-Za-z0-9_]+\.v)", line (\d+)', log)
            res["failed"] = ("dependency %s line %s" % (m2.group(1), m2.group(2))) if m2 else "build"
        if bad_axioms:
            res["failed"] = "axioms not allowed: %s" % bad_axioms
    return res


# ------------------------------------------------------------------ extracted model
def build_model(force=False):
    """extract Dispatch.v to OCaml and build the driver (idempotent)"""
    ok, log = coq_make(["theories/Dispatch.vo"])
    if not ok:
        return False, log
    exe = os.path.join(OCAML, "model_driver")
    srcs = [os.path.join(COQ, "theories", "Dispatch.vo"), os.path.join(OCAML, "driver.ml"),
            os.path.join(COQ, "extract", "Extract.v")]
    if not force and os.path.exists(exe) and all(os.path.getmtime(exe) >= os.path.getmtime(s) for s in srcs):
        return True, "up to date"
    rc, out = run(["coqc", "-Q", "../coq/theories", "P7", "../coq/extract/Extract.v"], cwd=OCAML)
    if rc != 0:
        return False, out
    rc, out2 = run(["ocamlfind", "ocamlopt", "-w", "-a", "model.mli", "model.ml", "driver.ml", "-o", "model_driver"],
                   cwd=OCAML)
    return rc == 0, out + out2


def build_gmodel():
    """the dispatcher including the generated (translated) functions; separate executable so that a
    translation failure never takes the hand-written model down with it"""
    ok, log = coq_make(["theories/GenDispatch.vo"])
    exe = os.path.join(OCAML, "g", "model_driver")
    if not ok:
        try:
            os.remove(exe)
        except OSError:
            pass
        return False, log
    g = os.path.join(OCAML, "g")
    os.makedirs(g, exist_ok=True)
    srcs = [os.path.join(COQ, "theories", "GenDispatch.vo"), os.path.join(OCAML, "driver.ml")]
    if os.path.exists(exe) and all(os.path.getmtime(exe) >= os.path.getmtime(s) for s in srcs):
        return True, "up to date"
    rc, out = run(["coqc", "-Q", "../../coq/theories", "P7", "-Q", "../../coq/gen", "P7gen",
                   "../../coq/extract/ExtractGen.v"], cwd=g)
    if rc != 0:
        return False, out
    ml = open(os.path.join(g, "gmodel.ml")).read() + "\nlet dispatch = gdispatch\n"
    open(os.path.join(g, "model.ml"), "w").write(ml)
    mli = open(os.path.join(g, "gmodel.mli")).read() + "\nval dispatch : z -> tree -> tree\n"
    open(os.path.join(g, "model.mli"), "w").write(mli)
    rc, out2 = run(["ocamlfind", "ocamlopt", "-w", "-a", "model.mli", "model.ml", "../driver.ml", "-o", "model_driver"],
                   cwd=g)
    return rc == 0, out + out2


_FN = None


def fn_table():
    global _FN
    if _FN is None:
        txt = "".join(open(f).read() for f in sorted(glob.glob(os.path.join(COQ, "theories", "*.v"))))
        _FN = {name: int(num) for num, name in re.findall(r"\(\*\s*FN\s+(\d+)\s+([A-Za-z0-9_]+)", txt)}
    return _FN


def enc_tree(t):
    if isinstance(t, bool):
        return "1" if t else "0"
    if isinstance(t, int):
        return ("-%x" % -t) if t < 0 else ("%x" % t)
    if isinstance(t, (bytes, bytearray)):
        return "(" + " ".join("%x" % b for b in t) + ")"
    if t is None:
        return "()"
    return "(" + " ".join(enc_tree(x) for x in t) + ")"


def dec_tree(s):
    toks = re.findall(r"\(|\)|-?[0-9a-f]+", s)
    pos = 0

    def go():
        nonlocal pos
        t = toks[pos]
        pos += 1
        if t == "(":
            out = []
            while toks[pos] != ")":
                out.append(go())
            pos += 1
            return out
        return int(t, 16)

    return go()


class Model:
    """persistent extracted-model process"""

    def __init__(self, gen=False):
        exe = os.path.join(OCAML, "g", "model_driver") if gen else os.path.join(OCAML, "model_driver")
        self.p = subprocess.Popen(["/bin/sh", "-c", "ulimit -s unlimited 2>/dev/null; exec " + exe],
                                  stdin=subprocess.PIPE, stdout=subprocess.PIPE, text=True, bufsize=1)
        self.calls = 0

    def call(self, name, arg):
        fn = fn_table()[name]
        self.p.stdin.write("%x %s\n" % (fn, enc_tree(arg)))
        self.p.stdin.flush()
        line = self.p.stdout.readline()
        if not line:
            raise RuntimeError("model process died on %s" % name)
        self.calls += 1
        return dec_tree(line)

    def close(self):
        try:
            self.p.stdin.close()
            self.p.wait(timeout=5)
        except Exception:
            self.p.kill()


# ------------------------------------------------------------------ results
def load_known():
    p = os.path.join(VERIF, "known_findings.json")
    out = json.load(open(p)).get("findings", []) if os.path.exists(p) else []
    extra = os.environ.get("VERIF_EXTRA_FINDINGS")   # development aid for builders; never set by registered commands
    if extra and os.path.exists(extra):
        out = out + json.load(open(extra))
    return out


class Report:
    """collects what one check run did and decides the exit status"""

    def __init__(self, prop, tier, seed):
        self.prop, self.tier, self.seed = prop, tier, seed
        self.t0 = time.time()
        self.violations = []      # (kind, description, replay-dict, concrete?)
        self.known_hits = []
        self.cov = {"evaluations": 0, "distinct_nontrivial": 0, "rule": "", "samples": []}
        self.extra = {}
        self.assumptions = []
        self.obl = None
        self._distinct = set()
        self.known = [k for k in load_known() if k.get("property") == prop and k.get("status") == "known"]

    def count(self, case_key, nontrivial=True, n=1):
        self.cov["evaluations"] += n
        if nontrivial:
            h = hashlib.sha1(repr(case_key).encode()).digest()[:8]
            if h not in self._distinct:
                self._distinct.add(h)
                self.cov["distinct_nontrivial"] += 1

    def sample(self, x, limit=6):
        if len(self.cov["samples"]) < limit:
            self.cov["samples"].append(x)

    def dist(self, table, key):
        d = self.extra.setdefault("distribution", {}).setdefault(table, {})
        d[str(key)] = d.get(str(key), 0) + 1

    def violation(self, what, replay, concrete=True, match_keys=None):
        """record a violation unless it matches a listed known finding"""
        mk = match_keys or {}
        for k in self.known:
            m = k.get("match", {})
            if m and all(mk.get(a) == b for a, b in m.items()):
                if k["id"] not in [x["id"] for x in self.known_hits]:
                    self.known_hits.append(k)
                return False
        self.violations.append({"what": what, "replay": replay, "concrete": concrete, "match_keys": mk})
        return True

    def finish(self, level="proof"):
        wall = time.time() - self.t0
        os.makedirs(os.path.join(VERIF, "evidence"), exist_ok=True)
        os.makedirs(os.path.join(VERIF, "replays", self.prop), exist_ok=True)
        lines = []
        for k in self.known_hits:
            lines.append("KNOWN-FINDING: property=%s %s" % (self.prop, k.get("what", k["id"])))
        # one replay file per violation (first 5); violations that come with a concrete failing input first
        self.violations.sort(key=lambda v: not v["concrete"])
        for v in self.violations[:5]:
            body = json.dumps(v, sort_keys=True, default=str)
            h = hashlib.sha1(body.encode()).hexdigest()[:12]
            path = os.path.join(VERIF, "replays", self.prop, "%s.json" % h)
            json.dump({"property": self.prop, "tier": self.tier, "seed": self.seed, **v},
                      open(path, "w"), indent=1, default=str)
            tail = "" if v["concrete"] else " no-failing-input-found"
            lines.append("VIOLATION property=%s replay=%s%s" % (self.prop, path, tail))
            lines.append("  what: %s" % " ".join(str(v["what"]).split())[:700])
        cov = dict(self.cov)
        if self.obl is not None:
            cov["obligations"] = max(1, self.obl["obligations"])
            cov["discharged"] = self.obl["discharged"]
            cov["checker_cmd"] = "coq_makefile -f _CoqProject -o Makefile && make props/%s.vo (coqc 8.16.1, full .vo); Print Assumptions under every theorem; source audit for Admitted/Axiom/Parameter" % self.prop
            cov["trusted_base"] = self.extra.pop("trusted_base", [])
            cov["theorems"] = self.obl["theorems"]
            cov["print_assumptions"] = self.obl["assumptions"]
        cov.update(self.extra)
        if cov["distinct_nontrivial"] < 2 and self.obl is not None and self.obl["discharged"] >= 1:
            # proof-only run: the generic counters still have to be honest, not padded
            pass
        ev = {"property_id": self.prop, "tier": self.tier, "seed": self.seed, "level": level, "coverage": cov,
              "assumptions": self.assumptions, "wall_s": round(wall, 2), "violations": len(self.violations),
              "known_findings_hit": [k["id"] for k in self.known_hits],
              "violation_summaries": [{"what": v["what"][:300], "match_keys": v["match_keys"], "concrete": v["concrete"]}
                                      for v in self.violations[:40]]}
        json.dump(ev, open(os.path.join(VERIF, "evidence", "%s.json" % self.prop), "w"), indent=1, default=str)
        for ln in lines:
            print(ln)
        print("%s %s: %d obligations/%d discharged, %d evaluations (%d distinct non-trivial), %d violations, %d known, %.1fs" % (
            self.prop, self.tier, cov.get("obligations", 0), cov.get("discharged", 0), cov["evaluations"],
            cov["distinct_nontrivial"], len(self.violations), len(self.known_hits), wall))
        return 1 if self.violations else 0
