#!/usr/bin/env python3
"""merge_findings.py Cxx ... -- merge proposed_findings/Cxx.json into known_findings.json (by id; status known)."""
import json, os, sys
V = os.path.dirname(os.path.dirname(os.path.abspath(__file__)))
kp = os.path.join(V, "known_findings.json")
d = json.load(open(kp))
ids = {f["id"]: f for f in d["findings"]}
for prop in sys.argv[1:]:
    pp = os.path.join(V, "proposed_findings", "%s.json" % prop)
    for e in json.load(open(pp)):
        e.setdefault("status", "known")
        if e["id"] in ids:
            if ids[e["id"]].get("status") == "fixed":
                continue
            ids[e["id"]].update(e)
        else:
            d["findings"].append(e)
            ids[e["id"]] = e
        print("merged", e["id"])
json.dump(d, open(kp, "w"), indent=1)
