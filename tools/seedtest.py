#!/usr/bin/env python3
"""seedtest.py <prop> <seed-dir> [<worktree>] -- confirm a seeded change and run the property's check against it.

Uses a scratch worktree of /repo (never /repo itself): checks out /repo's HEAD there, confirms the demonstration
passes, applies patch.diff, confirms the demonstration fails, runs `verif.py check <prop>` with VERIF_REPO pointing
at the worktree, reverts, and records what happened in <seed-dir>/result.json."""
import json
import os
import subprocess
import sys
import time

prop, sdir = sys.argv[1], os.path.abspath(sys.argv[2])
wt = sys.argv[3] if len(sys.argv) > 3 else "/tmp/seedwt_%s" % prop
V = os.path.dirname(os.path.dirname(os.path.abspath(__file__)))


def sh(cmd, **kw):
    return subprocess.run(cmd, shell=True, capture_output=True, text=True, **kw)


if not os.path.exists(wt):
    r = sh("git -C /repo worktree add -q --detach %s HEAD" % wt)
    assert r.returncode == 0, r.stderr
sh("git -C %s checkout -q -- . && git -C %s checkout -q --detach %s" % (wt, wt, sh("git -C /repo rev-parse HEAD").stdout.strip()))
env = dict(os.environ, PYTHONPATH=wt, PYTHONHASHSEED="0")
res = {"property": prop, "base": sh("git -C /repo rev-parse --short HEAD").stdout.strip(), "at": time.strftime("%Y-%m-%d %H:%M")}
d0 = subprocess.run(["/venv/bin/python", os.path.join(sdir, "demo.py")], capture_output=True, text=True, env=env, timeout=600)
res["demo_unchanged"] = {"rc": d0.returncode, "tail": (d0.stdout + d0.stderr)[-300:]}
a = sh("git -C %s apply %s" % (wt, os.path.join(sdir, "patch.diff")))
res["applies"] = a.returncode == 0
if a.returncode != 0:
    res["apply_error"] = a.stderr[-500:]
else:
    d1 = subprocess.run(["/venv/bin/python", os.path.join(sdir, "demo.py")], capture_output=True, text=True, env=env, timeout=600)
    res["demo_changed"] = {"rc": d1.returncode, "tail": (d1.stdout + d1.stderr)[-300:]}
    if "--tests" in sys.argv:
        t = subprocess.run("cd %s && /venv/bin/python -m pytest -q -p no:cacheprovider --timeout=900 -x -q" % wt, shell=True,
                           capture_output=True, text=True, env=env, timeout=2400)
        res["tests_rc"] = t.returncode
    env2 = dict(os.environ, VERIF_REPO=wt)
    t0 = time.time()
    c = subprocess.run(["/venv/bin/python", os.path.join(V, "tools", "verif.py"), "check", prop, "--tier", "quick"],
                       capture_output=True, text=True, env=env2, cwd=V, timeout=3000)
    lines = [ln for ln in c.stdout.splitlines() if ln.startswith(("VIOLATION", "KNOWN-FINDING")) or " quick: " in ln]
    res["check"] = {"rc": c.returncode, "lines": lines[-12:], "wall_s": round(time.time() - t0, 1)}
    # what did the violations say
    try:
        ev = json.load(open(os.path.join(V, "evidence", "%s.json" % prop)))
        res["check"]["violation_summaries"] = ev.get("violation_summaries", [])[:6]
        res["check"]["discharged"] = [ev["coverage"].get("obligations"), ev["coverage"].get("discharged")]
    except Exception as e:  # noqa
        res["check"]["evidence_error"] = str(e)
    res["detected"] = c.returncode == 1 and any(ln.startswith("VIOLATION") for ln in lines)
    res["concrete_replay"] = any(ln.startswith("VIOLATION") and "no-failing-input-found" not in ln for ln in lines)
sh("git -C %s checkout -q -- ." % wt)
json.dump(res, open(os.path.join(sdir, "result.json"), "w"), indent=1)
print(json.dumps({k: res.get(k) for k in ("property", "applies", "detected", "concrete_replay")}), res.get("check", {}).get("lines", [])[-3:])
