"""Data for MANIFEST.json (edited by hand as properties come on line)."""
NOTES = ("Machine-checked proof in Coq 8.16.1. Every check: regenerate coq/gen from /repo, rebuild, force-recompile "
         "props/Cxx.v with Print Assumptions, audit sources, run the correspondence between the extracted model and the "
         "implementation, explore the implementation with the model as oracle. See DESIGN.md.")

CHECKS = {
    "C17": {
        "text": "Theorems over the Gallina code regenerated from py7zr/archiveinfo.py on every run: NUMBER write/read round trip for all "
                "0 <= v < 2^64, agreement with a decoder transcribed from the specification, every conforming encoding read, boolean "
                "vectors of every length; plus translation validation of the generated code against the Python and boundary-directed "
                "exploration of names, timestamps, attribute vectors.",
        "note": "Trusted: Coq kernel + vm_compute; tools/translate.py and theories/PyPrims.v (differential-tested against CPython on "
                "every run); Number.v spec_number as a transcription of docs/archive_format.rst; extraction with ExtrOcamlBasic; the "
                "harness. Names/time/attribute vectors: hand model + correspondence rather than translated code.",
        "technique": "Coq proof over a model translated from the source (translator tie) + extracted-model correspondence",
    },
}

_PENDING = "check not built yet in this session (planned, see DESIGN.md section 5); not a statement that proof is inapplicable"
NOT_APPLICABLE = {p: _PENDING for p in
                  ["C01", "C02", "C03", "C04", "C05", "C06", "C07", "C08", "C09", "C10", "C11", "C12", "C13", "C14", "C15",
                   "C16", "C18", "C19", "C20"]}
