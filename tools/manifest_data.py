"""Data for MANIFEST.json (edited by hand as properties come on line)."""
NOTES = ("Machine-checked proof in Coq 8.16.1. Every check: regenerate coq/gen from /repo, rebuild, force-recompile "
         "props/Cxx.v with Print Assumptions, audit sources, run the correspondence between the extracted model and the "
         "implementation, explore the implementation with the model as oracle. See DESIGN.md.")

CHECKS = {
    "C17": {
        "text": "Theorems over the Gallina code regenerated from py7zr/archiveinfo.py on every run: NUMBER write/read round trip for all "
                "0 <= v < 2^64, agreement with a decoder transcribed from the specification, every conforming encoding read, boolean "
                "vectors of every length; plus translation validation of the generated code against the Python and boundary-directed "
                "exploration of names, timestamps, attribute vectors.",
        "note": "Trusted: Coq kernel + vm_compute; tools/translate.py and theories/PyPrims.v (differential-tested against CPython on "
                "every run); Number.v spec_number as a transcription of docs/archive_format.rst; extraction with ExtrOcamlBasic; the "
                "harness. Names/time/attribute vectors: hand model + correspondence rather than translated code.",
        "technique": "Coq proof over a model translated from the source (translator tie) + extracted-model correspondence",
    },
    "C06": {
        "text": "A strict specification reader (Spec.v, transcribed from docs/archive_format.rst) defines what every valid header means "
                "(spec_plans); py7zr's parser and assignment (_real_get_contents, worker ids, kind decision) are modelled in Header.v/"
                "Assign.v; theorems relate the two for every number of folders, sub-streams and entries (assign_conforms, with "
                "refutations for the layouts py7zr still misreads). Correspondence: model vs implementation on headers produced by an "
                "independent reference writer over the layout space; exploration: py7zr reads each generated archive, compared with the "
                "logical archive; 53 third-party fixtures cross-check the specification reader.",
        "note": "Trusted: Coq kernel; Spec.v as transcription of the format; the reference writer/reader glue (tools/ref) and codec "
                "libraries; Header.v/Assign.v tied by correspondence (not by translation). Partial: byte-level agreement of py7zr's "
                "permissive parser with the strict one is shown by correspondence, the theorem is at the level of the header graph.",
        "technique": "Coq proof of refinement (impl assignment vs spec assignment) + extracted-model correspondence + reference writer",
    },
    "C07": {
        "text": "py7zr's header writer is modelled (Header.v write_header, byte-for-byte correspondence with the implementation on raw "
                "headers); the strict specification reader accepts its output and recovers the intended members (theorem for wf headers; "
                "concrete instances by computation); every archive written through the public API over chains x header modes x sessions "
                "is parsed by the extracted Spec.v, decoded with independent codec calls and an independent 7zAES key derivation, and "
                "checked for tiling of the data area, counts, sizes and CRCs.",
        "note": "Trusted: Coq kernel; Spec.v; tools/ref/refreader.py; codec libraries. The general writer_conforms theorem depends on "
                "HeaderProofs.v/SpecProofs.v; until they land the obligations are the computed instances and the section round trips.",
        "technique": "Coq proof (writer output accepted by the specification reader) + independent strict reader",
    },
    "C08": {
        "text": "Append = parse (Header.v parser), extend the graph, re-serialise (Header.v writer): header_roundtrip states exactly what "
                "re-serialisation preserves (norm: all but folder CRCs); Append.v/AppendProofs.v prove that an append session, and any "
                "number of them, preserves the extraction plans, the position of the old data and the creation/access/write times of "
                "every earlier entry (append_preserves_plans, append_sessions_preserve, append_position_after_data, "
                "append_sessions_preserve_times; bases without SubStreamsInfo included). Histories w a{1..3} with bases written by py7zr, "
                "by the reference writer (C06 layouts) and third-party fixtures are replayed on the implementation and read back after "
                "every session by py7zr and by the strict reference reader (names, kinds, bytes, mtime/ctime/atime, attributes of "
                "earlier members; raw preservation of packed bytes).",
        "note": "Trusted: Coq kernel; Header.v/Append.v hand models tied by correspondence (PackInfo reader/writer additionally by the "
                "translator); Spec.v; tools/ref. One known finding (names invented for unnamed entries are written back).",
        "technique": "Coq proof of header round trip (what append preserves) + history exploration with an independent reader",
    },
    "C12": {
        "text": "Read sessions as a state machine (RSession.v: fp position, worker target map, per-folder decoder cache, log of file "
                "operations): after reset() every call gives the fresh-session result; for every call sequence of any length obeying "
                "the quantifier's discipline each result equals the fresh-session result; test()/testzip() verdicts right in every "
                "state; no transition writes to the archive and mode 'r' opens 'rb'. Correspondence and exploration: every disciplined "
                "call sequence up to length 3 (quick) / 4-5 (thorough, 618k sequences) on 28 archive variants, compared call by call "
                "(result, file operations, fp position) with the model and with the property (fresh results, right verdicts, SHA-256).",
        "note": "Trusted: Coq kernel; RSession.v is a hand model tied by the per-call correspondence; assumptions: one packed stream "
                "per folder, no folder-level CRC, regular files and directories. The repairs to testzip() made in /repo are probed by "
                "the harness (model switches a_fixz/a_fixp) so that model and code stay in step.",
        "technique": "Coq proof by invariant over the session state machine + exhaustive call-sequence correspondence",
    },
    "C03": {
        "text": "A filesystem model (FS.v: tree of Dir/File/Link, the kernel's path walk with physical '..', nested link resolution and "
                "ELOOP after 40 links, os.path.realpath as CPython computes it, mkdir -p/open/symlink/unlink/touch/utime/chmod with "
                "recorded effects) and the extraction program (ExtractFS.v: sanitising, duplicate renaming, directory pre-pass, per-entry "
                "dispatch, post-pass, with the real-path check before every output is touched). Theorem C03_extract_confined_all: for "
                "every well-formed tree in which the destination (absolute, relative, through links, or None) resolves to a directory d, "
                "EVERY archive (names, kinds, link targets, order, number unrestricted), on Ok and on error, every effect's real path "
                "lies at or under d; it rests on C03_kernel_agrees (whenever the kernel resolves a path, realpath names the same place). "
                "The witnesses of the repaired finding C03-symlink-chain are kept as Examples over the unrepaired variant of the model. "
                "Correspondence: ~100k (quick) / ~1M (thorough) real extractions in chroot jails with an audit hook, outcome/effects/"
                "final tree vs model, including link chains, links that were in the destination before and a destination reached "
                "through a link; no archive of the exploration escapes.",
        "note": "Trusted: Coq kernel; FS.v as a model of Linux path resolution, pathlib 3.12 and os.path.realpath (validated against the "
                "kernel and os.path.realpath by 1500-20000 random op sequences per run); chroot worker + audit hook. Partial: archives "
                "without link members of several folders opened by path are extracted by one thread per folder (the links of the tree do "
                "not change during such a run; interleavings are not modelled); concurrent changes by other processes and kernel "
                "features outside FS.v are not modelled.",
        "technique": "Coq proof of a confinement invariant on a filesystem model + jail-based correspondence",
    },
    "C13": {
        "text": "Per-folder workers as action lists over disjoint outputs with a small-step interleaving semantics (Par.v): for every number "
                "of workers and every complete schedule the outputs equal the sequential ones (C13_schedule_independent, by commutation "
                "invariants), a failing worker's error reaches the caller under threads for every schedule, output names are pairwise "
                "distinct; refuted for mp=True (errors and factory products lost: known findings). Harness: a scheduler that gates every "
                "worker at its output writes and enforces chosen interleavings (exhaustive for small archives), damaged folders at each "
                "position, threads/processes/sequential, two objects at once, audit of per-worker opens.",
        "note": "Trusted: Coq kernel; Par.v hand model; the assumption that a worker's action list depends only on its folder's bytes is "
                "checked on every run (trace under every interleaving = sequential trace). Partial: races inside one write or inside the "
                "C decoders are below the model's granularity.",
        "technique": "Coq proof over all interleavings (commutation of disjoint steps) + enforced-schedule correspondence",
    },
    "C02": {
        "text": "Attribute coding proved for every st_mode and kind (posix_mode/is_directory/is_symlink decode what _make_file_info "
                "encodes; 32-bit fit); the writeall walk and the extraction order as functions on finite trees with tree_roundtrip by "
                "induction on the tree (every wf tree, both path forms, dereference); FILETIME conversion modelled in Flocq binary64, "
                "bit-exact against CPython, with a full proof that |totimestamp(from_datetime t) - t| <= 5e-6 for 0 <= t <= 4.2e9 "
                "(tight bound 3.746 us). Harness: generated trees through writeall/extractall, pack/unpack_7zarchive and the CLI, "
                "lstat/readlink/bytes/mode/mtime compared with the source and with the model.",
        "note": "Trusted: Coq kernel; Flocq and the real-number axioms of the standard library (sig_forall_dec, sig_not_dec, classic, "
                "functional_extensionality_dep) for the two float theorems only; Mode.v/Walk.v hand models tied by correspondence. "
                "Partial: umask, clock, ownership and link mtimes are constants or outside the model.",
        "technique": "Coq proof (exhaustive finite domain + induction on trees + Flocq rounding-error bound) + tree correspondence",
    },
    "C09": {
        "text": "Selective extraction as a fold over the folder's members with a cursor and the just_check queue (Select.v): "
                "extract_restrict (delivered = restriction of extractall, same bytes, same order) for every archive, target set and "
                "recursive flag under the property's prefix condition, by a cursor invariant; absent targets ignored, trailing slash "
                "immaterial, only parents created. Harness: every subset of member names x recursive x output kind x presentation on "
                "hand-assembled and py7zr-written archives (17k cases quick, 164k thorough) against the model and extractall.",
        "note": "Trusted: Coq kernel; Select.v hand model tied by correspondence; decoding abstracted as 'the next size bytes' "
                "(Decomp.worker_next). Duplicate-name renaming, symlinks and the utime pass are not in this model.",
        "technique": "Coq proof by cursor invariant + all-subsets correspondence",
    },
    "C10": {
        "text": "Listing interfaces modelled over Assign.v's plans (Listing.v): names identical in getnames/namelist/list/files in stored "
                "order; listed size and CRC are those the format assigns (via assign_conforms) and equal length/CRC-32 of the extracted "
                "bytes; directory flag iff extraction creates a directory; getinfo total (with and without trailing slash, KeyError "
                "otherwise); archiveinfo totals/blocks/solid/method names; needs_password iff AES coder or password supplied. Harness: "
                "158 archives (py7zr- and reference-written) observed through every listing call and compared with extraction, the "
                "reference reader and the model.",
        "note": "Trusted: Coq kernel; Listing.v/Assign.v hand models tied by correspondence; Spec.v. compressed size, header_size and "
                "timestamps of list() are outside the statement.",
        "technique": "Coq proof of corollaries of the assignment refinement + listing/extraction correspondence",
    },
    "C14": {
        "text": "The ordered seek/write operations of create and append sessions as a trace over a byte image (Trace.v): for every "
                "prefix at byte granularity the image either is rejected, or is the final image, or exhibits an explicit CRC-32 "
                "collision (create: unconditional for headers < 256 bytes); append: the old contents stay unless a collision, and the "
                "genuinely unsafe window (new data overwriting an encoded header that carries no CRC of its plain text) is proved to "
                "exist and recorded as a known finding; lost/reordered single writes. Harness: recorded I/O traces of real sessions "
                "matched against the model's trace, every byte-granular prefix reopened with py7zr (25k images quick).",
        "note": "Trusted: Coq kernel; Crc32.v (proved model of zlib.crc32); Trace.v hand model tied by trace correspondence. The step "
                "from 'next header accepted' to 'member list correct' rests on C06/C07/C17.",
        "technique": "Coq proof over all trace prefixes with explicit CRC-collision disjunct + crash-image enumeration",
    },
    "C15": {
        "text": "Write sessions with injected faults as a state machine (WSession.v): failed calls detected before registration have no "
                "effect; for every history whose faults are of that kind all successful members are present and intact "
                "(later_writes_intact, any length); midway failures never yield wrong contents under an injective digest; the "
                "open-failure, read-failure and symlink-after-data poisonings are proved as refutations (known findings). Harness: "
                "5.6k (quick) / 142k (thorough) histories of 7 call shapes x fault x later writes x close mode compared state by state.",
        "note": "Trusted: Coq kernel; WSession.v hand model tied by correspondence; the compressor chain is abstracted as identity on the "
                "folder content; CRC-32 is not injective (the midway theorem assumes an injective digest).",
        "technique": "Coq proof on the write-session state machine + fault-history correspondence",
    },
    "C16": {
        "text": "pathlib's PurePosixPath parsing, canonical_path, check_archive_path (as repaired: lexical depth walk), "
                "_sanitize_archive_arcname and the stored name modelled on code-point lists (Path.v): check_archive_path name = spec_ok "
                "name for ALL strings; sanitised and stored names are never absolute; accepted names are stored inside. Harness: "
                "exhaustive names over the property's alphabet up to 4 (quick) / 6 (thorough, 1M names) components + Unicode, model vs "
                "pathlib/py7zr, then writestr/writef/write/writeall on scratch archives (rejected names leave the archive unchanged).",
        "note": "Trusted: Coq kernel; Path.v hand model tied by exhaustive correspondence; Linux only. Backslash handling differs between "
                "the write side and py7zr's own reader (known finding).",
        "technique": "Coq proof of equality with an independent specification over all strings + exhaustive enumeration",
    },
    "C18": {
        "text": "Events emitted by the main thread and the per-folder workers as a FIFO merge under any schedule (Events.v): for every "
                "interleaving the reported sequence is well-formed (pre first, post last, one start then one end per processed member "
                "with its size, updates summing to the decoded bytes, for every clock), close() returns after every event has been "
                "handled, a second extraction's events go to its own callback; mp=True loses worker events (known finding). Harness: "
                "queue and callbacks instrumented, schedules enforced at worker puts, scripted clock, blocking handlers.",
        "note": "Trusted: Coq kernel; Events.v hand model tied by exact comparison of the queue contents with the model's emitted "
                "sequence per enforced schedule. Wall-clock timing is compared only away from thresholds.",
        "technique": "Coq proof over all interleavings of a FIFO merge + enforced-schedule correspondence",
    },
    "C19": {
        "text": "Volume-size parsing (regex with its quirks, unit table, int() digit limit) and the exit-status decision logic of "
                "t/x/l/c/a modelled over the whole outcome enum (Cli.v): every string of the help grammar converts to n*unit "
                "(unit-less = bytes); exit status 0 iff the operation succeeded, for t and x over every library outcome; create/append "
                "target and volume handling. Correspondence: exhaustive short strings over a 20-letter alphabet (18k quick, 268k "
                "thorough), real Cli().run with the library stubbed per outcome (22k); exploration with real `python -m py7zr` "
                "processes: c/x round trips, l vs library, a, -v sizes, t/x on damaged, encrypted and unsupported archives.",
        "note": "Trusted: Coq kernel; Cli.v hand model tied by correspondence (translator tie for the two volume-size functions in "
                "progress); printed text and argparse's own status are outside the model.",
        "technique": "Coq proof of the CLI decision logic over the outcome enum + exhaustive string correspondence + process exploration",
    },
    "C20": {
        "text": "Live-byte accounting over the decompressor state machine of Decomp.v (Mem.v): with decoders that honour max_length every "
                "call returns <= max_length bytes, the carry-over buffer never grows, and the managed bytes are <= 2*max_block + "
                "block_size whatever the member size (worker_live_bounded); for stages that ignore max_length the carry-over is bounded by "
                "one input block's expansion (ratio * block_size + c0) and is unbounded in the ratio (refutation + exact characterisation); "
                "the compress loop holds one block plus its compressed form. Harness: toy chains through the real SevenZipDecompressor/"
                "Compressor compared number by number; real codecs in sandboxed children (bounds per call); peak RSS above baseline of "
                "workers writing/extracting 128-768 MiB (quick) / 0.5-4 GiB (thorough) members per codec family.",
        "note": "Trusted: Coq kernel; Mem.v/Decomp.v hand models tied by correspondence; partial: codec-internal memory and the CPython "
                "allocator are measured, not proved. Deflate/ZStandard/Brotli ignoring max_length were repaired in the repository; "
                "Deflate64 (inflate64 has no output limit) and input retention in inflate64/pyppmd are known findings.",
        "technique": "Coq proof of buffer bounds on the streaming state machine + RSS measurement in sandboxed workers",
    },
    "C01": {
        "text": "Write side (Comp.v): for any stream encoders meeting the stated contract, any block size, read schedule and member list the "
                "packed stream is a stage-by-stage encoding of the members' concatenation, and the recorded sizes/CRCs are exact "
                "(C01_compress_chain, C01_sizes_and_crcs, no IndexError, termination). Read side (Decomp.v): for any monotone prefix-safe "
                "stream decoders, any max_length pattern and short-read schedule SevenZipDecompressor/Worker.decompress deliver exactly "
                "the first n bytes of the decoded stream per member; composition (RoundTrip.v): members read = members written. AES "
                "residue buffering (Aes.v) proved equal to CBC over the padded concatenation for every chunking; the AES methods and "
                "calculate_crc32 are also machine-translated from the source on every run (coq/gen/AesBuf.v, HelpersCrc.v) and the "
                "theorems restated over the generated code. helpers.read_fully (every header/stream read) is modelled over a file with "
                "an arbitrary schedule of short reads (ReadFully.v) and proved to return exactly the next n bytes for every schedule and "
                "block size (C01_read_fully_any_schedule), the model being run against the Python on random schedules on every run. "
                "Harness: per-call correspondence of the real classes with toy stages against "
                "the extracted model, contract validation of every codec wrapper, and sandboxed end-to-end sessions over chain x password "
                "x header mode x target (file, BytesIO, multi-volume) x block size x member shapes.",
        "note": "Trusted: Coq kernel; hand models Comp/Decomp/Aes tied by correspondence, AES buffering and calculate_crc32 additionally by "
                "the translator; codec libraries are hypotheses (validated, not proved). Partial: the codecs themselves and the header "
                "path (C06/C07/C17). Seven defects found here were repaired in the repository (short reads, AES small chunks, AES padding "
                "reaching Brotli/BCJ, PPMd encoder slices, false stall); known findings that remain are third-party faults (pybcj tail, "
                "pyppmd decoder race, multivolumefile recursion) and one two-coder/16-byte-block EOFError.",
        "technique": "Coq proof of the compress/decompress state machines parametric in the codecs + translator tie for AES buffering/CRC + session exploration",
    },
    "C04": {
        "text": "The acceptance logic as a chain of CRC checks over arbitrary decoders (Damage.v): an accepted, modified archive delivers "
                "for every checked member its original bytes or exhibits an explicit CRC-32 collision (start fields, next header, plain "
                "header of an encoded header, member); every alteration confined to 32 consecutive bits of the start header, the raw "
                "header or a Copy-coded member is rejected (Crc32.v burst theorems); delivered implies checked for the real control flow "
                "of Worker.extract/_extract_single/_check (skipped predecessors, symlinks); test()/testzip() sound and silent on intact "
                "archives. Exploration: every single-bit flip, every truncation, overwrites, bursts, swaps, insertions of 16 small "
                "archives of all codec families (28k images quick, 340k thorough), each read in a sandbox and compared member by member.",
        "note": "Trusted: Coq kernel; Crc32.v (proved model of zlib.crc32, cross-checked); Damage.v hand model tied by scripted-decoder "
                "correspondence on the real Worker code. Decoders, the header parser and the link-target predicate are Section variables "
                "with toy instances; parallel scheduling is C13's.",
        "technique": "Coq proof with explicit CRC-collision disjuncts + exhaustive bit-flip exploration",
    },
    "C05": {
        "text": "Every reader of Header.v consumes at least one byte per repetition, so a declared count larger than the remaining input "
                "always fails (counts backed by bytes); the parser's object graph is linear in the input when declared counts are "
                "(parse_cost_linear); the guarded decode loops (stall counter) terminate for EVERY decoder behaviour and read schedule "
                "within 18*(size + input) + 17 rounds (decompress_loop_terminates, encoded_header_loop_terminates; the old loop's spin is "
                "kept as a documented theorem); packpositions/bind pairs/name reads are linear; helpers.read_fully never asks the file "
                "for more than one block nor more than is missing, and makes at most size+1 read() calls, for every file behaviour "
                "(C05_read_fully_requests_bounded/_call_count over ReadFully.v, whose request list is run against the Python). Refuted (known findings): allocation "
                "proportional to declared numfiles / sub-stream counts. Harness: structure-aware mutation with re-sealed CRCs, "
                "truncations/flips/splices, wrong passwords x 14 call-sequence templates in sandboxed children with CPU/RSS limits.",
        "note": "Trusted: Coq kernel; Header.v/Decomp.v/Cost.v hand models tied by correspondence (read counts, loop round counts, "
                "exception class). Partial: wall-clock, RSS and behaviour inside C codecs are observed by the sandbox, not proved.",
        "technique": "Coq proof of consumption/termination bounds + sandboxed structure-aware fuzzing as search",
    },
    "C11": {
        "text": "7zAES key derivation (key3 = key1 for every cycles, hash abstract; the password enters as its exact UTF-16LE code units, checked with non-normalised passwords), coder-property round trip, the writer's information "
                "flow (the archive is a layout of metadata and cbc_enc(pad16(stage output)): contents enter only through the cipher; with "
                "header encryption names enter only through the header cipher text, its length and CRC), IV freshness (disjoint RNG "
                "slices), decision rules (no password -> PasswordRequired before any decode; wrong password -> error or an explicit CRC "
                "collision, also for encrypted headers now that they carry the plain-header CRC). Harness: byte search for plaintext/"
                "compressed forms/names, independent KDF + CBC decryption, pinned RNG, 438 outcome cases and thousands of wrong passwords.",
        "note": "Trusted: Coq kernel; Enc.v hand model tied by byte-identical toy-cipher writer runs; Aes.v chunking theorems. "
                "Cryptographic strength of AES/SHA-256 is outside any model here; what leaks by construction (sizes, plaintext CRC-32, "
                "names unless the header is encrypted) is stated in the evidence.",
        "technique": "Coq proof of non-interference structure and decision rules + independent-crypto correspondence",
    },
}

_PENDING = "check not built yet in this session (planned, see DESIGN.md section 5); not a statement that proof is inapplicable"
NOT_APPLICABLE = {p: _PENDING for p in
                  []}
