"""Data for MANIFEST.json (edited by hand as properties come on line)."""
NOTES = ("Machine-checked proof in Coq 8.16.1. Every check: regenerate coq/gen from /repo, rebuild, force-recompile "
         "props/Cxx.v with Print Assumptions, audit sources, run the correspondence between the extracted model and the "
         "implementation, explore the implementation with the model as oracle. See DESIGN.md.")

CHECKS = {
    "C17": {
        "text": "Theorems over the Gallina code regenerated from py7zr/archiveinfo.py on every run: NUMBER write/read round trip for all "
                "0 <= v < 2^64, agreement with a decoder transcribed from the specification, every conforming encoding read, boolean "
                "vectors of every length; plus translation validation of the generated code against the Python and boundary-directed "
                "exploration of names, timestamps, attribute vectors.",
        "note": "Trusted: Coq kernel + vm_compute; tools/translate.py and theories/PyPrims.v (differential-tested against CPython on "
                "every run); Number.v spec_number as a transcription of docs/archive_format.rst; extraction with ExtrOcamlBasic; the "
                "harness. Names/time/attribute vectors: hand model + correspondence rather than translated code.",
        "technique": "Coq proof over a model translated from the source (translator tie) + extracted-model correspondence",
    },
    "C06": {
        "text": "A strict specification reader (Spec.v, transcribed from docs/archive_format.rst) defines what every valid header means "
                "(spec_plans); py7zr's parser and assignment (_real_get_contents, worker ids, kind decision) are modelled in Header.v/"
                "Assign.v; theorems relate the two for every number of folders, sub-streams and entries (assign_conforms, with "
                "refutations for the layouts py7zr still misreads). Correspondence: model vs implementation on headers produced by an "
                "independent reference writer over the layout space; exploration: py7zr reads each generated archive, compared with the "
                "logical archive; 53 third-party fixtures cross-check the specification reader.",
        "note": "Trusted: Coq kernel; Spec.v as transcription of the format; the reference writer/reader glue (tools/ref) and codec "
                "libraries; Header.v/Assign.v tied by correspondence (not by translation). Partial: byte-level agreement of py7zr's "
                "permissive parser with the strict one is shown by correspondence, the theorem is at the level of the header graph.",
        "technique": "Coq proof of refinement (impl assignment vs spec assignment) + extracted-model correspondence + reference writer",
    },
    "C07": {
        "text": "py7zr's header writer is modelled (Header.v write_header, byte-for-byte correspondence with the implementation on raw "
                "headers); the strict specification reader accepts its output and recovers the intended members (theorem for wf headers; "
                "concrete instances by computation); every archive written through the public API over chains x header modes x sessions "
                "is parsed by the extracted Spec.v, decoded with independent codec calls and an independent 7zAES key derivation, and "
                "checked for tiling of the data area, counts, sizes and CRCs.",
        "note": "Trusted: Coq kernel; Spec.v; tools/ref/refreader.py; codec libraries. The general writer_conforms theorem depends on "
                "HeaderProofs.v/SpecProofs.v; until they land the obligations are the computed instances and the section round trips.",
        "technique": "Coq proof (writer output accepted by the specification reader) + independent strict reader",
    },
    "C08": {
        "text": "Append = parse (Header.v parser), extend the graph, re-serialise (Header.v writer): header_roundtrip states exactly what "
                "re-serialisation preserves (norm); histories w a{1..3} with bases written by py7zr, by the reference writer (C06 layouts) "
                "and third-party fixtures are replayed on the implementation and read back after every session by py7zr and by the strict "
                "reference reader (names, kinds, bytes, mtime, attributes of earlier members).",
        "note": "Trusted: Coq kernel; Header.v tied by correspondence; Spec.v; tools/ref. Partial: the position arithmetic of "
                "_prepare_append is covered by exploration (tiling check of the reference reader), not by a theorem yet.",
        "technique": "Coq proof of header round trip (what append preserves) + history exploration with an independent reader",
    },
    "C12": {
        "text": "Read sessions as a state machine (RSession.v: fp position, worker target map, per-folder decoder cache, log of file "
                "operations): after reset() every call gives the fresh-session result; for every call sequence of any length obeying "
                "the quantifier's discipline each result equals the fresh-session result; test()/testzip() verdicts right in every "
                "state; no transition writes to the archive and mode 'r' opens 'rb'. Correspondence and exploration: every disciplined "
                "call sequence up to length 3 (quick) / 4-5 (thorough, 618k sequences) on 28 archive variants, compared call by call "
                "(result, file operations, fp position) with the model and with the property (fresh results, right verdicts, SHA-256).",
        "note": "Trusted: Coq kernel; RSession.v is a hand model tied by the per-call correspondence; assumptions: one packed stream "
                "per folder, no folder-level CRC, regular files and directories. The repairs to testzip() made in /repo are probed by "
                "the harness (model switches a_fixz/a_fixp) so that model and code stay in step.",
        "technique": "Coq proof by invariant over the session state machine + exhaustive call-sequence correspondence",
    },
    "C03": {
        "text": "A filesystem model (FS.v: tree of Dir/File/Link, kernel path walk with physical '..' and ELOOP, mkdir -p/open/symlink/"
                "unlink/touch/utime/chmod with recorded effects) and the extraction program (ExtractFS.v: sanitising, duplicate renaming, "
                "directory pre-pass, per-entry dispatch, post-pass). Theorem: for every destination form, every entry list whose link "
                "members have relative '..'-free targets, on Ok and on error, every effect's real path lies under the destination "
                "(C03_extract_confined_general); refuted in full generality by the symlink-chain witness (known finding). Correspondence: "
                "78k (quick) / 975k (thorough) real extractions in chroot jails with an audit hook, outcome/effects/final tree vs model.",
        "note": "Trusted: Coq kernel; FS.v as a model of Linux path resolution and pathlib 3.12 (validated against the kernel by 1500-20000 "
                "random op sequences per run); chroot worker + audit hook. Partial: TOCTOU races between parallel workers and kernel "
                "features outside FS.v are not modelled.",
        "technique": "Coq proof of a confinement invariant on a filesystem model + jail-based correspondence",
    },
    "C13": {
        "text": "Per-folder workers as action lists over disjoint outputs with a small-step interleaving semantics (Par.v): for every number "
                "of workers and every complete schedule the outputs equal the sequential ones (C13_schedule_independent, by commutation "
                "invariants), a failing worker's error reaches the caller under threads for every schedule, output names are pairwise "
                "distinct; refuted for mp=True (errors and factory products lost: known findings). Harness: a scheduler that gates every "
                "worker at its output writes and enforces chosen interleavings (exhaustive for small archives), damaged folders at each "
                "position, threads/processes/sequential, two objects at once, audit of per-worker opens.",
        "note": "Trusted: Coq kernel; Par.v hand model; the assumption that a worker's action list depends only on its folder's bytes is "
                "checked on every run (trace under every interleaving = sequential trace). Partial: races inside one write or inside the "
                "C decoders are below the model's granularity.",
        "technique": "Coq proof over all interleavings (commutation of disjoint steps) + enforced-schedule correspondence",
    },
}

_PENDING = "check not built yet in this session (planned, see DESIGN.md section 5); not a statement that proof is inapplicable"
NOT_APPLICABLE = {p: _PENDING for p in
                  ["C01", "C02", "C04", "C05", "C09", "C10", "C11", "C14", "C15",
                   "C16", "C18", "C19", "C20"]}
