"""refreader.py -- an independent STRICT reference reader.

The header database is parsed and validated by the extracted Coq specification
(coq/theories/Spec.v: s_header, s_valid, spec_plans) – that is the spec a reader can
audit; this file only (i) checks the 32-byte signature header, (ii) unwraps encoded
headers, (iii) decodes the folders through codec libraries called directly (no py7zr
container or compressor-wrapper code; 7zAES key derivation re-implemented with hashlib),
(iv) slices members, checks every stored CRC and the structural invariants that need
the file image (packed sizes tile the data area, offsets inside the file).

read_archive(data, model, password=None, strict_tiling=True) ->
   {"members": [{"name","kind","data","crc","mtime","attr","ctime","atime"}...], "notes": [...]}  or raises RefError."""
import bz2
import hashlib
import lzma
import struct
import zlib

LIM = 100000
MAGIC = b"7z\xbc\xaf\x27\x1c"


class RefError(Exception):
    pass


def kdf(password, cycles, salt):
    pw = password.encode("utf-16-le")
    if cycles == 0x3F:
        return (salt + pw + bytes(32))[:32]
    h = hashlib.sha256()
    for i in range(1 << cycles):
        h.update(salt + pw + struct.pack("<Q", i))
    return h.digest()


def dec_aes(data, props, password):
    if password is None:
        raise RefError("password required")
    from Cryptodome.Cipher import AES
    b0 = props[0]
    cycles = b0 & 0x3F
    salt_n = (b0 >> 7) & 1
    iv_n = (b0 >> 6) & 1
    if b0 & 0xC0:
        b1 = props[1]
        salt_n += b1 >> 4
        iv_n += b1 & 0x0F
        rest = props[2:]
    else:
        rest = props[1:]
    if len(rest) != salt_n + iv_n:
        raise RefError("AES properties length")
    salt, iv = rest[:salt_n], rest[salt_n:]
    iv = iv + bytes(16 - len(iv))
    if len(data) % 16:
        raise RefError("AES stream not a multiple of 16")
    return AES.new(kdf(password, cycles, salt), AES.MODE_CBC, iv).decrypt(data)


def lzma_raw(data, filters, size):
    d = lzma.LZMADecompressor(format=lzma.FORMAT_RAW, filters=filters)
    out = d.decompress(data, max_length=size) if size is not None else d.decompress(data)
    return out


BCJ = {b"\x03\x03\x01\x03": (lzma.FILTER_X86, "BCJDecoder"), b"\x03\x03\x02\x05": (lzma.FILTER_POWERPC, "PPCDecoder"),
       b"\x03\x03\x04\x01": (lzma.FILTER_IA64, None), b"\x03\x03\x05\x01": (lzma.FILTER_ARM, "ARMDecoder"),
       b"\x03\x03\x07\x01": (lzma.FILTER_ARMTHUMB, "ARMTDecoder"), b"\x03\x03\x08\x05": (lzma.FILTER_SPARC, "SparcDecoder"),
       b"\x04": (lzma.FILTER_X86, "BCJDecoder"), b"\x05": (lzma.FILTER_POWERPC, "PPCDecoder"),
       b"\x07": (lzma.FILTER_ARM, "ARMDecoder"), b"\x08": (lzma.FILTER_ARMTHUMB, "ARMTDecoder"),
       b"\x09": (lzma.FILTER_SPARC, "SparcDecoder"), b"\x06": (lzma.FILTER_IA64, None)}


def decode_folder(packed, coders, unpacksizes, password):
    """coders in 7z order (coder 0 consumes the packed stream); simple coders, linear chain only"""
    cur = packed
    i = 0
    n = len(coders)
    while i < n:
        mid, props = coders[i]
        size = unpacksizes[i]
        if mid in (b"\x21", b"\x03\x01\x01"):
            # LZMA/LZMA2 followed (in decode order) by native filters (delta, BCJ) can be one liblzma chain,
            # but decoding stage by stage is equivalent and simpler to audit
            fid = lzma.FILTER_LZMA2 if mid == b"\x21" else lzma.FILTER_LZMA1
            cur = lzma_raw(cur, [lzma._decode_filter_properties(fid, props)], size)
        elif mid == b"\x00":
            cur = bytes(cur)
        elif mid == b"\x03":
            dist = props[0] + 1
            out = bytearray(len(cur))
            for k, b in enumerate(cur):
                out[k] = (b + (out[k - dist] if k >= dist else 0)) & 0xFF
            cur = bytes(out)
        elif mid in BCJ:
            import bcj
            name = BCJ[mid][1]
            if name is None:
                raise RefError("IA64 BCJ not available to the reference reader")
            d = getattr(bcj, name)(len(cur))
            cur = d.decode(cur)
        elif mid == b"\x04\x02\x02":
            cur = bz2.decompress(cur)
        elif mid == b"\x04\x01\x08":
            d = zlib.decompressobj(wbits=-15)
            cur = d.decompress(cur) + d.flush()
        elif mid == b"\x04\x01\x09":
            import inflate64
            cur = inflate64.Inflater().inflate(cur)
        elif mid == b"\x04\xf7\x11\x01":
            import pyzstd
            cur = pyzstd.ZstdDecompressor().decompress(cur)
        elif mid == b"\x04\xf7\x11\x02":
            import brotli
            cur = brotli.decompress(cur)
        elif mid == b"\x03\x04\x01":
            import pyppmd
            order, mem = struct.unpack("<BL", props[:5])
            dec = pyppmd.Ppmd7Decoder(order, mem)
            out = dec.decode(cur, size)
            while len(out) < size:
                more = dec.decode(b"\0", size - len(out))
                if not more:
                    break
                out += more
            cur = out
        elif mid == b"\x06\xf1\x07\x01":
            cur = dec_aes(cur, props, password)
        else:
            raise RefError("unsupported method %s" % mid.hex())
        if len(cur) < size:
            raise RefError("coder %d (%s) produced %d bytes, header declares %d" % (i, mid.hex(), len(cur), size))
        cur = cur[:size]
        i += 1
    return cur


def parse_with_spec(model, raw):
    r = model.call("spec_header", [LIM, list(raw)])
    if r[0] != 0:
        raise RefError("specification parser rejects the header (error %d)" % r[1])
    valid, plans, packpos, packsizes, packcrcs, folders, nums, sizes, crcs = r[1]
    fl = []
    for f in folders:
        coders = [(bytes(c[0]), (bytes(c[3][0]) if c[3] != [] else None), c[1], c[2]) for c in f[0]]
        fl.append({"coders": coders, "bonds": f[1], "packed": f[2], "unpacksizes": f[3], "crc": (f[4][0] if f[4] else None)})
    # creation / access time of every entry, as the same strict reader (s_header) reads the header
    t = model.call("spec_times", [LIM, list(raw)])
    times = [((x[0][0] if x[0] else None), (x[1][0] if x[1] else None)) for x in t[1]] if t[0] == 0 else []
    if len(times) != len(plans):
        raise RefError("specification parser: %d entries with times for %d plans" % (len(times), len(plans)))
    return {"valid": valid == 1, "plans": plans, "times": times, "packpos": packpos, "packsizes": packsizes,
            "packcrcs": [(c[0] if c else None) for c in packcrcs], "folders": fl, "nums": nums, "sizes": sizes,
            "crcs": [(c[0] if c else None) for c in crcs]}


def check_linear(f):
    n = len(f["coders"])
    for (mid, props, nin, nout) in f["coders"]:
        if nin != 1 or nout != 1:
            raise RefError("complex coder (BCJ2-like): not supported by the reference reader")
    if sorted(map(tuple, f["bonds"])) != [(i + 1, i) for i in range(n - 1)]:
        raise RefError("non-linear bind pairs")


def read_archive(data, model, password=None, strict_tiling=True):
    notes = []
    if len(data) < 32 or data[:6] != MAGIC:
        raise RefError("signature")
    start_crc, = struct.unpack("<L", data[8:12])
    if zlib.crc32(data[12:32]) != start_crc:
        raise RefError("start header CRC")
    nh_ofs, nh_size, nh_crc = struct.unpack("<QQL", data[12:32])
    if 32 + nh_ofs + nh_size > len(data):
        raise RefError("next header outside the file")
    if 32 + nh_ofs + nh_size != len(data):
        notes.append("trailing bytes after the header")
        if strict_tiling:
            raise RefError("file has %d bytes after the header" % (len(data) - 32 - nh_ofs - nh_size))
    raw = data[32 + nh_ofs: 32 + nh_ofs + nh_size]
    if nh_size == 0:
        return {"members": [], "notes": notes + ["empty archive"], "layout": {}}
    if zlib.crc32(raw) != nh_crc:
        raise RefError("next header CRC")
    data_end = 32 + nh_ofs          # the data area is [32, data_end)
    levels = 0
    while raw[:1] == b"\x17":
        levels += 1
        if levels > 4:
            raise RefError("encoded header nesting")
        eh = parse_with_spec(model, b"\x01\x04" + raw[1:] + b"\x00")
        if len(eh["folders"]) != 1 or len(eh["packsizes"]) != 1:
            raise RefError("encoded header with %d folders" % len(eh["folders"]))
        f = eh["folders"][0]
        check_linear(f)
        p0 = 32 + eh["packpos"]
        p1 = p0 + eh["packsizes"][0]
        if p1 > data_end:
            raise RefError("encoded header stream outside the data area")
        if strict_tiling and p1 != data_end:
            raise RefError("encoded header stream does not end where the header starts")
        packed = data[p0:p1]
        if eh["packcrcs"][0] is not None and zlib.crc32(packed) != eh["packcrcs"][0]:
            raise RefError("encoded header pack CRC")
        raw = decode_folder(packed, [(c[0], c[1]) for c in f["coders"]], f["unpacksizes"], password)
        if f["crc"] is not None:
            if zlib.crc32(raw) != f["crc"]:
                raise RefError("encoded header CRC")
        else:
            notes.append("encoded header carries no CRC of the plain header")
        data_end = p0
    h = parse_with_spec(model, raw)
    if not h["valid"]:
        raise RefError("header violates a structural invariant (counts disagree between sections)")
    # packed streams tile [32 + packpos, data_end)
    pos = 32 + h["packpos"]
    stream_pos = []
    for s in h["packsizes"]:
        stream_pos.append((pos, pos + s))
        pos += s
    if pos > data_end:
        raise RefError("packed streams overrun the data area")
    if strict_tiling and h["packsizes"] and pos != data_end:
        raise RefError("packed streams end at %d, data area ends at %d" % (pos, data_end))
    for (a, b), c in zip(stream_pos, h["packcrcs"]):
        if c is not None and zlib.crc32(data[a:b]) != c:
            raise RefError("packed stream CRC")
    # decode folders
    decoded = []
    si = 0
    for f in h["folders"]:
        check_linear(f)
        if len(f["packed"]) != 1:
            raise RefError("folder with %d packed streams" % len(f["packed"]))
        a, b = stream_pos[si]
        si += 1
        out = decode_folder(data[a:b], [(c[0], c[1]) for c in f["coders"]], f["unpacksizes"], password)
        if f["crc"] is not None and zlib.crc32(out) != f["crc"]:
            raise RefError("folder CRC")
        decoded.append(out)
    # per folder: sub-stream sizes must sum to the folder's size
    k = 0
    for fi, n in enumerate(h["nums"]):
        tot = sum(h["sizes"][k:k + n])
        if n > 0 and tot != len(decoded[fi]):
            raise RefError("sub-stream sizes of folder %d sum to %d, folder decodes to %d" % (fi, tot, len(decoded[fi])))
        k += n
    members = []
    for p, (ctime, atime) in zip(h["plans"], h["times"]):
        name = "".join(chr(c) for c in p[0][0]) if p[0] else None
        kind = {0: "file", 1: "empty", 2: "dir"}[p[1]]
        d = b""
        crc = p[5][0] if p[5] else None
        if kind == "file":
            if p[2] < 0:
                raise RefError("data entry without a sub-stream")
            d = decoded[p[2]][p[3]:p[3] + p[4]]
            if len(d) != p[4]:
                raise RefError("member outside its folder")
            if crc is not None and zlib.crc32(d) != crc:
                raise RefError("member CRC (%s)" % name)
        members.append({"name": name, "kind": kind, "data": d, "crc": crc, "folder": p[2], "offset": p[3],
                        "mtime": (p[6][0] if p[6] else None), "attr": (p[7][0] if p[7] else None),
                        "ctime": ctime, "atime": atime})
    return {"members": members, "notes": notes, "layout": {"folders": len(h["folders"]), "nums": h["nums"],
                                                            "packpos": h["packpos"], "encoded": levels}}
