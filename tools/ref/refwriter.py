"""refwriter.py -- an independent reference WRITER of 7z archives, written from
docs/archive_format.rst; shares no container code with py7zr (codecs come from the
standard library / the codec wheels directly).  It can emit the layout choices py7zr's own
writer never makes (C06): several folders, any interleaving of empty-stream entries, CRCs at
sub-stream / folder / none, packed CRCs, packpos > 0, kDummy padding, EmptyFile vector,
partially defined vectors, NumUnpackStream omitted, no SubStreamsInfo, raw or LZMA-encoded header.

A logical archive is a list of members:
    {"name": str, "kind": "file"|"empty"|"dir", "data": bytes, "mtime": int|None, "attr": int|None,
     "ctime": int|None, "atime": int|None}
A layout is a dict (all keys optional):
    folders:   list of lists of indices (into the data members, in order) – partition into folders (default: one solid folder)
    coders:    list (per folder) of chain names from CODERS (default "copy")
    crc:       "substream" | "folder" | "none" | "partial"
    pack_crc:  bool
    packpos:   int  (junk bytes before the packed streams)
    dummy:     int  (length of a kDummy record in FilesInfo, 0 = none)
    emptyfile: "auto" | "omit" | "always"
    omit_nums: bool (omit NumUnpackStream when all are 1)
    no_substreams: bool (omit SubStreamsInfo entirely; needs one member per folder; the CRCs are then the folders':
               all of them, or with crc "none" / "folder-partial" none / every other one)
    header:    "raw" | "lzma"
    zero_folder_after: int|None  (insert a folder with zero sub-streams after folder k)
    attr_defined / mtime_defined: "all" | "partial"   (partial: honour None entries; all: require values)
"""
import bz2
import lzma
import struct
import zlib

MAGIC = b"7z\xbc\xaf\x27\x1c"


def number(v):
    assert 0 <= v < 1 << 64
    for n in range(8):
        if v < 1 << (7 * (n + 1)):
            first = ((0xFF << (8 - n)) & 0xFF) | (v >> (8 * n))
            return bytes([first]) + (v & ((1 << (8 * n)) - 1)).to_bytes(n, "little")
    return b"\xff" + v.to_bytes(8, "little")


def bits(flags):
    out = bytearray((len(flags) + 7) // 8)
    for i, b in enumerate(flags):
        if b:
            out[i // 8] |= 0x80 >> (i % 8)
    return bytes(out)


def digests(values):
    """values: list of int|None -> AllAreDefined, [bits], CRCs of the defined ones"""
    defined = [v is not None for v in values]
    out = b"\x01" if all(defined) else b"\x00" + bits(defined)
    for v in values:
        if v is not None:
            out += struct.pack("<L", v)
    return out


def lzma2_props(dict_size=1 << 20):
    return lzma._encode_filter_properties({"id": lzma.FILTER_LZMA2, "dict_size": dict_size})


def enc_lzma2(data):
    f = {"id": lzma.FILTER_LZMA2, "dict_size": 1 << 20}
    return lzma.compress(data, format=lzma.FORMAT_RAW, filters=[f]), lzma._encode_filter_properties(f)


def enc_lzma1(data):
    f = {"id": lzma.FILTER_LZMA1, "dict_size": 1 << 16, "lc": 3, "lp": 0, "pb": 2}
    return lzma.compress(data, format=lzma.FORMAT_RAW, filters=[f]), lzma._encode_filter_properties(f)


def enc_deflate(data):
    c = zlib.compressobj(wbits=-15)
    return c.compress(data) + c.flush(), None


def enc_bzip2(data):
    return bz2.compress(data), None


def enc_copy(data):
    return bytes(data), None


def enc_delta(data, dist=1):
    out = bytearray(len(data))
    for i, b in enumerate(data):
        out[i] = (b - (data[i - dist] if i >= dist else 0)) & 0xFF
    return bytes(out), bytes([dist - 1])


# chain name -> list of (method id, encoder) applied first to last (data -> ... -> packed)
CODERS = {
    "copy": [(b"\x00", enc_copy)],
    "lzma2": [(b"\x21", enc_lzma2)],
    "lzma": [(b"\x03\x01\x01", enc_lzma1)],
    "deflate": [(b"\x04\x01\x08", enc_deflate)],
    "bzip2": [(b"\x04\x02\x02", enc_bzip2)],
    "delta+lzma2": [(b"\x03", enc_delta), (b"\x21", enc_lzma2)],
    # two size-changing coders in one folder (data -> first -> second -> packed)
    "deflate>lzma2": [(b"\x04\x01\x08", enc_deflate), (b"\x21", enc_lzma2)],
    "lzma2>deflate": [(b"\x21", enc_lzma2), (b"\x04\x01\x08", enc_deflate)],
    "bzip2>copy": [(b"\x04\x02\x02", enc_bzip2), (b"\x00", enc_copy)],
    # three and four coders in one folder (four is the most py7zr accepts)
    "delta+delta+lzma2": [(b"\x03", lambda d: enc_delta(d, 1)), (b"\x03", lambda d: enc_delta(d, 3)), (b"\x21", enc_lzma2)],
    "delta+delta+delta+lzma2": [(b"\x03", lambda d: enc_delta(d, 2)), (b"\x03", lambda d: enc_delta(d, 1)),
                                (b"\x03", lambda d: enc_delta(d, 4)), (b"\x21", enc_lzma2)],
}


def encode_folder(data, chain):
    """returns (packed bytes, coders in 7z order [last applied first], unpack sizes in that order)"""
    stages = CODERS[chain]
    cur = data
    infos = []
    for mid, enc in stages:
        out, props = enc(cur)
        infos.append((mid, props, len(cur)))
        cur = out
    coders, sizes = [], []
    for mid, props, insize in reversed(infos):
        coders.append((mid, props))
        sizes.append(insize)
    return cur, coders, sizes


def folder_bytes(coders):
    out = number(len(coders))
    for mid, props in coders:
        flag = len(mid) | (0x20 if props is not None else 0)
        out += bytes([flag]) + mid
        if props is not None:
            out += number(len(props)) + props
    for i in range(len(coders) - 1):
        out += number(i + 1) + number(i)     # bond: in-stream i+1 <- out-stream i
    return out


def utf16(name):
    return name.encode("utf-16-le") + b"\0\0"


def prop(pid, body):
    return bytes([pid]) + number(len(body)) + body


def vector_prop(pid, values, width):
    defined = [v is not None for v in values]
    body = (b"\x01" if all(defined) else b"\x00" + bits(defined)) + b"\x00"
    for v in values:
        if v is not None:
            body += v.to_bytes(width, "little")
    return prop(pid, body)


def write_archive(members, layout=None):
    layout = dict(layout or {})
    data_idx = [i for i, m in enumerate(members) if m["kind"] == "file"]
    parts = layout.get("folders")
    if parts is None:
        parts = [list(range(len(data_idx)))] if data_idx else []
    chains = layout.get("coders") or ["copy"] * len(parts)
    crc_mode = layout.get("crc", "substream")
    zero_after = layout.get("zero_folder_after")
    # ---- packed streams
    packed_streams, folders = [], []   # folders: (coders, unpacksizes, [member data], folder_crc)
    for k, (part, chain) in enumerate(zip(parts, chains)):
        datas = [members[data_idx[j]]["data"] for j in part]
        whole = b"".join(datas)
        packed, coders, usizes = encode_folder(whole, chain)
        packed_streams.append(packed)
        folders.append((coders, usizes, datas, zlib.crc32(whole)))
        if zero_after is not None and k == zero_after:
            p0, c0, u0 = encode_folder(b"", "copy")
            packed_streams.append(p0)
            folders.append((c0, u0, [], None))
    junk = bytes((i * 37 + 11) & 0xFF for i in range(layout.get("packpos", 0)))
    # ---- header
    h = b"\x01"
    if folders:
        h += b"\x04"
        h += b"\x06" + number(len(junk)) + number(len(packed_streams)) + b"\x09" + b"".join(number(len(p)) for p in packed_streams)
        if layout.get("pack_crc") == "partial":
            h += b"\x0a" + digests([zlib.crc32(p) if i % 2 == 0 else None for i, p in enumerate(packed_streams)])
        elif layout.get("pack_crc"):
            h += b"\x0a" + digests([zlib.crc32(p) for p in packed_streams])
        h += b"\x00"
        h += b"\x07\x0b" + number(len(folders)) + b"\x00" + b"".join(folder_bytes(f[0]) for f in folders)
        h += b"\x0c" + b"".join(number(s) for f in folders for s in f[1])
        no_sub = layout.get("no_substreams", False)
        folder_crc_vals = None
        if crc_mode == "folder" or (no_sub and crc_mode not in ("none", "folder-partial")):
            folder_crc_vals = [f[3] if f[2] else None for f in folders]
        elif crc_mode == "folder-partial":
            folder_crc_vals = [f[3] if (i % 2 == 0 and f[2]) else None for i, f in enumerate(folders)]
        if folder_crc_vals is not None and any(v is not None for v in folder_crc_vals):
            h += b"\x0a" + digests(folder_crc_vals)
        h += b"\x00"
        if not no_sub:
            h += b"\x08"
            nums = [len(f[2]) for f in folders]
            if not (layout.get("omit_nums", True) and all(n == 1 for n in nums)):
                h += b"\x0d" + b"".join(number(n) for n in nums)
            if any(n > 1 for n in nums):
                h += b"\x09" + b"".join(number(len(d)) for f in folders for d in f[2][:-1])
            # CRCs for sub-streams whose CRC is not known from the folder
            unknown = []
            si = 0
            for fi, f in enumerate(folders):
                known = folder_crc_vals is not None and folder_crc_vals[fi] is not None and len(f[2]) == 1
                for d in f[2]:
                    if not known:
                        if crc_mode in ("substream", "folder-partial"):
                            unknown.append(zlib.crc32(d))
                        elif crc_mode == "partial":
                            # a data-dependent irregular pattern (not periodic in the stream index)
                            unknown.append(zlib.crc32(d) if (si * 5 + len(d)) % 3 != 0 else None)
                        else:
                            unknown.append(None)
                    si += 1
            if any(v is not None for v in unknown):
                h += b"\x0a" + digests(unknown)
            h += b"\x00"
        h += b"\x00"
    if members:
        h += b"\x05" + number(len(members))
        empties = [m["kind"] != "file" for m in members]
        if any(empties):
            h += prop(0x0E, bits(empties))
            ef = [m["kind"] == "empty" for m in members if m["kind"] != "file"]
            mode = layout.get("emptyfile", "auto")
            if mode == "always" or (mode == "auto" and any(ef)):
                h += prop(0x0F, bits(ef))
        if layout.get("dummy", 0) > 0:
            h += prop(0x19, bytes(layout["dummy"]))
        h += prop(0x11, b"\x00" + b"".join(utf16(m["name"]) for m in members))
        for pid, key in ((0x12, "ctime"), (0x13, "atime"), (0x14, "mtime")):
            vals = [m.get(key) for m in members]
            if any(v is not None for v in vals):
                h += vector_prop(pid, vals, 8)
        attrs = [m.get("attr") for m in members]
        if any(a is not None for a in attrs):
            h += vector_prop(0x15, attrs, 4)
        h += b"\x00"
    h += b"\x00"
    body = junk + b"".join(packed_streams)
    if layout.get("header", "raw") == "lzma":
        packed_h, coders_h, usizes_h = encode_folder(h, "lzma2")
        eh = b"\x17\x06" + number(len(body)) + number(1) + b"\x09" + number(len(packed_h)) + b"\x00"
        eh += b"\x07\x0b" + number(1) + b"\x00" + folder_bytes(coders_h) + b"\x0c" + b"".join(number(s) for s in usizes_h)
        eh += b"\x0a" + digests([zlib.crc32(h)]) + b"\x00" + b"\x00"
        body += packed_h
        h = eh
    nh_ofs = len(body)
    start = struct.pack("<QQL", nh_ofs, len(h), zlib.crc32(h))
    sig = MAGIC + b"\x00\x04" + struct.pack("<L", zlib.crc32(start)) + start
    return sig + body + h
