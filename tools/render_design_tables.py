#!/usr/bin/env python3
"""Rewrite the generated tables of DESIGN.md (between <!-- X:BEGIN --> / <!-- X:END --> markers) from
known_findings.json, seeded/*/meta.json and evidence/*.json."""
import glob, json, os, re
V = os.path.dirname(os.path.dirname(os.path.abspath(__file__)))


def block(name, text, s):
    a, b = "<!-- %s:BEGIN -->" % name, "<!-- %s:END -->" % name
    if a not in s:
        s += "\n%s\n%s\n" % (a, b)
    return re.sub(re.escape(a) + r".*?" + re.escape(b), lambda m: a + "\n" + text + "\n" + b, s, flags=re.S)


def esc(x):
    return str(x).replace("|", "\\|").replace("\n", " ")


d = json.load(open(os.path.join(V, "known_findings.json")))
known = [f for f in d["findings"] if f.get("status") == "known"]
fixed = [f for f in d["findings"] if f.get("status") == "fixed"]
t = ["| id | property | matched on | what fails |", "|---|---|---|---|"]
for f in sorted(known, key=lambda f: (f["property"], f["id"])):
    t.append("| %s | %s | `%s` | %s |" % (f["id"], f["property"], esc(json.dumps(f.get("match", {}), sort_keys=True)), esc(f["what"])[:600]))
t2 = ["| id | property | commit | what failed |", "|---|---|---|---|"]
for f in sorted(fixed, key=lambda f: (f["property"], f["id"])):
    t2.append("| %s | %s | %s | %s |" % (f["id"], f["property"], f.get("commit", ""), esc(re.sub(r"^fixed: property=\S+ \S+ ", "", f["what"]))[:500]))
s = open(os.path.join(V, "DESIGN.md")).read()
s = block("KNOWN", "\n".join(t), s)
s = block("FIXED", "\n".join(t2), s)
rows = ["| seeded change | property | what it breaks / needs | detected | concrete replay | first report |", "|---|---|---|---|---|---|"]
for mp in sorted(glob.glob(os.path.join(V, "seeded", "*", "meta.json"))):
    m = json.load(open(mp))
    c = m.get("check_result", {})
    first = (c.get("first_violations") or [""])[0]
    rows.append("| %s | %s | %s; needs: %s | %s | %s | %s |" % (
        os.path.basename(os.path.dirname(mp)), m.get("property"), esc(m.get("title", ""))[:160], esc(m.get("needs", ""))[:200],
        ("yes (missed by the first version, see 10.6)" if m.get("missed_by_first_version") else "yes") if c.get("detected") else "NO", "yes" if c.get("concrete_replay") else "no", esc(first)[:160]))
import subprocess
log = subprocess.run(["git", "-C", os.environ.get("VERIF_REPO", "/repo"), "log", "--reverse", "--format=%h\t%s", "--grep=^fix:"],
                     capture_output=True, text=True).stdout.splitlines()
byc = {}
for f in fixed:
    for c in re.split(r"[+, ]+", f.get("commit", "")):
        if c:
            byc.setdefault(c[:7], []).append(f["id"])
rr = ["| commit | subject | findings closed (see 10.4) |", "|---|---|---|"]
for ln in log:
    h, subj = ln.split("\t", 1)
    rr.append("| %s | %s | %s |" % (h, esc(subj), ", ".join(sorted(set(byc.get(h[:7], []))))))
s = block("REPAIRS", "\n".join(rr), s)
s = block("SEEDED", "\n".join(rows), s)
rows = ["| check | obligations (discharged) | evaluations (distinct non-trivial) | known findings hit | quick wall s |", "|---|---|---|---|---|"]
for ep in sorted(glob.glob(os.path.join(V, "evidence", "C*.json"))):
    e = json.load(open(ep))
    c = e["coverage"]
    rows.append("| %s | %s (%s) | %s (%s) | %s | %s |" % (e["property_id"], c.get("obligations", "-"), c.get("discharged", "-"), c.get("evaluations"),
                                                     c.get("distinct_nontrivial"), len(e.get("known_findings_hit", [])), e.get("wall_s")))
s = block("CHECKS", "\n".join(rows), s)
open(os.path.join(V, "DESIGN.md"), "w").write(s)
print("DESIGN.md tables rendered: %d known, %d fixed" % (len(known), len(fixed)))
