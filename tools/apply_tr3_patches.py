"""Idempotent patches of files the translator agent does not own (props/C06.v, C07.v, C17.v, harness/c06.py, c07.py, c17.py)
for the third wave of the translator tie.  Run from anywhere:  /venv/bin/python tools/apply_tr3_patches.py
Each patch is guarded by a marker; an anchor that is no longer there makes the script stop with an assertion."""
import os

ROOT = os.path.dirname(os.path.dirname(os.path.abspath(__file__)))


def patch(rel, marker, edits, append=None):
    p = os.path.join(ROOT, rel)
    s = open(p).read()
    if marker in s:
        return False
    for old, new in edits:
        assert s.count(old) == 1, (rel, old)
        s = s.replace(old, new)
    if append:
        s = s.rstrip("\n") + "\n" + append
    open(p, "w").write(s)
    return True


# ------------------------------------------------------------------ stage 1
C17_STAGE1 = '''
(* ---- third wave (stage 1): the generated primitives ARE the primitives of the hand model Header.v, on all inputs.
   Every theorem over Header.v (header_roundtrip, writer_conforms, assign_conforms ...) is about rd_number / wr_number /
   rd_boolean / wr_boolean / rd_fixed / wr_fixed; these equalities carry them over to the code as translated on this run.
   wf_bytes: the input is a byte string (every element in 0..255).  rd_boolean's resource guard `lim` (Err EFuel when a
   count exceeds it) has no counterpart in the code: the equality holds whenever the model does not answer EFuel. ---- *)
Theorem C17_gen_read_uint64_is_rd_number : forall bs, wf_bytes bs = true -> read_uint64 bs = Header.rd_number bs.
Proof. exact HeaderGenPrims.gen_read_uint64_rd_number. Qed.
Print Assumptions C17_gen_read_uint64_is_rd_number.

Theorem C17_gen_write_uint64_is_wr_number : forall v, write_uint64 v = Header.wr_number v.
Proof. exact HeaderGenPrims.gen_write_uint64_wr_number. Qed.
Print Assumptions C17_gen_write_uint64_is_wr_number.

Theorem C17_gen_read_boolean_is_rd_boolean : forall lim count c bs, wf_bytes bs = true ->
  Header.rd_boolean lim count c bs <> Err EFuel -> read_boolean bs count c = Header.rd_boolean lim count c bs.
Proof. exact HeaderGenPrims.gen_read_boolean_rd_boolean. Qed.
Print Assumptions C17_gen_read_boolean_is_rd_boolean.

Theorem C17_gen_write_boolean_is_wr_boolean : forall l c, write_boolean l c = Ok (Header.wr_boolean l c).
Proof. exact HeaderGenPrims.gen_write_boolean_wr_boolean. Qed.
Print Assumptions C17_gen_write_boolean_is_wr_boolean.

Theorem C17_gen_fixed_width_are_model : forall v bs,
  write_uint32 v = Header.wr_fixed 4 v /\\ write_real_uint64 v = Header.wr_fixed 8 v /\\
  read_uint32 bs = (do (x, r) <- Header.rd_fixed 4 bs; Ok ((x, firstn 4 bs), r)) /\\
  read_real_uint64 bs = (do (x, r) <- Header.rd_fixed 8 bs; Ok ((x, firstn 8 bs), r)).
Proof.
  intros v bs. repeat split; [apply HeaderGenPrims.gen_write_uint32_wr_fixed | apply HeaderGenPrims.gen_write_real_uint64_wr_fixed
                             | apply HeaderGenPrims.gen_read_uint32_rd_fixed | apply HeaderGenPrims.gen_read_real_uint64_rd_fixed].
Qed.
Print Assumptions C17_gen_fixed_width_are_model.

(* the two hand models of a packed bit vector (BoolVec.v, Header.v) are the same function *)
Theorem C17_bits_enc_is_wr_bits : forall l, BoolVec.bits_enc l = Header.wr_bits l.
Proof. exact HeaderGenPrims.bits_enc_wr_bits. Qed.
Print Assumptions C17_bits_enc_is_wr_bits.
'''

C06_STAGE1 = '''
(* ---- third wave (stage 1): the header record readers as translated on this run (coq/gen/ArchiveinfoRecords.v, regenerated
   from py7zr/archiveinfo.py) are the parser of Header.v that embed / impl_plans are about.  An object is a record with
   one field per attribute; PackInfoGen.pack_of forgets the derived attributes packpositions / enable_digests.
   Side conditions, exactly: the input is a byte string (wf_bytes); the model's resource guard did not fire (the code has no
   such guard: it would try to allocate). ---- *)
Theorem C06_gen_PackInfo_retrieve_is_parse_packinfo : forall lim bs, wf_bytes bs = true ->
  parse_packinfo lim bs <> Err EFuel ->
  (do (o, r) <- ArchiveinfoRecords.PackInfo_retrieve bs; Ok (PackInfoGen.pack_of o, r)) = parse_packinfo lim bs.
Proof. exact PackInfoGen.gen_PackInfo_retrieve_eq_model. Qed.
Print Assumptions C06_gen_PackInfo_retrieve_is_parse_packinfo.

Example C06_gen_PackInfo_example :
  (do (o, r) <- ArchiveinfoRecords.PackInfo_retrieve [5; 2; 9; 40; 129; 44; 10; 0; 128; 120; 86; 52; 18; 0; 77];
   Ok (PackInfoGen.pack_of o, r)) = Ok (mkPack 5 2 [40; 300] [true; false] [305419896; 0], [77])
  /\\ ArchiveinfoRecords.PackInfo_retrieve [5; 0; 7] = Err EBad7z.
Proof. split; vm_compute; reflexivity. Qed.
'''

C07_STAGE1 = '''
(* ---- third wave (stage 1): the header record writers as translated on this run (coq/gen/ArchiveinfoRecords.v, regenerated
   from py7zr/archiveinfo.py) are the writer of Header.v that writer_conforms is about: for EVERY object, the bytes
   PackInfo.write emits (or its failing) are write_packinfo's.  A generated writer returns (object after the call, bytes). ---- *)
Theorem C07_gen_PackInfo_write_is_write_packinfo : forall self : ArchiveinfoRecords.PackInfo,
  (do (o, out) <- ArchiveinfoRecords.PackInfo_write self; Ok out)
  = write_packinfo (ArchiveinfoRecords.PackInfo_enable_digests self) (PackInfoGen.pack_of self).
Proof. exact PackInfoGen.gen_PackInfo_write_eq_model. Qed.
Print Assumptions C07_gen_PackInfo_write_is_write_packinfo.

(* hence the section theorem, over the generated writer: what it emits is read back by the strict specification reader *)
Theorem C07_gen_packinfo_strict : forall lim nf (self o : ArchiveinfoRecords.PackInfo) bs,
  wfw_pack nf (PackInfoGen.pack_of self) = true -> nf <= lim -> ArchiveinfoRecords.PackInfo_write self = Ok (o, bs) ->
  exists body, bs = 6 :: body /\\
    forall r, s_packinfo lim (body ++ r) =
      Ok ((p_pos (PackInfoGen.pack_of self), p_sizes (PackInfoGen.pack_of self),
           sem_packcrcs (ArchiveinfoRecords.PackInfo_enable_digests self) (PackInfoGen.pack_of self)), r).
Proof.
  intros lim nf self o bs Hwf Hnf Hw.
  pose proof (PackInfoGen.gen_PackInfo_write_eq_model self) as He. rewrite Hw in He. cbn [bind] in He.
  exact (s_packinfo_wr lim _ nf _ bs Hwf Hnf (eq_sym He)).
Qed.
Print Assumptions C07_gen_packinfo_strict.

(* the object after write(): only enable_digests changes *)
Theorem C07_gen_PackInfo_write_state : forall (self o : ArchiveinfoRecords.PackInfo) out,
  ArchiveinfoRecords.PackInfo_write self = Ok (o, out) ->
  o = ArchiveinfoRecords.mkPackInfo (ArchiveinfoRecords.PackInfo_packpos self) (ArchiveinfoRecords.PackInfo_numstreams self)
        (ArchiveinfoRecords.PackInfo_packsizes self) (ArchiveinfoRecords.PackInfo_packpositions self)
        (ArchiveinfoRecords.PackInfo_crcs self) (ArchiveinfoRecords.PackInfo_digestdefined self)
        (ArchiveinfoRecords.PackInfo_enable_digests self || any_true (ArchiveinfoRecords.PackInfo_digestdefined self)).
Proof. exact PackInfoGen.gen_PackInfo_write_state. Qed.
Print Assumptions C07_gen_PackInfo_write_state.
'''


def stage1():
    done = []
    if patch("coq/props/C17.v", "C17_gen_read_uint64_is_rd_number",
             [("From P7gen Require Import ArchiveinfoPrims.\n",
               "From P7gen Require Import ArchiveinfoPrims.\nFrom P7 Require Header HeaderGenPrims.\n")], C17_STAGE1):
        done.append("props/C17.v")
    if patch("coq/props/C06.v", "C06_gen_PackInfo_retrieve_is_parse_packinfo",
             [("From P7 Require Import Prelude PyPrims Number Header Spec Assign AssignProofs.\n",
               "From P7 Require Import Prelude PyPrims Number Header Spec Assign AssignProofs.\n"
               "From P7 Require PackInfoGen.\nFrom P7gen Require ArchiveinfoRecords.\n")], C06_STAGE1):
        done.append("props/C06.v")
    if patch("coq/props/C07.v", "C07_gen_PackInfo_write_is_write_packinfo",
             [("From P7 Require Import Prelude PyPrims Number Header HeaderPrims Spec SpecProofs.\n",
               "From P7 Require Import Prelude PyPrims Number Header HeaderPrims Spec SpecProofs.\n"
               "From P7 Require PackInfoGen.\nFrom P7gen Require ArchiveinfoRecords.\n")], C07_STAGE1):
        done.append("props/C07.v")
    # harnesses: GEN_DEPS + one validation call at the start of run()
    hook = ('\n    try:\n        from harness import hdrgen\n        hdrgen.check_%s(ctx, rep, random.Random(ctx["seed"] ^ 0x7A3), tier)\n'
            '    except Exception as e:  # noqa\n        rep.violation("translation validation raised %%s: %%s" %% (type(e).__name__, e),\n'
            '                      {"kind": "exception", "part": "hdrgen"}, concrete=False, match_keys={"kind": "exception", "part": "hdrgen"})\n')
    for rel, which, deps in (("tools/harness/c06.py", "readers", READ_DEPS_1), ("tools/harness/c07.py", "writers", WRITE_DEPS_1)):
        p = os.path.join(ROOT, rel)
        s = open(p).read()
        if "hdrgen" in s:
            continue
        anchor = "def run(ctx):\n    rep, tier = ctx[\"rep\"], ctx[\"tier\"]\n    rng = random.Random(ctx[\"seed\"])\n"
        assert s.count(anchor) == 1, rel
        s = s.replace(anchor, anchor + hook % which)
        if "\nGEN_DEPS" in s:
            import re
            m = re.search(r"\nGEN_DEPS = \[(.*?)\](?=\n)", s, re.S)
            assert m, rel
            old = [x.strip().strip('"') for x in m.group(1).split(",") if x.strip()]
            new = old + [d for d in deps if d not in old]
            s = s[:m.start()] + "\nGEN_DEPS = [" + ", ".join('"%s"' % d for d in new) + "]" + s[m.end():]
        else:
            k = s.index("\ndef ")
            s = s[:k] + "\nGEN_DEPS = [" + ", ".join('"%s"' % d for d in deps) + "]\n" + s[k:]
        open(p, "w").write(s)
        done.append(rel)
    return done


READ_DEPS_1 = ["read_uint64", "read_uint32", "read_real_uint64", "read_boolean", "read_crcs", "read_byte",
               "PackInfo.__init__", "PackInfo._read", "PackInfo.retrieve"]
WRITE_DEPS_1 = ["write_uint64", "write_uint32", "write_real_uint64", "write_boolean", "write_crcs", "write_bytes", "write_byte",
                "PackInfo.__init__", "PackInfo.write"]

# ------------------------------------------------------------------ stage 2
C06_STAGE2 = '''
(* ---- third wave (stage 2): Folder._read / retrieve and UnpackInfo._read / _retrieve_coders_info / retrieve as translated
   on this run are parse_folder / parse_unpackinfo.  FolderGen.folder_of maps the generated record to the model's (coders
   are dicts with the four keys, bind pairs are Bond objects; `solid` and the compressor attributes are not in the model).
   UnpackInfo: equal up to the CLASS of the exception (res_same): at the end of the record the code formats
   `0x{ord(pid):02x}` into its Bad7zFile message, so at end of input it raises TypeError where the model says Bad7zFile;
   the branch for an external folder stream (file.seek, "no live example") is not translated: both sides answer
   EUnsupported there. ---- *)
Theorem C06_gen_Folder_retrieve_is_parse_folder : forall lim bs, wf_bytes bs = true -> parse_folder lim bs <> Err EFuel ->
  (do (o, r) <- ArchiveinfoRecords.Folder_retrieve bs; Ok (FolderGen.folder_of o, r)) = parse_folder lim bs.
Proof. exact FolderGen.gen_Folder_retrieve_eq_model. Qed.
Print Assumptions C06_gen_Folder_retrieve_is_parse_folder.

Theorem C06_gen_UnpackInfo_retrieve_is_parse_unpackinfo : forall lim bs, wf_bytes bs = true ->
  parse_unpackinfo lim bs = Err EFuel \\/
  HeaderGenPrims.res_same
    (do (o, r) <- ArchiveinfoRecords.UnpackInfo_retrieve bs;
     Ok (map FolderGen.folder_of (ArchiveinfoRecords.UnpackInfo_folders o), r))
    (parse_unpackinfo lim bs).
Proof. exact FolderGen.gen_UnpackInfo_retrieve_model_or. Qed.
Print Assumptions C06_gen_UnpackInfo_retrieve_is_parse_unpackinfo.

(* whenever the model accepts, the generated reader returns exactly the model's folders and the same rest *)
Theorem C06_gen_UnpackInfo_retrieve_accepts : forall lim bs fs r, wf_bytes bs = true -> parse_unpackinfo lim bs = Ok (fs, r) ->
  (do (o, r) <- ArchiveinfoRecords.UnpackInfo_retrieve bs;
   Ok (map FolderGen.folder_of (ArchiveinfoRecords.UnpackInfo_folders o), r)) = Ok (fs, r).
Proof. exact FolderGen.gen_UnpackInfo_retrieve_eq_model. Qed.
Print Assumptions C06_gen_UnpackInfo_retrieve_accepts.

Theorem C06_gen_read_crcs_is_rd_crcs : forall bs count, 0 <= count -> ArchiveinfoRecords.read_crcs bs count = rd_crcs count bs.
Proof. exact FolderGen.gen_read_crcs_rd_crcs. Qed.
Print Assumptions C06_gen_read_crcs_is_rd_crcs.
'''

C07_STAGE2 = '''
(* ---- third wave (stage 2): Folder.write and UnpackInfo.write (with_crcs = False, the main streams) as translated on this
   run are write_folder / write_unpackinfo, for every object.  Side condition, exactly: UnpackInfo.write asserts
   numfolders == len(folders) (the model has no separate count). ---- *)
Theorem C07_gen_Folder_write_is_write_folder : forall self : ArchiveinfoRecords.Folder,
  ArchiveinfoRecords.Folder_write self = write_folder (FolderGen.folder_of self).
Proof. exact FolderGen.gen_Folder_write_eq_model. Qed.
Print Assumptions C07_gen_Folder_write_is_write_folder.

Theorem C07_gen_UnpackInfo_write_is_write_unpackinfo : forall self : ArchiveinfoRecords.UnpackInfo,
  ArchiveinfoRecords.UnpackInfo_write self false =
  if ArchiveinfoRecords.UnpackInfo_numfolders self =? zlen (ArchiveinfoRecords.UnpackInfo_folders self)
  then write_unpackinfo (map FolderGen.folder_of (ArchiveinfoRecords.UnpackInfo_folders self)) else Err EOther.
Proof. exact FolderGen.gen_UnpackInfo_write_eq_model. Qed.
Print Assumptions C07_gen_UnpackInfo_write_is_write_unpackinfo.

(* hence the section theorem over the generated writer *)
Theorem C07_gen_unpackinfo_strict : forall lim (self : ArchiveinfoRecords.UnpackInfo) bs,
  let fs := map FolderGen.folder_of (ArchiveinfoRecords.UnpackInfo_folders self) in
  zlen fs <= lim -> forallb (wfw_folder lim) fs = true -> ArchiveinfoRecords.UnpackInfo_write self false = Ok bs ->
  exists body, bs = 7 :: body /\\ forall r, s_unpackinfo lim (body ++ r) = Ok (map sem_folder fs, r).
Proof.
  intros lim self bs fs Hn Hwf Hw. rewrite FolderGen.gen_UnpackInfo_write_eq_model in Hw.
  destruct (_ =? _) in Hw; [|discriminate]. exact (s_unpackinfo_wr lim fs bs Hn Hwf Hw).
Qed.
Print Assumptions C07_gen_unpackinfo_strict.

Theorem C07_gen_write_crcs_is_wr_list : forall crcs, ArchiveinfoRecords.write_crcs crcs = wr_list (wr_fixed 4) crcs.
Proof. exact HeaderGenPrims.gen_write_crcs_wr_list. Qed.
Print Assumptions C07_gen_write_crcs_is_wr_list.
'''

READ_DEPS_2 = ["Coder", "Bond.__init__", "Folder.__init__", "Folder._read", "Folder.retrieve", "UnpackInfo.__init__",
               "UnpackInfo._retrieve_coders_info", "UnpackInfo._read", "UnpackInfo.retrieve"]
WRITE_DEPS_2 = ["Coder", "Bond.__init__", "Folder.__init__", "Folder.is_simple", "Folder.write", "UnpackInfo.__init__", "UnpackInfo.write"]


def add_gen_deps(rel, deps):
    import re
    p = os.path.join(ROOT, rel)
    s = open(p).read()
    m = re.search(r"\nGEN_DEPS = \[(.*?)\](?=\n)", s, re.S)      # up to the bracket that ends the line (names may contain [..])
    assert m, rel
    old = [x.strip().strip('"') for x in m.group(1).split(",") if x.strip()]
    new = old + [d for d in deps if d not in old]
    if new == old:
        return False
    s = s[:m.start()] + "\nGEN_DEPS = [" + ", ".join('"%s"' % d for d in new) + "]" + s[m.end():]
    open(p, "w").write(s)
    return True


def add_require(rel, anchor, line):
    p = os.path.join(ROOT, rel)
    s = open(p).read()
    if line in s:
        return
    assert s.count(anchor) == 1, (rel, anchor)
    open(p, "w").write(s.replace(anchor, anchor + line))


def stage2():
    done = []
    add_require("coq/props/C06.v", "From P7 Require PackInfoGen.\n", "From P7 Require HeaderGenPrims FolderGen.\n")
    add_require("coq/props/C07.v", "From P7 Require PackInfoGen.\n", "From P7 Require HeaderGenPrims FolderGen.\n")
    if patch("coq/props/C06.v", "C06_gen_Folder_retrieve_is_parse_folder", [], C06_STAGE2):
        done.append("props/C06.v")
    if patch("coq/props/C07.v", "C07_gen_Folder_write_is_write_folder", [], C07_STAGE2):
        done.append("props/C07.v")
    if add_gen_deps("tools/harness/c06.py", READ_DEPS_2):
        done.append("tools/harness/c06.py")
    if add_gen_deps("tools/harness/c07.py", WRITE_DEPS_2):
        done.append("tools/harness/c07.py")
    return done


# ------------------------------------------------------------------ stage 3
C06_STAGE3 = """
(* ---- third wave (stage 3): SubstreamsInfo._read / retrieve / _inherit_folder_digests / default and Folder.get_unpack_size /
   _find_out_bin_pair as translated on this run are parse_substreams / default_digests / folder_unpack_size.
   The reader is called as the code calls it: numfolders = len(folders).  Exact equality, error classes included. ---- *)
Theorem C06_gen_SubstreamsInfo_retrieve_is_parse_substreams : forall lim bs (gfs : list ArchiveinfoRecords.Folder),
  wf_bytes bs = true -> parse_substreams lim (map FolderGen.folder_of gfs) bs <> Err EFuel ->
  (do (o, r) <- ArchiveinfoRecords.SubstreamsInfo_retrieve bs (zlen gfs) gfs; Ok (SubstreamsGen.sub_of o, r))
  = parse_substreams lim (map FolderGen.folder_of gfs) bs.
Proof. exact SubstreamsGen.gen_SubstreamsInfo_retrieve_eq_model. Qed.
Print Assumptions C06_gen_SubstreamsInfo_retrieve_is_parse_substreams.

Theorem C06_gen_Folder_get_unpack_size_is_model : forall g : ArchiveinfoRecords.Folder,
  ArchiveinfoRecords.Folder_get_unpack_size g = folder_unpack_size (FolderGen.folder_of g).
Proof. exact SubstreamsGen.gen_get_unpack_size. Qed.
Print Assumptions C06_gen_Folder_get_unpack_size_is_model.

(* SubstreamsInfo.default(folders): what the reader installs for an archive without a SubStreamsInfo record (F11 repair) *)
Theorem C06_gen_SubstreamsInfo_default_is_default_digests : forall gfs : list ArchiveinfoRecords.Folder,
  ArchiveinfoRecords.SubstreamsInfo_default gfs
  = let '(d, g) := default_digests (repeat 1 (length gfs)) (map FolderGen.folder_of gfs) in
    Ok (ArchiveinfoRecords.mkSubstreamsInfo g d None (repeat 1 (length gfs))).
Proof. exact SubstreamsGen.gen_SubstreamsInfo_default. Qed.
Print Assumptions C06_gen_SubstreamsInfo_default_is_default_digests.
"""

C07_STAGE3 = """
(* ---- third wave (stage 3): SubstreamsInfo.write as translated on this run is write_substreams, for every object. ---- *)
Theorem C07_gen_SubstreamsInfo_write_is_write_substreams : forall self : ArchiveinfoRecords.SubstreamsInfo,
  ArchiveinfoRecords.SubstreamsInfo_write self = write_substreams (SubstreamsGen.sub_of self).
Proof. exact SubstreamsGen.gen_SubstreamsInfo_write_eq_model. Qed.
Print Assumptions C07_gen_SubstreamsInfo_write_is_write_substreams.

(* hence the section theorem over the generated writer *)
Theorem C07_gen_substreams_strict : forall lim fs (self : ArchiveinfoRecords.SubstreamsInfo) sz bs,
  let s := SubstreamsGen.sub_of self in
  Forall (fun f => wfw_folder lim f = true) fs -> zlen fs <= lim ->
  wfw_sub lim fs s = true -> s_sizes s = Some sz -> (length (s_nums s) =? 0)%nat = false ->
  ArchiveinfoRecords.SubstreamsInfo_write self = Ok bs ->
  exists body, bs = 8 :: body /\\ 
    forall r, s_substreams lim (map sem_folder fs) (body ++ r) =
              Ok ((s_nums s, sz, crc_opts (Header.s_digests s) (s_digestsdefined s)), r).
Proof.
  intros lim fs self sz bs s HF Hn Hwf Hsz Hne Hw. rewrite SubstreamsGen.gen_SubstreamsInfo_write_eq_model in Hw.
  exact (s_substreams_wr lim fs s sz bs HF Hn Hwf Hsz Hne Hw).
Qed.
Print Assumptions C07_gen_substreams_strict.
"""

READ_DEPS_3 = ["Folder._find_out_bin_pair", "Folder.get_unpack_size", "SubstreamsInfo.__init__", "SubstreamsInfo._inherit_folder_digests",
               "SubstreamsInfo._read", "SubstreamsInfo.retrieve", "SubstreamsInfo.default"]
WRITE_DEPS_3 = ["SubstreamsInfo.__init__", "SubstreamsInfo.write"]


def stage3():
    done = []
    add_require("coq/props/C06.v", "From P7 Require HeaderGenPrims FolderGen.\n", "From P7 Require SubstreamsGen.\n")
    add_require("coq/props/C07.v", "From P7 Require HeaderGenPrims FolderGen.\n", "From P7 Require SubstreamsGen.\n")
    if patch("coq/props/C06.v", "C06_gen_SubstreamsInfo_retrieve_is_parse_substreams", [], C06_STAGE3):
        done.append("props/C06.v")
    if patch("coq/props/C07.v", "C07_gen_SubstreamsInfo_write_is_write_substreams", [], C07_STAGE3):
        done.append("props/C07.v")
    if add_gen_deps("tools/harness/c06.py", READ_DEPS_3):
        done.append("tools/harness/c06.py")
    if add_gen_deps("tools/harness/c07.py", WRITE_DEPS_3):
        done.append("tools/harness/c07.py")
    return done


# ------------------------------------------------------------------ stage 4
C06_STAGE4 = """
(* ---- third wave (stage 4): StreamsInfo.read / retrieve as translated on this run is parse_streams.  StreamsGen.streams_of maps
   the object (three attributes, each an object or None) to the model's record.  Equal up to the CLASS of the exception
   (res_same), for the reason given at C06_gen_UnpackInfo_retrieve_is_parse_unpackinfo; when the model accepts, the generated
   reader returns exactly the model's value and rest.  The call of SubstreamsInfo.retrieve gets numfolders and folders from
   the UnpackInfo object just read: StreamsGen.gen_UnpackInfo_retrieve_ok shows numfolders = len(folders) there. ---- *)
Theorem C06_gen_StreamsInfo_retrieve_is_parse_streams : forall lim bs, wf_bytes bs = true ->
  parse_streams lim bs = Err EFuel \\/
  HeaderGenPrims.res_same (do (o, r) <- ArchiveinfoRecords.StreamsInfo_retrieve bs; Ok (StreamsGen.streams_of o, r))
                          (parse_streams lim bs).
Proof. exact StreamsGen.gen_StreamsInfo_retrieve_model_or. Qed.
Print Assumptions C06_gen_StreamsInfo_retrieve_is_parse_streams.

Theorem C06_gen_StreamsInfo_retrieve_accepts : forall lim bs s r, wf_bytes bs = true -> parse_streams lim bs = Ok (s, r) ->
  (do (o, r) <- ArchiveinfoRecords.StreamsInfo_retrieve bs; Ok (StreamsGen.streams_of o, r)) = Ok (s, r).
Proof. exact StreamsGen.gen_StreamsInfo_retrieve_eq_model. Qed.
Print Assumptions C06_gen_StreamsInfo_retrieve_accepts.
"""

C07_STAGE4 = """
(* ---- third wave (stage 4): StreamsInfo.write as translated on this run is write_streams, for every object whose UnpackInfo
   (if any) has numfolders = len(folders) (UnpackInfo.write asserts it); enable_digests is the PackInfo's attribute. ---- *)
Theorem C07_gen_StreamsInfo_write_is_write_streams : forall self : ArchiveinfoRecords.StreamsInfo,
  (forall u, ArchiveinfoRecords.StreamsInfo_unpackinfo self = Some u ->
             ArchiveinfoRecords.UnpackInfo_numfolders u = zlen (ArchiveinfoRecords.UnpackInfo_folders u)) ->
  (do (o, out) <- ArchiveinfoRecords.StreamsInfo_write self; Ok out)
  = write_streams (StreamsGen.streams_digests self) (StreamsGen.streams_of self).
Proof. exact StreamsGen.gen_StreamsInfo_write_eq_model. Qed.
Print Assumptions C07_gen_StreamsInfo_write_is_write_streams.
"""

READ_DEPS_4 = ["StreamsInfo.__init__", "StreamsInfo.read", "StreamsInfo.retrieve"]
WRITE_DEPS_4 = ["StreamsInfo.__init__", "StreamsInfo.write"]


def stage4():
    done = []
    add_require("coq/props/C06.v", "From P7 Require SubstreamsGen.\n", "From P7 Require StreamsGen.\n")
    add_require("coq/props/C07.v", "From P7 Require SubstreamsGen.\n", "From P7 Require StreamsGen.\n")
    if patch("coq/props/C06.v", "C06_gen_StreamsInfo_retrieve_is_parse_streams", [], C06_STAGE4):
        done.append("props/C06.v")
    if patch("coq/props/C07.v", "C07_gen_StreamsInfo_write_is_write_streams", [], C07_STAGE4):
        done.append("props/C07.v")
    if add_gen_deps("tools/harness/c06.py", READ_DEPS_4):
        done.append("tools/harness/c06.py")
    if add_gen_deps("tools/harness/c07.py", WRITE_DEPS_4):
        done.append("tools/harness/c07.py")
    return done


# ------------------------------------------------------------------ stage 5
C06_STAGE5 = """
(* ---- third wave (stage 5, pieces): read_utf16 and the FilesInfo readers _read_name / _read_attributes / _read_times (one
   generated function per key the class passes: creationtime, lastaccesstime, lastwritetime) as translated on this run are
   rd_utf16 / rd_names / rd_per_file and the times branch of parse_file_prop.  An entry of FilesInfo.files is a dict whose
   keys other than "emptystream" may be absent: record FileEntry with option fields; FilesGen.file_of maps it to the model's
   fileent (which has no EmptyFile field: the generated functions keep it unchanged). ---- *)
Theorem C06_gen_read_utf16_is_rd_utf16 : forall bs,
  (do (cs, r) <- ArchiveinfoRecords.read_utf16 bs; Ok (map fix_backslash cs, r)) = rd_utf16 bs.
Proof. intros bs. rewrite FilesGen.gen_read_utf16. symmetry. apply FilesGen.rd_utf16_plain_fix. Qed.
Print Assumptions C06_gen_read_utf16_is_rd_utf16.

Theorem C06_gen_FilesInfo_read_name_is_rd_names : forall (self : ArchiveinfoRecords.FilesInfo) bs,
  (do (o, r) <- ArchiveinfoRecords.FilesInfo_read_name self bs;
   Ok (map FilesGen.file_of (ArchiveinfoRecords.FilesInfo_files o), ArchiveinfoRecords.FilesInfo_emptyfiles o, r))
  = (do (fs, r) <- rd_names (map FilesGen.file_of (ArchiveinfoRecords.FilesInfo_files self)) bs;
     Ok (fs, ArchiveinfoRecords.FilesInfo_emptyfiles self, r)).
Proof. exact FilesGen.gen_FilesInfo_read_name_model. Qed.
Print Assumptions C06_gen_FilesInfo_read_name_is_rd_names.

Theorem C06_gen_FilesInfo_read_attributes_is_rd_per_file : forall (self : ArchiveinfoRecords.FilesInfo) bs defined,
  (do (o, r) <- ArchiveinfoRecords.FilesInfo_read_attributes self bs defined;
   Ok (map FilesGen.file_of (ArchiveinfoRecords.FilesInfo_files o), ArchiveinfoRecords.FilesInfo_emptyfiles o, r))
  = (do (fs, r) <- rd_per_file 4 (map FilesGen.file_of (ArchiveinfoRecords.FilesInfo_files self)) defined set_attr bs;
     Ok (fs, ArchiveinfoRecords.FilesInfo_emptyfiles self, r)).
Proof. exact FilesGen.gen_FilesInfo_read_attributes_model. Qed.
Print Assumptions C06_gen_FilesInfo_read_attributes_is_rd_per_file.

(* FilesGen.times_branch lim which files emptyfiles bs is, verbatim, the branch `(prop =? 18) || (prop =? 19) || (prop =? 20)` of
   parse_file_prop with the rest of the buffer kept *)
Theorem C06_gen_FilesInfo_read_times_are_model : forall lim (self : ArchiveinfoRecords.FilesInfo) bs, wf_bytes bs = true ->
  rd_boolean lim (zlen (ArchiveinfoRecords.FilesInfo_files self)) true bs = Err EFuel \\/
  ((do (o, r) <- ArchiveinfoRecords.FilesInfo_read_times_creationtime self bs;
    Ok (map FilesGen.file_of (ArchiveinfoRecords.FilesInfo_files o), ArchiveinfoRecords.FilesInfo_emptyfiles o, r))
   = FilesGen.times_branch lim 18 (map FilesGen.file_of (ArchiveinfoRecords.FilesInfo_files self)) (ArchiveinfoRecords.FilesInfo_emptyfiles self) bs /\\
   (do (o, r) <- ArchiveinfoRecords.FilesInfo_read_times_lastaccesstime self bs;
    Ok (map FilesGen.file_of (ArchiveinfoRecords.FilesInfo_files o), ArchiveinfoRecords.FilesInfo_emptyfiles o, r))
   = FilesGen.times_branch lim 19 (map FilesGen.file_of (ArchiveinfoRecords.FilesInfo_files self)) (ArchiveinfoRecords.FilesInfo_emptyfiles self) bs /\\
   (do (o, r) <- ArchiveinfoRecords.FilesInfo_read_times_lastwritetime self bs;
    Ok (map FilesGen.file_of (ArchiveinfoRecords.FilesInfo_files o), ArchiveinfoRecords.FilesInfo_emptyfiles o, r))
   = FilesGen.times_branch lim 20 (map FilesGen.file_of (ArchiveinfoRecords.FilesInfo_files self)) (ArchiveinfoRecords.FilesInfo_emptyfiles self) bs).
Proof. exact FilesGen.gen_FilesInfo_read_times_model. Qed.
Print Assumptions C06_gen_FilesInfo_read_times_are_model.
"""

C07_STAGE5 = """
(* ---- third wave (stage 5, pieces): write_utf16 and the FilesInfo writers _write_names / _write_attributes / _write_times
   (per key) / _are_there as translated on this run are wr_utf16 / write_names / write_attributes / write_times / any_true,
   for every object, errors included. ---- *)
Theorem C07_gen_write_utf16_is_wr_utf16 : forall s, ArchiveinfoRecords.write_utf16 s = wr_utf16 s.
Proof. exact FilesGen.gen_write_utf16. Qed.
Print Assumptions C07_gen_write_utf16_is_wr_utf16.

Theorem C07_gen_FilesInfo_write_names_is_write_names : forall self : ArchiveinfoRecords.FilesInfo,
  ArchiveinfoRecords.FilesInfo_write_names self = write_names (map FilesGen.file_of (ArchiveinfoRecords.FilesInfo_files self)).
Proof. exact FilesGen.gen_FilesInfo_write_names. Qed.
Print Assumptions C07_gen_FilesInfo_write_names_is_write_names.

Theorem C07_gen_FilesInfo_write_attributes_is_write_attributes : forall self : ArchiveinfoRecords.FilesInfo,
  ArchiveinfoRecords.FilesInfo_write_attributes self = write_attributes (map FilesGen.file_of (ArchiveinfoRecords.FilesInfo_files self)).
Proof. exact FilesGen.gen_FilesInfo_write_attributes. Qed.
Print Assumptions C07_gen_FilesInfo_write_attributes_is_write_attributes.

Theorem C07_gen_FilesInfo_write_times_are_write_times : forall (self : ArchiveinfoRecords.FilesInfo) p,
  let fs := map FilesGen.file_of (ArchiveinfoRecords.FilesInfo_files self) in
  ArchiveinfoRecords.FilesInfo_write_times_creationtime self [p] = write_times p e_ctime fs /\\
  ArchiveinfoRecords.FilesInfo_write_times_lastaccesstime self [p] = write_times p e_atime fs /\\
  ArchiveinfoRecords.FilesInfo_write_times_lastwritetime self [p] = write_times p e_mtime fs.
Proof.
  intros self p fs. repeat split; [apply FilesGen.gen_FilesInfo_write_times_creationtime
                                  | apply FilesGen.gen_FilesInfo_write_times_lastaccesstime
                                  | apply FilesGen.gen_FilesInfo_write_times_lastwritetime].
Qed.
Print Assumptions C07_gen_FilesInfo_write_times_are_write_times.

Theorem C07_gen_FilesInfo_are_there_is_any_true : forall v, ArchiveinfoRecords.FilesInfo_are_there v = Ok (any_true v).
Proof. exact FilesGen.gen_FilesInfo_are_there. Qed.
Print Assumptions C07_gen_FilesInfo_are_there_is_any_true.
"""

C06_STAGE5B = """
(* ---- third wave (stage 5, whole reader): FilesInfo._read / retrieve as translated on this run is parse_files.  The `while
   True` loop runs on explicit fuel (any fuel above the length of the input suffices: every round that does not end the loop
   consumes the property id and a NUMBER).  FilesGen.entry_flags reads the EmptyFile flag _read stores with every empty-stream
   entry: together they are the model's second component.  Equal up to the class of the exception (res_same): START_POS
   (id 24; _read_start_pos always fails an assert) and the "external" forms of names / attributes (fp.tell / fp.seek,
   "no-cover") are not translated: the generated function answers EUnsupported there. ---- *)
Theorem C06_gen_FilesInfo_retrieve_is_parse_files : forall lim bs fuel, wf_bytes bs = true -> (length bs < fuel)%nat ->
  parse_files lim bs = Err EFuel \\/
  HeaderGenPrims.res_same
    (do (o, r) <- ArchiveinfoRecords.FilesInfo_retrieve bs fuel;
     Ok ((map FilesGen.file_of (ArchiveinfoRecords.FilesInfo_files o), FilesGen.entry_flags (ArchiveinfoRecords.FilesInfo_files o)), r))
    (parse_files lim bs).
Proof. exact FilesGen.gen_FilesInfo_retrieve_model_or. Qed.
Print Assumptions C06_gen_FilesInfo_retrieve_is_parse_files.
"""

C07_STAGE5C = """
(* ---- third wave (stage 5, whole writer): FilesInfo.write as translated on this run is write_files, for every object and every
   start position pos0 (= file.tell() when the method is entered, the explicit parameter that stands for the position of the
   file; the kDummy padding is computed from it).  The model's vector of EmptyFile bits is FilesGen.entry_flags: the flag the
   code keeps with each empty-stream entry (absent = False). ---- *)
Theorem C07_gen_FilesInfo_write_is_write_files : forall (self : ArchiveinfoRecords.FilesInfo) pos,
  ArchiveinfoRecords.FilesInfo_write self pos
  = write_files pos (map FilesGen.file_of (ArchiveinfoRecords.FilesInfo_files self)) (FilesGen.entry_flags (ArchiveinfoRecords.FilesInfo_files self)).
Proof. exact FilesGen.gen_FilesInfo_write. Qed.
Print Assumptions C07_gen_FilesInfo_write_is_write_files.
"""

READ_DEPS_5 = ["read_utf16", "FileEntry", "FilesInfo.__init__", "FilesInfo._read_name", "FilesInfo._read_attributes",
               "FilesInfo._read_times[creationtime]", "FilesInfo._read_times[lastaccesstime]", "FilesInfo._read_times[lastwritetime]"]
WRITE_DEPS_5 = ["write_utf16", "FileEntry", "FilesInfo.__init__", "FilesInfo._are_there", "FilesInfo._write_names",
                "FilesInfo._write_attributes", "FilesInfo._write_times[creationtime]", "FilesInfo._write_times[lastaccesstime]",
                "FilesInfo._write_times[lastwritetime]"]


def stage5():
    done = []
    add_require("coq/props/C06.v", "From P7 Require StreamsGen.\n", "From P7 Require FilesGen.\n")
    add_require("coq/props/C07.v", "From P7 Require StreamsGen.\n", "From P7 Require FilesGen.\n")
    if patch("coq/props/C06.v", "C06_gen_read_utf16_is_rd_utf16", [], C06_STAGE5):
        done.append("props/C06.v")
    if patch("coq/props/C07.v", "C07_gen_write_utf16_is_wr_utf16", [], C07_STAGE5):
        done.append("props/C07.v")
    if patch("coq/props/C06.v", "C06_gen_FilesInfo_retrieve_is_parse_files", [], C06_STAGE5B):
        done.append("props/C06.v (whole reader)")
    if add_gen_deps("tools/harness/c06.py", READ_DEPS_5 + ["FilesInfo._read", "FilesInfo.retrieve"]):
        done.append("tools/harness/c06.py")
    if patch("coq/props/C07.v", "C07_gen_FilesInfo_write_is_write_files", [], C07_STAGE5C):
        done.append("props/C07.v (whole writer)")
    if add_gen_deps("tools/harness/c07.py", WRITE_DEPS_5 + ["FilesInfo.write"]):
        done.append("tools/harness/c07.py")
    return done


# ------------------------------------------------------------------ stage 4, part 2: SignatureHeader
C06_STAGE4B = """
(* ---- third wave (stage 4, part 2): SignatureHeader._read / retrieve as translated on this run (gen/ArchiveinfoSig.v, over the
   generated helpers.calculate_crc32 with zlib.crc32 := Crc32.crc32_update), on the whole file image of at least 32 bytes
   (the method seeks to offset 6 itself; read_fully(file, 26) = the next 26 bytes, compared with helpers.read_fully by
   harness/prims.py): the fields are Trace.v's sig_ofs / sig_size / sig_hcrc, Bad7zFile exactly when the start header CRC
   does not match (the second conjunct of Trace.sig_ok; the first, the magic, is _check_7zfile's). ---- *)
Theorem C06_gen_SignatureHeader_retrieve_is_sig_fields : forall (img : bytes) fuel, (8 <= fuel)%nat -> (32 <= length img)%nat ->
  ArchiveinfoSig.SignatureHeader_retrieve SigGen.zcrc img fuel
  = if Crc32.crc32 (Trace.slice img 12 20) =? le_value (Trace.slice img 8 4)
    then Ok (ArchiveinfoSig.mkSignatureHeader ([nth 6 img 0], [nth 7 img 0]) (le_value (Trace.slice img 8 4))
               (Trace.sig_ofs img) (Trace.sig_size img) (Trace.sig_hcrc img), [])
    else Err EBad7z.
Proof. exact SigGen.gen_sig_retrieve. Qed.
Print Assumptions C06_gen_SignatureHeader_retrieve_is_sig_fields.
"""

C07_STAGE4B = """
(* ---- third wave (stage 4, part 2): SignatureHeader.calccrc / write / _write_skeleton as translated on this run.  write and
   _write_skeleton start with file.seek(0, 0): the bytes below are what the file holds from offset 0.  A new archive
   (SignatureHeader(): version 0.4) with nextheaderofs set, then calccrc(size, crc), then write gives Enc.sig_header (the layout
   theorem of C20) = magic, version, Trace.sig_fields (Trace.start_crc ..) (the final writes of C09's sessions); the skeleton is
   Trace.skeleton32.  Side conditions exactly: the asserts of write (all four), 20 <= fuel for the CRC loop. ---- *)
Theorem C07_gen_SignatureHeader_calccrc_write_is_sig_header : forall ofs size hcrc fuel,
  (20 <= fuel)%nat -> 0 <= ofs -> 0 < size -> 0 <= hcrc ->
  (do o <- ArchiveinfoSig.SignatureHeader_calccrc SigGen.zcrc (SigGen.sig_new ofs) fuel size hcrc; ArchiveinfoSig.SignatureHeader_write o)
  = Enc.sig_header ofs size hcrc.
Proof. exact SigGen.gen_sig_calccrc_write. Qed.
Print Assumptions C07_gen_SignatureHeader_calccrc_write_is_sig_header.

Theorem C07_gen_SignatureHeader_calccrc_write_is_trace : forall ofs size hcrc fuel, (20 <= fuel)%nat ->
  0 <= ofs < 2 ^ 64 -> 0 < size < 2 ^ 64 -> 0 <= hcrc < 2 ^ 32 ->
  (do o <- ArchiveinfoSig.SignatureHeader_calccrc SigGen.zcrc (SigGen.sig_new ofs) fuel size hcrc; ArchiveinfoSig.SignatureHeader_write o)
  = Ok (MAGIC ++ [0; 4] ++ Trace.sig_fields (Trace.start_crc ofs size hcrc) ofs size hcrc).
Proof. exact SigGen.gen_sig_calccrc_write_trace. Qed.
Print Assumptions C07_gen_SignatureHeader_calccrc_write_is_trace.

Theorem C07_gen_SignatureHeader_write_skeleton_is_skeleton32 :
  ArchiveinfoSig.SignatureHeader_write_skeleton ArchiveinfoSig.SignatureHeader_init = Ok Trace.skeleton32.
Proof. exact (SigGen.gen_sig_write_skeleton ArchiveinfoSig.SignatureHeader_init eq_refl eq_refl). Qed.
Print Assumptions C07_gen_SignatureHeader_write_skeleton_is_skeleton32.
"""

READ_DEPS_4B = ["calculate_crc32", "SignatureHeader.__init__", "SignatureHeader._read", "SignatureHeader.retrieve"]
WRITE_DEPS_4B = ["calculate_crc32", "SignatureHeader.__init__", "SignatureHeader.calccrc", "SignatureHeader.write", "SignatureHeader._write_skeleton"]


def stage4b():
    done = []
    add_require("coq/props/C06.v", "From P7 Require FilesGen.\n", "From P7 Require Crc32 Trace SigGen.\nFrom P7gen Require ArchiveinfoSig.\n")
    add_require("coq/props/C07.v", "From P7 Require FilesGen.\n", "From P7 Require Crc32 Trace Enc SigGen.\nFrom P7gen Require ArchiveinfoSig.\n")
    if patch("coq/props/C06.v", "C06_gen_SignatureHeader_retrieve_is_sig_fields", [], C06_STAGE4B):
        done.append("props/C06.v")
    if patch("coq/props/C07.v", "C07_gen_SignatureHeader_calccrc_write_is_sig_header", [], C07_STAGE4B):
        done.append("props/C07.v")
    if add_gen_deps("tools/harness/c06.py", READ_DEPS_4B):
        done.append("tools/harness/c06.py")
    if add_gen_deps("tools/harness/c07.py", WRITE_DEPS_4B):
        done.append("tools/harness/c07.py")
    return done


# ------------------------------------------------------------------ stage 4, part 3: the descriptor of an encoded header
C07_STAGE4C = """
(* ---- third wave (stage 4, part 3): UnpackInfo.write(file, with_crcs=True) and HeaderStreamsInfo.write as translated on this run
   are Enc.write_unpackinfo_crcs and, for the object Header._encode_header builds (one packed stream, no packed CRC, one folder
   carrying the CRC-32 of the plain header), Enc.hdr_descriptor: the part of C20's layout theorem between the packed header and
   the signature header. ---- *)
Theorem C07_gen_UnpackInfo_write_crcs_is_model : forall self : ArchiveinfoRecords.UnpackInfo,
  ArchiveinfoRecords.UnpackInfo_write self true =
  if ArchiveinfoRecords.UnpackInfo_numfolders self =? zlen (ArchiveinfoRecords.UnpackInfo_folders self)
  then Enc.write_unpackinfo_crcs (map FolderGen.folder_of (ArchiveinfoRecords.UnpackInfo_folders self)) else Err EOther.
Proof. exact EncHdrGen.gen_UnpackInfo_write_crcs_eq_model. Qed.
Print Assumptions C07_gen_UnpackInfo_write_crcs_is_model.

Theorem C07_gen_HeaderStreamsInfo_write_is_hdr_descriptor :
  forall (p : ArchiveinfoRecords.PackInfo) (g : ArchiveinfoRecords.Folder) (so : option ArchiveinfoRecords.SubstreamsInfo)
         packpos hpacksize hrawlen hpcrc hrawcrc (hcoders : list coder),
  ArchiveinfoRecords.PackInfo_enable_digests p = false ->
  PackInfoGen.pack_of p = mkPack packpos 1 [hpacksize] [] [hpcrc] ->
  FolderGen.folder_of g = Header.mkFolder hcoders (Enc.mk_bonds (zlen hcoders)) [] [hrawlen] true (Some hrawcrc) ->
  (do (o, out) <- ArchiveinfoRecords.HeaderStreamsInfo_write
                    (ArchiveinfoRecords.mkHeaderStreamsInfo (Some p) (Some (ArchiveinfoRecords.mkUnpackInfo 1 [g] None)) so); Ok out)
  = Enc.hdr_descriptor packpos hcoders hpacksize hrawlen hpcrc hrawcrc.
Proof. exact EncHdrGen.gen_HeaderStreamsInfo_write_descriptor. Qed.
Print Assumptions C07_gen_HeaderStreamsInfo_write_is_hdr_descriptor.
"""

WRITE_DEPS_4C = ["HeaderStreamsInfo", "HeaderStreamsInfo.write"]


def stage4c():
    done = []
    add_require("coq/props/C07.v", "From P7gen Require ArchiveinfoSig.\n", "From P7 Require EncHdrGen.\n")
    if patch("coq/props/C07.v", "C07_gen_UnpackInfo_write_crcs_is_model", [], C07_STAGE4C):
        done.append("props/C07.v")
    if add_gen_deps("tools/harness/c07.py", WRITE_DEPS_4C):
        done.append("tools/harness/c07.py")
    return done


# ------------------------------------------------------------------ stage 7: SevenZipDecompressor
GEN_DECOMP_COMMON = """
(* ---- third wave (stage 7): SevenZipDecompressor._decompress / _read_data / decompress as translated on this run from
   py7zr/compressor.py (gen/DecompChain.v) ARE Decomp.v's run_chain / read_data / decompress: for every object state, every
   file content, every max_length and every read-schedule element rd (the most this call's fp.read returns), with the same
   abstract stage decoders `dstep` on both sides.  DecompGen.st_of o fp is the model state of the object o with the unread
   file fp; DecompGen.of_st st digest delivered the object of a model state (self.digest / self._delivered are not in
   Decomp.v's state).  The digest goes through the generated helpers.calculate_crc32 (fuel for its block loop). ---- *)
"""

C01_STAGE7 = GEN_DECOMP_COMMON + """
Theorem C01_gen_decompress_is_model :
  forall (stage : Type) (dstep : stage -> bytes -> Z -> stage * bytes) (zcrc32 : bytes -> Z -> Z)
         (self : DecompChain.SevenZipDecompressor stage) (fp : bytes) (fuel : nat) (ml : Z) (rd : nat),
  DecompChain.SevenZipDecompressor_decompress stage dstep zcrc32 self fp fuel ml rd
  = (do r <- decompress dstep (DecompGen.st_of stage self fp) ml rd;
     let '(st', out) := r in
     do dg <- HelpersCrc.calculate_crc32 zcrc32 fuel out (DecompChain.SevenZipDecompressor_digest self) 1048576;
     Ok ((DecompGen.of_st stage st' dg (DecompChain.SevenZipDecompressor__delivered self + PyPrims.py_len out), out), fp_rest st')).
Proof. exact DecompGen.gen_decompress. Qed.
Print Assumptions C01_gen_decompress_is_model.

Theorem C01_gen_decompress_chain_is_run_chain :
  forall (stage : Type) (dstep : stage -> bytes -> Z -> stage * bytes) (self : DecompChain.SevenZipDecompressor stage) (fp data : bytes) (ml : Z),
  DecompChain.SevenZipDecompressor_decompress_chain stage dstep self data ml
  = (do r <- run_chain dstep (DecompGen.st_of stage self fp) data ml;
     let '(st', out) := r in
     Ok (DecompGen.of_st stage st' (DecompChain.SevenZipDecompressor_digest self) (DecompChain.SevenZipDecompressor__delivered self), out)).
Proof. intros stage dstep. exact (DecompGen.gen_decompress_chain stage dstep (fun _ v => v)). Qed.
Print Assumptions C01_gen_decompress_chain_is_run_chain.

Theorem C01_gen_read_data_is_model :
  forall (stage : Type) (self : DecompChain.SevenZipDecompressor stage) (fp : bytes) (rd : nat),
  DecompChain.SevenZipDecompressor_read_data stage self fp rd
  = (let '(st1, data) := read_data (DecompGen.st_of stage self fp) rd in
     Ok ((DecompGen.of_st stage st1 (DecompChain.SevenZipDecompressor_digest self) (DecompChain.SevenZipDecompressor__delivered self), data),
         fp_rest st1)).
Proof. exact DecompGen.gen_read_data. Qed.
Print Assumptions C01_gen_read_data_is_model.

(* with a zlib.crc32 obeying the two laws of Crc32.crc32_update: the model's answer is the code's answer (fuel >= len(result)),
   and the digest is the running CRC-32 of what was returned *)
Theorem C01_gen_decompress_accepts :
  forall (stage : Type) (dstep : stage -> bytes -> Z -> stage * bytes) (zcrc32 : bytes -> Z -> Z),
  (forall d v, 0 <= v < 2 ^ 32 -> 0 <= zcrc32 d v < 2 ^ 32) ->
  (forall a b v, 0 <= v < 2 ^ 32 -> zcrc32 (a ++ b) v = zcrc32 b (zcrc32 a v)) ->
  forall (self : DecompChain.SevenZipDecompressor stage) (fp : bytes) (fuel : nat) (ml : Z) (rd : nat) st' out,
  0 <= DecompChain.SevenZipDecompressor_digest self < 2 ^ 32 ->
  decompress dstep (DecompGen.st_of stage self fp) ml rd = Ok (st', out) -> (length out <= fuel)%nat ->
  DecompChain.SevenZipDecompressor_decompress stage dstep zcrc32 self fp fuel ml rd
  = Ok ((DecompGen.of_st stage st' (zcrc32 out (DecompChain.SevenZipDecompressor_digest self))
           (DecompChain.SevenZipDecompressor__delivered self + PyPrims.py_len out), out), fp_rest st').
Proof. exact DecompGen.gen_decompress_is_model. Qed.
Print Assumptions C01_gen_decompress_accepts.

(* C01_decompress_len over the code as translated *)
Theorem C01_gen_decompress_len :
  forall (stage : Type) (dstep : stage -> bytes -> Z -> stage * bytes) (zcrc32 : bytes -> Z -> Z)
         (self o' : DecompChain.SevenZipDecompressor stage) fp fp' fuel ml rd out,
  0 <= DecompChain.SevenZipDecompressor__pos self <= zlen (DecompChain.SevenZipDecompressor__buf self) ->
  DecompChain.SevenZipDecompressor__unused self = [] -> 0 <= ml ->
  DecompChain.SevenZipDecompressor_decompress stage dstep zcrc32 self fp fuel ml rd = Ok ((o', out), fp') ->
  zlen out <= ml.
Proof. exact DecompGen.gen_decompress_len. Qed.
Print Assumptions C01_gen_decompress_len.
"""

C20_STAGE7 = GEN_DECOMP_COMMON + """
(* every theorem of this file about `decompress dstep st ml rd = Ok (st', out)` applies to a call of the generated method that
   returns: the model call it stands for *)
Theorem C20_gen_decompress_is_model_call :
  forall (stage : Type) (dstep : stage -> bytes -> Z -> stage * bytes) (zcrc32 : bytes -> Z -> Z)
         (self o' : DecompChain.SevenZipDecompressor stage) fp fp' fuel ml rd out,
  DecompChain.SevenZipDecompressor_decompress stage dstep zcrc32 self fp fuel ml rd = Ok ((o', out), fp') ->
  decompress dstep (DecompGen.st_of stage self fp) ml rd = Ok (DecompGen.st_of stage o' fp', out).
Proof. exact DecompGen.gen_decompress_ok_inv. Qed.
Print Assumptions C20_gen_decompress_is_model_call.
"""

C05_STAGE7 = GEN_DECOMP_COMMON + """
Theorem C05_gen_decompress_is_model_call :
  forall (stage : Type) (dstep : stage -> bytes -> Z -> stage * bytes) (zcrc32 : bytes -> Z -> Z)
         (self o' : DecompChain.SevenZipDecompressor stage) fp fp' fuel ml rd out,
  DecompChain.SevenZipDecompressor_decompress stage dstep zcrc32 self fp fuel ml rd = Ok ((o', out), fp') ->
  Decomp.decompress dstep (DecompGen.st_of stage self fp) ml rd = Ok (DecompGen.st_of stage o' fp', out).
Proof. exact DecompGen.gen_decompress_ok_inv. Qed.
Print Assumptions C05_gen_decompress_is_model_call.
"""

DEC_DEPS = ["SevenZipDecompressor", "SevenZipDecompressor._decompress", "SevenZipDecompressor._read_data", "SevenZipDecompressor.decompress",
            "calculate_crc32"]


def stage7():
    done = []
    add_require("coq/props/C01.v", "From P7gen Require AesBuf HelpersCrc.\n", "From P7 Require PyPrims DecompGen.\nFrom P7gen Require DecompChain.\n")
    add_require("coq/props/C20.v", "From P7 Require Import Prelude Decomp Mem.\n", "From P7 Require DecompGen.\nFrom P7gen Require DecompChain.\n")
    add_require("coq/props/C05.v", "Require P7.Decomp.\n", "From P7 Require DecompGen.\nFrom P7gen Require DecompChain.\n")
    if patch("coq/props/C01.v", "C01_gen_decompress_is_model", [], C01_STAGE7):
        done.append("props/C01.v")
    if patch("coq/props/C20.v", "C20_gen_decompress_is_model_call", [], C20_STAGE7):
        done.append("props/C20.v")
    if patch("coq/props/C05.v", "C05_gen_decompress_is_model_call", [], C05_STAGE7):
        done.append("props/C05.v")
    # validation: a part of c01.py's correspondence loop; a small sample at the start of c20.py / c05.py
    if patch("tools/harness/c01.py", "decgen.check_decompress",
             [("        for part, n in ((check_translation, 400 if q else 5000), ",
               "        from harness import decgen\n        for part, n in ((check_translation, 400 if q else 5000), (decgen.check_decompress, 3000 if q else 60000), ")]):
        done.append("tools/harness/c01.py")
    for rel in ("tools/harness/c20.py", "tools/harness/c05.py"):
        if patch(rel, "decgen.check_decompress",
                 [("def run(ctx):\n    rep, tier = ctx[\"rep\"], ctx[\"tier\"]\n    rng = random.Random(ctx[\"seed\"])\n",
                   "def run(ctx):\n    rep, tier = ctx[\"rep\"], ctx[\"tier\"]\n    rng = random.Random(ctx[\"seed\"])\n"
                   "    from harness import decgen\n    decgen.check_decompress(ctx, rep, random.Random(ctx[\"seed\"] + 7), 500 if tier == \"quick\" else 5000)\n")]):
            done.append(rel)
    for rel in ("tools/harness/c01.py", "tools/harness/c20.py", "tools/harness/c05.py"):
        if add_gen_deps(rel, DEC_DEPS):
            done.append(rel + " (GEN_DEPS)")
    return done


# ------------------------------------------------------------------ stage 8
C03_STAGE8 = """
(* ---- third wave (stage 8): the lexical checks as translated from py7zr/helpers.py on this run (gen/HelpersPath.v:
   canonical_path; gen/HelpersPath2.v: is_relative_to, get_sanitized_output_path, is_path_valid) ARE the functions of FS.v the
   theorems above are about.  The generated code works on pathlib paths as CPython 3.12 stores them (Path.ppath: the raw
   segments; joinpath appends a segment; parts / is_absolute / is_relative_to / relative_to parse posixpath.join of the
   segments); PathFsGen.fs_of parses such a path into FS.v's (root kind, parts) and every pathlib operation the helpers use
   commutes with it.  cwd0 is pathlib.Path.cwd(): the only assumption is that it parses to an absolute path "/" + cwd
   (C03_gen_cwd: it does for os.getcwd() = "/" + "/".join(cwd)).  Err EBad7z = Bad7zFile. ---- *)
Theorem C03_gen_fs_of_path : forall s, PathFsGen.fs_of [s] = pparse s.
Proof. exact PathFsGen.fs_of_single. Qed.
Print Assumptions C03_gen_fs_of_path.

Theorem C03_gen_fs_of_joinpath : forall p s q,
  PathFsGen.fs_of (Path.pp_joinpath p s) = pjoin (PathFsGen.fs_of p) s /\\
  PathFsGen.fs_of (Path.pp_joinpath_p p q) = pjoinp (PathFsGen.fs_of p) (PathFsGen.fs_of q) /\\
  Path.pp_is_absolute p = p_is_abs (PathFsGen.fs_of p).
Proof. intros p s q. repeat split; [apply PathFsGen.fs_of_joinpath | apply PathFsGen.fs_of_joinpath_p | apply PathFsGen.fs_of_is_absolute]. Qed.
Print Assumptions C03_gen_fs_of_joinpath.

Theorem C03_gen_cwd : forall cwd, Forall (fun c => PathProofs.good_comp c = true) cwd ->
  PathFsGen.fs_of [47 :: Path.join_slash cwd] = mkP 1 cwd.
Proof. exact PathFsGen.fs_of_cwd. Qed.
Print Assumptions C03_gen_cwd.

Theorem C03_gen_canonical_path : forall p,
  HelpersPath.canonical_path p = Ok (Path.canonical_path p) /\\
  PathFsGen.fs_of (Path.canonical_path p) = canonical_path (PathFsGen.fs_of p).
Proof. exact PathFsGen.gen_canonical_path_fs. Qed.
Print Assumptions C03_gen_canonical_path.

Theorem C03_gen_is_relative_to : forall my other,
  HelpersPath2.is_relative_to my other = Ok (is_relative_to (PathFsGen.fs_of my) (PathFsGen.fs_of other)).
Proof. exact PathFsGen.gen_is_relative_to. Qed.
Print Assumptions C03_gen_is_relative_to.

Theorem C03_gen_is_path_valid : forall target parent cwd0 cwd, PathFsGen.fs_of cwd0 = mkP 1 cwd ->
  HelpersPath2.is_path_valid target parent cwd0 =
  Ok (is_path_valid (PathFsGen.fs_of target) cwd (option_map PathFsGen.fs_of parent)).
Proof. exact PathFsGen.gen_is_path_valid. Qed.
Print Assumptions C03_gen_is_path_valid.

(* the sanitiser: it returns a path exactly when the model does, the same one; every other outcome is Bad7zFile *)
Theorem C03_gen_get_sanitized_output_path : forall fname path cwd0 cwd, PathFsGen.fs_of cwd0 = mkP 1 cwd ->
  match HelpersPath2.get_sanitized_output_path fname path cwd0 with
  | Ok p => get_sanitized_output_path fname cwd (option_map PathFsGen.fs_of path) = Some (PathFsGen.fs_of p)
  | Err e => e = EBad7z /\\ get_sanitized_output_path fname cwd (option_map PathFsGen.fs_of path) = None
  end.
Proof. exact PathFsGen.gen_get_sanitized_output_path. Qed.
Print Assumptions C03_gen_get_sanitized_output_path.

(* the theorems about the sanitiser above, for the code as translated *)
Theorem C03_gen_sanitized_lexically_inside : forall nm cwd0 cwd b o, PathFsGen.fs_of cwd0 = mkP 1 cwd ->
  HelpersPath2.get_sanitized_output_path nm (Some b) cwd0 = Ok o ->
  proot (PathFsGen.fs_of o) = proot (canonical_path (PathFsGen.fs_of b)) /\\
  prefixb (pparts (canonical_path (PathFsGen.fs_of b))) (pparts (PathFsGen.fs_of o)) = true.
Proof. exact PathFsGen.gen_sanitized_lexically_inside. Qed.
Print Assumptions C03_gen_sanitized_lexically_inside.

Theorem C03_gen_sanitized_canonical_inside : forall nm cwd0 cwd b o, PathFsGen.fs_of cwd0 = mkP 1 cwd ->
  proot (PathFsGen.fs_of b) = 1 -> nodd (pparts (PathFsGen.fs_of b)) ->
  HelpersPath2.get_sanitized_output_path nm (Some b) cwd0 = Ok o ->
  proot (PathFsGen.fs_of o) = 1 /\\ nodd (pparts (PathFsGen.fs_of o)) /\\
  prefixb (pparts (PathFsGen.fs_of b)) (pparts (PathFsGen.fs_of o)) = true.
Proof. exact PathFsGen.gen_sanitized_canonical_inside. Qed.
Print Assumptions C03_gen_sanitized_canonical_inside.

Theorem C03_gen_sanitized_none_inside : forall nm cwd0 cwd o, PathFsGen.fs_of cwd0 = mkP 1 cwd -> nodd cwd ->
  HelpersPath2.get_sanitized_output_path nm None cwd0 = Ok o ->
  proot (PathFsGen.fs_of o) = 0 /\\ nodd (pparts (PathFsGen.fs_of o)).
Proof. exact PathFsGen.gen_sanitized_none_inside. Qed.
Print Assumptions C03_gen_sanitized_none_inside.
"""

PATH_DEPS = ["canonical_path", "remove_relative_path_marker", "is_relative_to", "get_sanitized_output_path", "is_path_valid"]


def stage8():
    done = []
    add_require("coq/props/C03.v", "From P7 Require Import Prelude FS ExtractFS FSProofs.\n",
                "From P7 Require Path PathProofs PyPath PathFsGen.\nFrom P7gen Require HelpersPath HelpersPath2.\n")
    if patch("coq/props/C03.v", "C03_gen_get_sanitized_output_path", [], C03_STAGE8):
        done.append("props/C03.v")
    if patch("tools/harness/c03.py", "pathgen.check_lexical_gen",
             [("    check_lexical(ctx, rep, rng, tier)\n",
               "    check_lexical(ctx, rep, rng, tier)\n    from harness import pathgen\n"
               "    pathgen.check_lexical_gen(ctx, rep, random.Random(ctx[\"seed\"] + 8), tier)\n")]):
        done.append("tools/harness/c03.py")
    if add_gen_deps("tools/harness/c03.py", PATH_DEPS):
        done.append("tools/harness/c03.py (GEN_DEPS)")
    return done


# ------------------------------------------------------------------ stage 9
C01_STAGE9 = """
(* ---- third wave (stage 9): SevenZipCompressor.compress / flush as translated from py7zr/compressor.py on this run
   (gen/CompChain.v; the elements of self.chain are the same abstract cstep / cflush, fd.read may return short reads
   according to the schedule, what fp.write receives is the last component of the result, zlib.crc32 is Crc32.crc32_update)
   ARE Comp.v's compress / flush on the object's state.  Every CRC goes through helpers.calculate_crc32 on the method's fuel:
   when that fuel does not cover a block the generated method answers Err EFuel, which the model does not do for that reason;
   hence "Err EFuel or the model's answer".  CompSession.gen_session is a write session made of the generated methods
   (compress for every member, then flush); the theorems about write sessions above hold for it. ---- *)
Theorem C01_gen_compress_is_model :
  forall (cst : Type) (cstep : cst -> bytes -> cst * bytes) (self : CompChain.SevenZipCompressor cst) (fd : bytes) (fuel : nat)
         (crc : Z) (sched : list nat),
    0 <= crc < 2 ^ 32 -> 0 <= CompChain.SevenZipCompressor_digest self < 2 ^ 32 ->
    CompChain.SevenZipCompressor_compress cst cstep CompGen.zcrc self fd fuel crc sched = Err EFuel \\/
    CompChain.SevenZipCompressor_compress cst cstep CompGen.zcrc self fd fuel crc sched =
      match compress cstep fuel (CompGen.st_of cst self []) fd sched crc with
      | Ok (st', fd', info) => Ok (((CompGen.of_st cst st', info), fd'), cout st')
      | Err e => Err e
      end.
Proof. exact CompGen.gen_compress_or. Qed.
Print Assumptions C01_gen_compress_is_model.

Theorem C01_gen_flush_is_model :
  forall (cst : Type) (cstep : cst -> bytes -> cst * bytes) (cflush : cst -> cst * bytes) (self : CompChain.SevenZipCompressor cst)
         (fuel : nat),
    0 <= CompChain.SevenZipCompressor_digest self < 2 ^ 32 ->
    CompChain.SevenZipCompressor_flush cst cstep cflush CompGen.zcrc self fuel = Err EFuel \\/
    CompChain.SevenZipCompressor_flush cst cstep cflush CompGen.zcrc self fuel =
      match flush cstep cflush (CompGen.st_of cst self []) with
      | Ok (st', n) => Ok ((CompGen.of_st cst st', n), cout st')
      | Err e => Err e
      end.
Proof. exact CompGen.gen_flush_or. Qed.
Print Assumptions C01_gen_flush_is_model.

(* a session of the generated methods that completes is the model's write session: same final object, same bytes written,
   same (insize, foutsize, crc) per member, same flush result *)
Theorem C01_gen_session_is_write_session :
  forall (cst : Type) (cstep : cst -> bytes -> cst * bytes) (cflush : cst -> cst * bytes) (fuel : nat)
         (ms : list (bytes * list nat)) (o o' : CompChain.SevenZipCompressor cst) (w : bytes) (infos : list (Z * Z * Z)) (n : Z),
    0 <= CompChain.SevenZipCompressor_digest o < 2 ^ 32 ->
    CompSession.gen_session cst cstep cflush CompGen.zcrc fuel o ms = Ok (o', w, infos, n) ->
    write_session cstep cflush fuel (CompGen.st_of cst o []) ms = Ok (CompGen.st_of cst o' w, infos, n).
Proof. exact CompGen.gen_session_ok_inv. Qed.
Print Assumptions C01_gen_session_is_write_session.

(* C01_compress_chain and C01_sizes_and_crcs for the code as translated *)
Theorem C01_gen_compress_chain :
  forall (cst : Type) (cstep : cst -> bytes -> cst * bytes) (cflush : cst -> cst * bytes)
         (E : cst -> bytes -> bytes -> Prop) (wf : cst -> Prop),
    (forall (s0 s : cst) (cin cout : bytes),
        wf s0 -> ereach cstep s0 s cin cout -> E s0 cin (cout ++ snd (cflush s))) ->
    forall (s0s : list cst) (bsz : Z) (fuel : nat) (ms : list (bytes * list nat))
           (o' : CompChain.SevenZipCompressor cst) (w : bytes) (infos : list (Z * Z * Z)) (n : Z),
      Forall wf s0s -> bsz <> 0 ->
      CompSession.gen_session cst cstep cflush CompGen.zcrc fuel (CompGen.obj_init cst s0s bsz) ms = Ok (o', w, infos, n) ->
      exists ins, Echain E s0s (concat (map fst ms)) ins w.
Proof. exact CompGen.gen_compress_chain. Qed.
Print Assumptions C01_gen_compress_chain.

Theorem C01_gen_sizes_and_crcs :
  forall (cst : Type) (cstep : cst -> bytes -> cst * bytes) (cflush : cst -> cst * bytes)
         (E : cst -> bytes -> bytes -> Prop) (wf : cst -> Prop),
    (forall (s0 s : cst) (cin cout : bytes),
        wf s0 -> ereach cstep s0 s cin cout -> E s0 cin (cout ++ snd (cflush s))) ->
    forall (s0s : list cst) (bsz : Z) (fuel : nat) (ms : list (bytes * list nat))
           (o' : CompChain.SevenZipCompressor cst) (w : bytes) (infos : list (Z * Z * Z)) (n : Z),
      Forall wf s0s -> bsz <> 0 ->
      CompSession.gen_session cst cstep cflush CompGen.zcrc fuel (CompGen.obj_init cst s0s bsz) ms = Ok (o', w, infos, n) ->
      map info_in infos = map (fun m : bytes * list nat => zlen (fst m)) ms /\\
      map info_crc infos = map (fun m : bytes * list nat => crc32 (fst m)) ms /\\
      CompChain.SevenZipCompressor_packsize o' = zlen w /\\
      CompChain.SevenZipCompressor_digest o' = crc32 w /\\
      zsum (map info_out infos) + n = CompChain.SevenZipCompressor_packsize o' /\\
      exists ins, Echain E s0s (concat (map fst ms)) ins w /\\ CompChain.SevenZipCompressor__unpacksizes o' = map zlen ins.
Proof. exact CompGen.gen_sizes_and_crcs. Qed.
Print Assumptions C01_gen_sizes_and_crcs.
"""

COMP_DEPS = ["SevenZipCompressor", "SevenZipCompressor.compress", "SevenZipCompressor.flush", "calculate_crc32"]


def stage9():
    done = []
    add_require("coq/props/C01.v", "From P7gen Require DecompChain.\n", "From P7 Require CompSession CompGen.\nFrom P7gen Require CompChain.\n")
    if patch("coq/props/C01.v", "C01_gen_compress_is_model", [], C01_STAGE9):
        done.append("props/C01.v")
    if patch("tools/harness/c01.py", "compgen.check_compress",
             [("        from harness import decgen\n", "        from harness import decgen, compgen\n"),
              ("(decgen.check_decompress, 3000 if q else 60000), ", "(decgen.check_decompress, 3000 if q else 60000), (compgen.check_compress, 2000 if q else 40000), ")]):
        done.append("tools/harness/c01.py")
    if add_gen_deps("tools/harness/c01.py", COMP_DEPS):
        done.append("tools/harness/c01.py (GEN_DEPS)")
    return done


# ------------------------------------------------------------------ stage 8b
C03_STAGE8B = """
(* ---- third wave (stage 8b): helpers.is_real_path_inside as translated on this run.  The generated function takes what
   os.path.realpath(target) answered (real0 : str) in place of target; os.path.normcase is the identity on posix.  For real paths
   given as lists of names (not empty, no "/"), rendered "/" + "/".join(names) ("/" for the root) the way os.path.realpath
   returns them, its verdict is the component-wise prefix test of FS.real_inside: the check the theorems above rely on. ---- *)
Theorem C03_gen_is_real_path_inside : forall r root : list str,
  Forall PathFsGen.name_ok r -> Forall PathFsGen.name_ok root ->
  HelpersPath2.is_real_path_inside (PathFsGen.render r) (PathFsGen.render root) = Ok (prefixb root r).
Proof. exact PathFsGen.gen_is_real_path_inside. Qed.
Print Assumptions C03_gen_is_real_path_inside.

Theorem C03_gen_is_real_path_inside_fs : forall f cwd p (r root : list str), py_realpath f cwd p = Some r ->
  Forall PathFsGen.name_ok r -> Forall PathFsGen.name_ok root ->
  HelpersPath2.is_real_path_inside (PathFsGen.render r) (PathFsGen.render root) = Ok (real_inside f cwd root p).
Proof. exact PathFsGen.gen_is_real_path_inside_fs. Qed.
Print Assumptions C03_gen_is_real_path_inside_fs.
"""


def stage8b():
    done = []
    if patch("coq/props/C03.v", "C03_gen_is_real_path_inside", [], C03_STAGE8B):
        done.append("props/C03.v")
    if add_gen_deps("tools/harness/c03.py", ["is_real_path_inside"]):
        done.append("tools/harness/c03.py (GEN_DEPS)")
    return done


if __name__ == "__main__":
    print("stage 1:", stage1())
    print("stage 2:", stage2())
    print("stage 3:", stage3())
    print("stage 4:", stage4())
    print("stage 5:", stage5())
    print("stage 4b:", stage4b())
    print("stage 4c:", stage4c())
    print("stage 7:", stage7())
    print("stage 8:", stage8())
    print("stage 9:", stage9())
    print("stage 8b:", stage8b())
