(* Extraction of the dispatcher that includes the generated functions. *)
Require Extraction.
Require Import ExtrOcamlBasic.
From P7 Require Import Prelude GenDispatch.
Extraction "gmodel.ml" gdispatch.
