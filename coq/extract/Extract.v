(* Extraction: ExtrOcamlBasic only; Z, N, positive, nat stay Coq inductives. *)
Require Extraction.
Require Import ExtrOcamlBasic.
From P7 Require Import Prelude Dispatch.
Extraction "model.ml" dispatch.
