(* PathProofs.v -- theorems about the model in Path.v (property C16). *)
From P7 Require Import Prelude Path.
From Coq Require Import ZifyBool.
Open Scope Z_scope.

(* ---------------------------------------------------------------- strings *)
Lemma str_eqb_eq a : forall b, str_eqb a b = true <-> a = b.
Proof.
  induction a as [|x a IHa]; intros [|y b]; simpl; split; intros Hab; try congruence; try reflexivity.
  - apply andb_true_iff in Hab. destruct Hab as [Hxy Hrest].
    apply Z.eqb_eq in Hxy. apply IHa in Hrest. congruence.
  - inversion Hab; subst. apply andb_true_iff. split; [apply Z.eqb_refl | apply IHa; reflexivity].
Qed.

Lemma str_eqb_refl a : str_eqb a a = true.
Proof. apply str_eqb_eq. reflexivity. Qed.

Lemma str_eqb_neq a b : str_eqb a b = false <-> a <> b.
Proof.
  split.
  - intros Hf Heq. apply str_eqb_eq in Heq. congruence.
  - intros Hne. destruct (str_eqb a b) eqn:Hab; [|reflexivity]. apply str_eqb_eq in Hab. contradiction.
Qed.

Definition slashfree (s : str) : bool := forallb (fun c => negb (c =? 47)) s.

(* what every component kept by pathlib's parser satisfies *)
Definition good_comp (c : str) : bool := slashfree c && keep_comp c.

Lemma split_cons_shape s : exists h t, split s = h :: t.
Proof.
  induction s as [|c r IHr]; simpl.
  - eauto.
  - destruct (c =? 47); [eauto|]. destruct IHr as (h & t & Hs). rewrite Hs. eauto.
Qed.

Lemma split_slashfree s : Forall (fun c => slashfree c = true) (split s).
Proof.
  induction s as [|c r IHr]; simpl.
  - constructor; [reflexivity | constructor].
  - destruct (c =? 47) eqn:Hc.
    + constructor; [reflexivity | exact IHr].
    + destruct (split r) as [|h t] eqn:Hs.
      * constructor; [simpl; rewrite Hc; reflexivity | constructor].
      * inversion IHr as [|? ? Hh Ht]; subst. constructor; [simpl; rewrite Hc; exact Hh | exact Ht].
Qed.

Lemma split_app_slash a b : slashfree a = true -> split (a ++ 47 :: b) = a :: split b.
Proof.
  induction a as [|c a IHa]; intros Hsf; simpl.
  - reflexivity.
  - simpl in Hsf. apply andb_true_iff in Hsf. destruct Hsf as [Hc Ha].
    apply negb_true_iff in Hc. rewrite Hc. rewrite (IHa Ha). reflexivity.
Qed.

Lemma split_single a : slashfree a = true -> split a = [a].
Proof.
  induction a as [|c a IHa]; intros Hsf; simpl.
  - reflexivity.
  - simpl in Hsf. apply andb_true_iff in Hsf. destruct Hsf as [Hc Ha].
    apply negb_true_iff in Hc. rewrite Hc. rewrite (IHa Ha). reflexivity.
Qed.

Lemma good_slashfree c : good_comp c = true -> slashfree c = true.
Proof. unfold good_comp. intros Hg. apply andb_true_iff in Hg. tauto. Qed.

Lemma good_keep c : good_comp c = true -> keep_comp c = true.
Proof. unfold good_comp. intros Hg. apply andb_true_iff in Hg. tauto. Qed.

Lemma good_head c : good_comp c = true -> exists x r, c = x :: r /\ (x =? 47) = false.
Proof.
  intros Hg. pose proof (good_slashfree c Hg) as Hsf. pose proof (good_keep c Hg) as Hk.
  destruct c as [|x r]; [discriminate Hk|].
  simpl in Hsf. apply andb_true_iff in Hsf. destruct Hsf as [Hx _]. apply negb_true_iff in Hx. eauto.
Qed.

Lemma good_not_slash c : good_comp c = true -> str_eqb c s_slash = false.
Proof.
  intros Hg. destruct (good_head c Hg) as (x & r & -> & Hx). unfold s_slash. simpl. rewrite Hx. reflexivity.
Qed.

Definition comps (name : str) : list str := filter keep_comp (split name).

Lemma comps_good name : Forall (fun c => good_comp c = true) (comps name).
Proof.
  unfold comps. pose proof (split_slashfree name) as Hsf.
  induction (split name) as [|c l IHl]; simpl; [constructor|].
  inversion Hsf as [|? ? Hc Hl]; subst.
  destruct (keep_comp c) eqn:Hk; [|exact (IHl Hl)].
  constructor; [unfold good_comp; rewrite Hc, Hk; reflexivity | exact (IHl Hl)].
Qed.

Lemma filter_keep_good l : Forall (fun c => good_comp c = true) l -> filter keep_comp l = l.
Proof.
  induction l as [|c l IHl]; intros Hall; simpl; [reflexivity|].
  inversion Hall as [|? ? Hc Hl]; subst. rewrite (good_keep c Hc), (IHl Hl). reflexivity.
Qed.

(* '/'.join and split are inverse on slash-free components *)
Lemma join_slash_cons c l : l <> [] -> join_slash (c :: l) = c ++ 47 :: join_slash l.
Proof. destruct l; [congruence | reflexivity]. Qed.

Lemma split_join l : l <> [] -> Forall (fun c => slashfree c = true) l -> split (join_slash l) = l.
Proof.
  induction l as [|c l IHl]; intros Hne Hall; [congruence|].
  inversion Hall as [|? ? Hc Hl]; subst.
  destruct l as [|d l'].
  - simpl. apply split_single. exact Hc.
  - rewrite join_slash_cons by congruence. rewrite split_app_slash by exact Hc.
    rewrite IHl; [reflexivity | congruence | exact Hl].
Qed.

Lemma join_slash_concat c l : join_slash (c :: l) = c ++ concat (map (cons 47) l).
Proof.
  revert c. induction l as [|d l IHl]; intros c.
  - simpl. rewrite app_nil_r. reflexivity.
  - rewrite join_slash_cons by congruence. rewrite IHl. reflexivity.
Qed.

Lemma join_head l : l <> [] -> Forall (fun c => good_comp c = true) l ->
  exists x r, join_slash l = x :: r /\ (x =? 47) = false.
Proof.
  intros Hne Hall. destruct l as [|c l]; [congruence|].
  inversion Hall as [|? ? Hc Hl]; subst. destruct (good_head c Hc) as (x & r & -> & Hx).
  rewrite join_slash_concat. simpl. eauto.
Qed.

(* ---------------------------------------------------------------- posixpath.join *)
Lemma endswith_slash_app a b : b <> [] -> endswith_slash (a ++ b) = endswith_slash b.
Proof.
  intros Hb. induction a as [|c a IHa]; [reflexivity|].
  simpl. destruct (a ++ b) eqn:Hab.
  - destruct a; destruct b; simpl in Hab; congruence.
  - exact IHa.
Qed.

Lemma endswith_slash_slashfree c : slashfree c = true -> endswith_slash c = false.
Proof.
  induction c as [|x c IHc]; intros Hsf; [reflexivity|].
  simpl in Hsf. apply andb_true_iff in Hsf. destruct Hsf as [Hx Hc]. apply negb_true_iff in Hx.
  simpl. destruct c; [exact Hx | exact (IHc Hc)].
Qed.

Lemma startswith_slash_good c : good_comp c = true -> startswith_slash c = false.
Proof. intros Hg. destruct (good_head c Hg) as (x & r & -> & Hx). exact Hx. Qed.

Lemma posix_join_good cs : Forall (fun c => good_comp c = true) cs ->
  forall path, path <> [] -> endswith_slash path = false ->
  fold_left posix_join1 cs path = path ++ concat (map (cons 47) cs).
Proof.
  induction cs as [|c cs IHcs]; intros Hall path Hne Hend; simpl.
  - rewrite app_nil_r. reflexivity.
  - inversion Hall as [|? ? Hc Hcs]; subst.
    unfold posix_join1 at 2. rewrite (startswith_slash_good c Hc), Hend.
    destruct path as [|p0 path']; [congruence|]. cbn [isnil orb].
    rewrite IHcs; [ | exact Hcs | destruct (p0 :: path'); discriminate | ].
    + rewrite <- app_assoc. reflexivity.
    + destruct (good_head c Hc) as (x & r & Hcx & Hx).
      change (47 :: c) with ([47] ++ c). rewrite app_assoc.
      rewrite endswith_slash_app by (subst c; discriminate).
      apply endswith_slash_slashfree. apply good_slashfree. exact Hc.
Qed.

(* the path string of Path('/', c1, ..., cn) *)
Lemma raw_path_root cs : Forall (fun c => good_comp c = true) cs ->
  raw_path (s_slash :: cs) = 47 :: join_slash cs.
Proof.
  intros Hall. destruct cs as [|c cs]; [reflexivity|].
  inversion Hall as [|? ? Hc Hcs]; subst.
  unfold raw_path, posix_join. cbn [fold_left].
  unfold posix_join1 at 2. rewrite (startswith_slash_good c Hc). cbn [s_slash isnil endswith_slash orb].
  replace (47 =? 47) with true by reflexivity.
  rewrite posix_join_good.
  - rewrite join_slash_concat. reflexivity.
  - exact Hcs.
  - discriminate.
  - change ([47] ++ c) with ([47] ++ c). rewrite endswith_slash_app.
    + apply endswith_slash_slashfree. apply good_slashfree. exact Hc.
    + destruct (good_head c Hc) as (x & r & -> & _). discriminate.
Qed.

Lemma parse_root_good cs : Forall (fun c => good_comp c = true) cs ->
  parse_str (47 :: join_slash cs) = ([47], cs).
Proof.
  intros Hall. unfold parse_str. cbn [isnil].
  destruct cs as [|c cs'] eqn:Hcs.
  - reflexivity.
  - destruct (join_head (c :: cs')) as (x & r & Hj & Hx); [congruence | exact Hall |].
    rewrite Hj. cbn [splitroot]. replace (47 =? 47) with true by reflexivity. rewrite Hx.
    rewrite <- Hj. rewrite split_join.
    + rewrite filter_keep_good by exact Hall. reflexivity.
    + congruence.
    + eapply Forall_impl; [|exact Hall]. intros a Ha. apply good_slashfree. exact Ha.
Qed.

Lemma pp_parse_root cs : Forall (fun c => good_comp c = true) cs ->
  pp_parse (s_slash :: cs) = ([47], cs).
Proof. intros Hall. unfold pp_parse. rewrite raw_path_root by exact Hall. apply parse_root_good. exact Hall. Qed.

(* ---------------------------------------------------------------- the independent definition *)
Lemma spec_walk_filter l : forall d, spec_walk l d = spec_walk (filter keep_comp l) d.
Proof.
  induction l as [|c l IHl]; intros d; [reflexivity|].
  cbn [spec_walk filter]. unfold keep_comp at 1.
  destruct (isnil c) eqn:Hn; cbn [negb andb orb]; [apply IHl|].
  destruct (str_eqb c s_dot) eqn:Hd; cbn [negb]; [apply IHl|].
  cbn [spec_walk]. rewrite Hn, Hd. cbn [orb].
  destruct (str_eqb c s_dotdot); [|apply IHl].
  destruct (d - 1 <? 0); [reflexivity | apply IHl].
Qed.

Lemma spec_ok_comps name : spec_ok name = negb (startswith_slash name) && spec_walk (comps name) 0.
Proof. unfold spec_ok, comps. rewrite <- spec_walk_filter. reflexivity. Qed.

Lemma good_not_skipped c : good_comp c = true -> isnil c || str_eqb c s_dot = false.
Proof.
  intros Hg. apply good_keep in Hg. unfold keep_comp in Hg. apply andb_true_iff in Hg.
  destruct Hg as [Hn Hd]. apply negb_true_iff in Hn. apply negb_true_iff in Hd. rewrite Hn, Hd. reflexivity.
Qed.

(* ---------------------------------------------------------------- C16 (1): check_archive_path vs spec_ok *)
Lemma splitroot_rel s : startswith_slash s = false -> splitroot s = ([], s).
Proof. destruct s as [|c r]; [reflexivity|]. simpl. intros ->. reflexivity. Qed.

Lemma parse_rel name : startswith_slash name = false -> parse_str name = ([], comps name).
Proof.
  intros Hrel. unfold parse_str. destruct name as [|c r]; [reflexivity|]. cbn [isnil].
  rewrite splitroot_rel by exact Hrel. reflexivity.
Qed.

Lemma lex_walk_spec cs : Forall (fun c => good_comp c = true) cs -> forall d, lex_walk cs d = spec_walk cs d.
Proof.
  induction cs as [|c cs IHcs]; intros Hall d; [reflexivity|].
  inversion Hall as [|? ? Hc Hcs]; subst. cbn [lex_walk spec_walk]. rewrite (good_not_skipped c Hc).
  destruct (str_eqb c s_dotdot); [|apply IHcs; exact Hcs].
  destruct (d - 1 <? 0); [reflexivity | apply IHcs; exact Hcs].
Qed.

(* the gate of writestr / writef is the independent definition, on every string *)
Theorem check_archive_path_spec name : check_archive_path name = spec_ok name.
Proof.
  unfold check_archive_path, pp_is_absolute, pp_anchor. cbn [existsb]. rewrite orb_false_r.
  rewrite spec_ok_comps. destruct (startswith_slash name) eqn:Hs; [reflexivity|]. cbn [negb andb orb].
  unfold pp_parts, pp_parse. cbn [raw_path]. rewrite (parse_rel name Hs). cbn [fst isnil negb].
  apply lex_walk_spec. apply comps_good.
Qed.

Theorem absolute_rejected name : is_absolute name = true -> check_archive_path name = false.
Proof.
  unfold is_absolute, pp_is_absolute. cbn [existsb]. rewrite orb_false_r. intros Ha.
  rewrite check_archive_path_spec, spec_ok_comps, Ha. reflexivity.
Qed.

(* ---------------------------------------------------------------- C16 (2): _sanitize_archive_arcname *)
Theorem sanitize_relative arc r : sanitize_archive_arcname arc = Ok r ->
  is_absolute r = false /\ drive_prefix r = false.
Proof.
  unfold sanitize_archive_arcname. intros Hs.
  set (p2 := if drive_prefix (strip_leading arc) then strip_leading (skipn 2 (strip_leading arc)) else strip_leading arc) in *.
  destruct (startswith_slash p2 || drive_prefix p2) eqn:Ht; [discriminate|].
  inversion Hs; subst r. apply orb_false_iff in Ht. destruct Ht as [Ha Hd].
  split; [|exact Hd]. unfold is_absolute, pp_is_absolute. cbn [existsb]. rewrite Ha. reflexivity.
Qed.

Lemma lstrip_not_slash s : startswith_slash (lstrip_slash s) = false.
Proof.
  induction s as [|c s IHs]; [reflexivity|]. simpl. destruct (c =? 47) eqn:Hc; [exact IHs|]. simpl. exact Hc.
Qed.

Lemma strip_leading_not_slash s : startswith_slash (strip_leading s) = false.
Proof. unfold strip_leading. destruct (startswith_slash s) eqn:Hs; [apply lstrip_not_slash | exact Hs]. Qed.

(* the only rejection left: a second drive prefix behind the first one *)
Theorem sanitize_rejects_iff arc : sanitize_archive_arcname arc = Err EOther <->
  drive_prefix (strip_leading arc) = true /\ drive_prefix (strip_leading (skipn 2 (strip_leading arc))) = true.
Proof.
  unfold sanitize_archive_arcname.
  destruct (drive_prefix (strip_leading arc)) eqn:Hd1.
  - rewrite strip_leading_not_slash. cbn [orb].
    destruct (drive_prefix (strip_leading (skipn 2 (strip_leading arc)))); split; intros Hx;
      try reflexivity; try discriminate; try (split; reflexivity). destruct Hx; discriminate.
  - rewrite strip_leading_not_slash, Hd1. cbn [orb]. split; [discriminate | intros [Hx _]; discriminate].
Qed.

Theorem sanitize_idempotent arc r : sanitize_archive_arcname arc = Ok r -> sanitize_archive_arcname r = Ok r.
Proof.
  intros Hs. destruct (sanitize_relative arc r Hs) as [Ha Hd].
  unfold is_absolute, pp_is_absolute in Ha. cbn [existsb] in Ha. rewrite orb_false_r in Ha.
  unfold sanitize_archive_arcname, strip_leading. rewrite Ha. cbv iota. rewrite Hd. cbv iota. rewrite Ha, Hd. reflexivity.
Qed.

(* ---------------------------------------------------------------- C16 (3): the stored name *)
(* the name stored for a non-absolute arcname does not start with '/' *)
Theorem make_name_relative name : is_absolute name = false -> is_absolute (make_name name) = false.
Proof.
  unfold is_absolute, pp_is_absolute. cbn [existsb]. rewrite !orb_false_r. intros Hrel.
  unfold make_name, pp_str, pp_parse. cbn [raw_path]. rewrite (parse_rel name Hrel).
  unfold format_parsed. cbn [isnil negb].
  destruct (comps name) as [|c cs] eqn:Hc; [reflexivity|].
  destruct (join_head (c :: cs)) as (x & r & Hj & Hx); [congruence | rewrite <- Hc; apply comps_good |].
  rewrite Hj. cbn [isnil]. exact Hx.
Qed.

Lemma splitroot_shape s : let '(root, rel) := splitroot s in root = [] \/ root = [47] \/ root = [47; 47].
Proof.
  destruct s as [|c0 [|c1 [|c2 r]]]; simpl; try tauto.
  - destruct (c0 =? 47); tauto.
  - destruct (c0 =? 47); [|tauto]. destruct (c1 =? 47); tauto.
  - destruct (c0 =? 47); [|tauto]. destruct (c1 =? 47); [|tauto]. destruct (c2 =? 47); tauto.
Qed.

Lemma parse_shape s : let '(root, tail) := parse_str s in
  (root = [] \/ root = [47] \/ root = [47; 47]) /\ Forall (fun c => good_comp c = true) tail.
Proof.
  unfold parse_str. destruct (isnil s); [split; [tauto | constructor]|].
  pose proof (splitroot_shape s) as Hsh. destruct (splitroot s) as [root rel]. split; [exact Hsh|].
  apply comps_good.
Qed.

Lemma parse_rel_good cs : cs <> [] -> Forall (fun c => good_comp c = true) cs ->
  parse_str (join_slash cs) = ([], cs).
Proof.
  intros Hne Hall. destruct (join_head cs Hne Hall) as (x & r & Hj & Hx).
  rewrite parse_rel by (rewrite Hj; exact Hx). unfold comps. rewrite split_join.
  - rewrite filter_keep_good by exact Hall. reflexivity.
  - exact Hne.
  - eapply Forall_impl; [|exact Hall]. intros a Ha. apply good_slashfree. exact Ha.
Qed.

Lemma parse_root2_good cs : Forall (fun c => good_comp c = true) cs ->
  parse_str (47 :: 47 :: join_slash cs) = ([47; 47], cs).
Proof.
  intros Hall. unfold parse_str. cbn [isnil].
  destruct cs as [|c cs'] eqn:Hcs; [reflexivity|].
  destruct (join_head (c :: cs')) as (x & r & Hj & Hx); [congruence | exact Hall |].
  rewrite Hj. cbn [splitroot]. replace (47 =? 47) with true by reflexivity. rewrite Hx.
  rewrite <- Hj. rewrite split_join.
  - rewrite filter_keep_good by exact Hall. reflexivity.
  - congruence.
  - eapply Forall_impl; [|exact Hall]. intros a Ha. apply good_slashfree. exact Ha.
Qed.

(* str() of a path parses back to the same path: the stored name has the same root and components *)
Theorem make_name_same_path name : parse_str (make_name name) = parse_str name.
Proof.
  unfold make_name, pp_str, pp_parse. cbn [raw_path].
  pose proof (parse_shape name) as Hsh. destruct (parse_str name) as [root tail].
  destruct Hsh as [Hroot Htail]. unfold format_parsed.
  destruct Hroot as [-> | [-> | ->]]; cbn [isnil negb app].
  - destruct tail as [|c cs]; [reflexivity|].
    destruct (join_head (c :: cs)) as (x & r & Hj & Hx); [congruence | exact Htail |].
    rewrite Hj. cbn [isnil]. rewrite <- Hj. apply parse_rel_good; [congruence | exact Htail].
  - apply parse_root_good. exact Htail.
  - apply parse_root2_good. exact Htail.
Qed.

Lemma startswith_slash_root name : startswith_slash name = negb (isnil (fst (parse_str name))).
Proof.
  destruct (startswith_slash name) eqn:Hs.
  - destruct name as [|c0 r]; [discriminate|]. simpl in Hs. unfold parse_str. cbn [isnil splitroot]. rewrite Hs.
    destruct r as [|c1 [|c2 r']]; try reflexivity.
    + destruct (c1 =? 47); reflexivity.
    + destruct (c1 =? 47); [|reflexivity]. destruct (c2 =? 47); reflexivity.
  - rewrite (parse_rel name Hs). reflexivity.
Qed.

Lemma spec_ok_parse name :
  spec_ok name = isnil (fst (parse_str name)) && spec_walk (snd (parse_str name)) 0.
Proof.
  rewrite spec_ok_comps, startswith_slash_root, negb_involutive.
  destruct (isnil (fst (parse_str name))) eqn:Hr; [|reflexivity]. cbn [andb].
  assert (Hs : startswith_slash name = false) by (rewrite startswith_slash_root, Hr; reflexivity).
  rewrite (parse_rel name Hs). reflexivity.
Qed.

(* the stored name gets the same verdict as the name given *)
Theorem stored_name_same_verdict name : spec_ok (make_name name) = spec_ok name.
Proof. rewrite (spec_ok_parse (make_name name)), make_name_same_path, <- spec_ok_parse. reflexivity. Qed.

Theorem stored_name_same_check name : check_archive_path (make_name name) = check_archive_path name.
Proof. rewrite !check_archive_path_spec. apply stored_name_same_verdict. Qed.

(* what writestr/writef store for an accepted name: a relative name that stays inside *)
Theorem accepted_stored_inside name : check_archive_path name = true ->
  is_absolute (make_name name) = false /\ spec_ok (make_name name) = true.
Proof.
  intros Hc. split.
  - apply make_name_relative. destruct (is_absolute name) eqn:Ha; [|reflexivity].
    rewrite (absolute_rejected name Ha) in Hc. discriminate.
  - rewrite stored_name_same_verdict, <- check_archive_path_spec. exact Hc.
Qed.

(* what write(file) / writeall store with arcname None *)
Theorem write_stored_relative file n : write_name_str file = Ok n -> is_absolute n = false.
Proof.
  unfold write_name_str. destruct (sanitize_archive_arcname file) as [r|e] eqn:Hs; [|discriminate].
  cbn [bind]. intros Hn. inversion Hn; subst n. apply make_name_relative.
  exact (proj1 (sanitize_relative file r Hs)).
Qed.

Theorem write_path_stored_relative file n : write_name_path file = Ok n -> is_absolute n = false.
Proof. unfold write_name_path. apply write_stored_relative. Qed.

(* an absolute source path with a single drive-free spelling is stored with its leading separators removed *)
Theorem write_strips_leading file : drive_prefix (lstrip_slash file) = false ->
  write_name_str file = Ok (make_name (lstrip_slash file)).
Proof.
  intros Hd. unfold write_name_str, sanitize_archive_arcname, strip_leading.
  destruct (startswith_slash file) eqn:Hs.
  - rewrite Hd. cbv iota. rewrite lstrip_not_slash, Hd. reflexivity.
  - assert (Hl : lstrip_slash file = file).
    { destruct file as [|c r]; [reflexivity|]. simpl in Hs. simpl. rewrite Hs. reflexivity. }
    rewrite Hl in *. rewrite Hd. cbv iota. rewrite Hs, Hd. reflexivity.
Qed.

(* recorded, not hidden: the name stored by write() can start with a drive-like "c:" again, because
   pathlib drops a leading "./" after _sanitize_archive_arcname looked at the string: "./c:/x" -> "c:/x" *)
Theorem write_drive_reappears :
  write_name_str [46; 47; 99; 58; 47; 120] = Ok [99; 58; 47; 120] /\ drive_prefix [99; 58; 47; 120] = true.
Proof. vm_compute. split; reflexivity. Qed.

(* ---------------------------------------------------------------- the name as py7zr lists it *)
(* py7zr's reader turns every backslash of a stored name into '/'; the write-side checks (POSIX) do not
   regard the backslash as a separator.  So "every accepted name is listed as a name that stays inside"
   is FALSE of the code as it is. *)
Definition bs_witness_abs : str := [92; 120].                       (* "\x"  listed as "/x" *)
Definition bs_witness_up : str := [46; 46; 92; 120].                (* "..\x" listed as "../x" *)

Theorem listed_name_inside_refuted : exists name,
  check_archive_path name = true /\ spec_ok name = true /\ spec_ok (listed_name name) = false.
Proof. exists bs_witness_up. vm_compute. repeat split; reflexivity. Qed.

Theorem listed_name_witnesses :
  check_archive_path bs_witness_abs = true /\ spec_ok bs_witness_abs = true /\
  is_absolute (listed_name bs_witness_abs) = true /\
  sanitize_archive_arcname bs_witness_abs = Ok bs_witness_abs /\
  check_archive_path bs_witness_up = true /\ spec_ok bs_witness_up = true /\
  spec_ok (listed_name bs_witness_up) = false.
Proof. vm_compute. repeat split; reflexivity. Qed.

Lemma read_name_id s : ~ In 92 s -> read_name s = s.
Proof.
  induction s as [|c s IHs]; intros Hno; [reflexivity|]. simpl.
  destruct (c =? 92) eqn:Hc.
  - exfalso. apply Hno. left. lia.
  - rewrite IHs; [reflexivity | intros Hin; apply Hno; right; exact Hin].
Qed.

Lemma split_chars s : forall comp c, In comp (split s) -> In c comp -> In c s.
Proof.
  induction s as [|x s IHs]; intros comp c Hcomp Hc; simpl in Hcomp.
  - destruct Hcomp as [<- | []]. exact Hc.
  - destruct (x =? 47).
    + destruct Hcomp as [<- | Hcomp]; [destruct Hc | right; exact (IHs comp c Hcomp Hc)].
    + destruct (split s) as [|h t] eqn:Hs.
      * destruct Hcomp as [<- | []]. destruct Hc as [<- | []]. left. reflexivity.
      * destruct Hcomp as [<- | Hcomp].
        -- destruct Hc as [<- | Hc]; [left; reflexivity | right; apply (IHs h c); [left; reflexivity | exact Hc]].
        -- right. apply (IHs comp c); [right; exact Hcomp | exact Hc].
Qed.

Lemma join_chars l : forall c, In c (join_slash l) -> c = 47 \/ exists comp, In comp l /\ In c comp.
Proof.
  induction l as [|d l IHl]; intros c Hc; [destruct Hc|].
  destruct l as [|e l'].
  - right. exists d. split; [left; reflexivity | exact Hc].
  - rewrite join_slash_cons in Hc by congruence. apply in_app_or in Hc. destruct Hc as [Hc | [<- | Hc]].
    + right. exists d. split; [left; reflexivity | exact Hc].
    + left. reflexivity.
    + destruct (IHl c Hc) as [-> | (comp & Hin & Hcc)]; [left; reflexivity|].
      right. exists comp. split; [right; exact Hin | exact Hcc].
Qed.

Lemma splitroot_chars s : forall c, (In c (fst (splitroot s)) -> c = 47) /\ (In c (snd (splitroot s)) -> In c s).
Proof.
  intros c. destruct s as [|c0 [|c1 [|c2 r]]]; simpl.
  - tauto.
  - destruct (c0 =? 47); simpl; intuition.
  - destruct (c0 =? 47); [|simpl; tauto]. destruct (c1 =? 47); simpl; intuition.
  - destruct (c0 =? 47); [|simpl; tauto]. destruct (c1 =? 47); [|simpl; intuition].
    destruct (c2 =? 47); simpl; intuition.
Qed.

Lemma make_name_chars name c : In c (make_name name) -> c = 47 \/ c = 46 \/ In c name.
Proof.
  unfold make_name, pp_str, pp_parse. cbn [raw_path]. unfold parse_str.
  destruct name as [|n0 nr] eqn:Hname; [simpl; intuition|]. cbn [isnil]. rewrite <- Hname.
  pose proof (splitroot_chars name c) as [Hroot Hrel].
  destruct (splitroot name) as [root rel]. cbn [fst snd] in *.
  set (tail := filter keep_comp (split rel)).
  assert (Htail : In c (join_slash tail) -> c = 47 \/ In c name).
  { intros Hc. destruct (join_chars tail c Hc) as [-> | (comp & Hin & Hcc)]; [left; reflexivity|].
    right. apply Hrel. unfold tail in Hin. apply filter_In in Hin. exact (split_chars rel comp c (proj1 Hin) Hcc). }
  unfold format_parsed. destruct (isnil root) eqn:Hr; cbn [negb].
  - destruct (isnil (join_slash tail)); [intros [<- | []]; right; left; reflexivity|].
    intros Hc. destruct (Htail Hc); tauto.
  - destruct (isnil (root ++ join_slash tail)); [intros [<- | []]; right; left; reflexivity|].
    intros Hc. apply in_app_or in Hc. destruct Hc as [Hc | Hc]; [left; exact (Hroot Hc)|].
    destruct (Htail Hc); tauto.
Qed.

(* what does hold: without a backslash in the name, the listed name is the stored name *)
Theorem listed_name_partial name : ~ In 92 name -> listed_name name = make_name name.
Proof.
  intros Hno. unfold listed_name. apply read_name_id. intros Hin.
  destruct (make_name_chars name 92 Hin) as [Hx | [Hx | Hx]]; [discriminate | discriminate | exact (Hno Hx)].
Qed.

(* ---------------------------------------------------------------- non-vacuity examples *)
(* the names the check accepted before the fix (it resolved '..' against a concrete dummy directory
   /foo/boo/fuga/hoge/a90sufoiasj09/dafj08sajfa): "../dafj08sajfa/x", "a/../../dafj08sajfa" *)
Definition d6 : str := [100; 97; 102; 106; 48; 56; 115; 97; 106; 102; 97].
Definition witness1 : str := [46; 46; 47] ++ d6 ++ [47; 120].
Definition witness2 : str := [97; 47; 46; 46; 47; 46; 46; 47] ++ d6.
Example ex_former_witnesses_rejected : check_archive_path witness1 = false /\ check_archive_path witness2 = false.
Proof. vm_compute. split; reflexivity. Qed.

Example ex_climbing_rejected :                                                  (* "a/../../b" *)
  check_archive_path [97; 47; 46; 46; 47; 46; 46; 47; 98] = false /\ spec_ok [97; 47; 46; 46; 47; 46; 46; 47; 98] = false.
Proof. vm_compute. split; reflexivity. Qed.

Example ex_inside : spec_ok [97; 47; 46; 46; 47; 98; 47; 47; 46; 47; 99] = true.   (* "a/../b//./c" *)
Proof. reflexivity. Qed.

Example ex_absolute : is_absolute [47; 47; 97] = true.
Proof. reflexivity. Qed.

Example ex_sanitize : sanitize_archive_arcname [47; 47; 99; 58; 47; 47; 116; 109; 112; 47; 120] = Ok [116; 109; 112; 47; 120].
Proof. reflexivity. Qed.                                                          (* "//c://tmp/x" -> "tmp/x" *)

Example ex_sanitize_rejects : sanitize_archive_arcname [99; 58; 47; 100; 58; 47; 120] = Err EOther.   (* "c:/d:/x" *)
Proof. reflexivity. Qed.

Example ex_make_name : make_name [97; 47; 47; 46; 47; 98; 47] = [97; 47; 98] /\ make_name [] = [46].
Proof. vm_compute. split; reflexivity. Qed.

Example ex_accepted : check_archive_path [97; 47; 46; 46; 47; 98] = true.
Proof. reflexivity. Qed.
