(* PyRe.v -- the regular expressions and str -> int conversion that code translated by tools/translate.py uses
   (CPython 3.12 `re` on str patterns, `int(str)`), as small special-purpose matchers.  Same status as PyPrims.v:
   compared with CPython by tools/harness/prims.py on every run (the pattern family below exhaustively over all
   code points in the positions where a character class is tested). *)
From P7 Require Import Prelude PyPrims PyStr.
Open Scope Z_scope.

Definition re_is_digit (c : Z) : bool := (48 <=? c) && (c <=? 57).                 (* [0-9] *)

(* a pattern letter l (ASCII lower case) against the character c under re.IGNORECASE on a str pattern: the two
   ASCII cases and the characters whose lower case (sre: unicode_tolower plus re._casefix) is l:
   U+212A KELVIN SIGN for k, U+017F LONG S for s, U+0130 / U+0131 (dotted I / dotless i) for i *)
Definition re_ci_letter (l c : Z) : bool :=
  (c =? l) || (c =? l - 32) || ((l =? 107) && (c =? 8490)) || ((l =? 115) && (c =? 383))
  || ((l =? 105) && ((c =? 304) || (c =? 305))).
Definition re_ci_in (letters : list Z) (c : Z) : bool := existsb (fun l => re_ci_letter l c) letters.

Fixpoint re_span (p : Z -> bool) (s : list Z) : list Z * list Z :=
  match s with
  | c :: r => if p c then (let '(a, b) := re_span p r in (c :: a, b)) else ([], s)
  | [] => ([], [])
  end.

(* re.compile(r"^([0-9]+)([<letters>]?)$", re.IGNORECASE).match(s), <letters> ASCII lower-case letters:
   None, or Some (group(1), group(2)); group 2 always takes part (it is "" when no letter is present);
   `$` matches at the end and just before a final "\n" *)
Definition re_digits_optletter_ci (letters s : list Z) : option (list Z * list Z) :=
  let '(num, rest) := re_span re_is_digit s in
  if py_nonempty num then
    match rest with
    | [] => Some (num, [])
    | [c] => if re_ci_in letters c then Some (num, [c]) else if c =? 10 then Some (num, []) else None
    | [c; d] => if re_ci_in letters c && (d =? 10) then Some (num, [c]) else None
    | _ => None
    end
  else None.

Definition py_is_some {A} (o : option A) : bool := match o with Some _ => true | None => false end.

(* re.match("^[a-zA-Z]:", s) (no flags): only whether it matched is kept *)
Definition re_is_ascii_alpha (c : Z) : bool := ((65 <=? c) && (c <=? 90)) || ((97 <=? c) && (c <=? 122)).
Definition re_match_alpha_colon (s : list Z) : option unit :=
  match s with
  | c0 :: c1 :: _ => if re_is_ascii_alpha c0 && (c1 =? 58) then Some tt else None
  | _ => None
  end.

(* int(s) for s a non-empty string of ASCII digits: ValueError beyond sys.get_int_max_str_digits() = 4300
   characters.  Any other string is OUTSIDE what this primitive models (int() accepts signs, blanks,
   underscores, other Unicode digits): the result is then Err EUnsupported, and the theorems about generated
   code that uses it show that this never happens. *)
Definition py_int_ascii_digits (s : list Z) : res Z :=
  if negb (py_nonempty s) || negb (forallb re_is_digit s) then Err EUnsupported
  else if 4300 <? py_len s then Err EOther
  else Ok (fold_left (fun a c => 10 * a + (c - 48)) s 0).

(* d[k] on a dict literal with str keys: KeyError when absent *)
Fixpoint py_dict_str_get {V} (d : list (list Z * V)) (k : list Z) : res V :=
  match d with
  | [] => Err EOther
  | (k', v) :: r => if py_str_eqb k' k then Ok v else py_dict_str_get r k
  end.
