(* Number.v -- the 7z NUMBER codec: a decoder transcribed from the table in
   docs/archive_format.rst ("NUMBER SHALL be ... encoded with the following scheme")
   and the minimal encoder.  No dependency on generated code: this is the spec side. *)
From P7 Require Import Prelude PyPrims.
Open Scope Z_scope.

(* Model *)

(* number of leading one bits of a byte = number of extra bytes that follow *)
Definition leading_ones (b : Z) : nat :=
  if b <? 128 then 0 else if b <? 192 then 1 else if b <? 224 then 2
  else if b <? 240 then 3 else if b <? 248 then 4 else if b <? 252 then 5
  else if b <? 254 then 6 else if b <? 255 then 7 else 8.

(* decoder written from the specification table; rejects truncated input *)
Definition spec_number (bs : bytes) : option (Z * bytes) :=
  match bs with
  | [] => None
  | b :: r =>
      let n := leading_ones b in
      if (length r <? n)%nat then None
      else
        let x := if (n <? 7)%nat then b mod 2 ^ (7 - Z.of_nat n) else 0 in
        Some (x * 256 ^ Z.of_nat n + le_value (firstn n r), skipn n r)
  end.

(* number of extra bytes of the minimal encoding *)
Definition number_extra (v : Z) : nat :=
  if v <? 2^7 then 0 else if v <? 2^14 then 1 else if v <? 2^21 then 2
  else if v <? 2^28 then 3 else if v <? 2^35 then 4 else if v <? 2^42 then 5
  else if v <? 2^49 then 6 else if v <? 2^56 then 7 else 8.

(* the prefix 1..10 of the first byte for n extra bytes: 0, 0x80, 0xC0, ... 0xFE, 0xFF *)
Definition number_prefix (n : nat) : Z := 256 - 2 ^ (8 - Z.of_nat n).

(* minimal encoder (hand model of write_uint64) *)
Definition number_enc (v : Z) : bytes :=
  let n := number_extra v in
  (number_prefix n + (if (n <? 7)%nat then v / 256 ^ Z.of_nat n else 0)) :: le_bytes n v.
