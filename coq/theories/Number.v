(* Number.v -- the 7z NUMBER codec: a decoder transcribed from the table in
   docs/archive_format.rst ("NUMBER SHALL be ... encoded with the following scheme")
   and the minimal encoder.  No dependency on generated code: this is the spec side. *)
From P7 Require Import Prelude PyPrims.
Open Scope Z_scope.

(* Model *)

(* number of leading one bits of a byte = number of extra bytes that follow *)
Definition leading_ones (b : Z) : nat :=
  if b <? 128 then 0 else if b <? 192 then 1 else if b <? 224 then 2
  else if b <? 240 then 3 else if b <? 248 then 4 else if b <? 252 then 5
  else if b <? 254 then 6 else if b <? 255 then 7 else 8.

(* decoder written from the specification table; rejects truncated input *)
Definition spec_number (bs : bytes) : option (Z * bytes) :=
  match bs with
  | [] => None
  | b :: r =>
      let n := leading_ones b in
      if (length r <? n)%nat then None
      else
        let x := if (n <? 7)%nat then b mod 2 ^ (7 - Z.of_nat n) else 0 in
        Some (x * 256 ^ Z.of_nat n + le_value (firstn n r), skipn n r)
  end.

(* number of extra bytes of the minimal encoding *)
Definition number_extra (v : Z) : nat :=
  if v <? 2^7 then 0 else if v <? 2^14 then 1 else if v <? 2^21 then 2
  else if v <? 2^28 then 3 else if v <? 2^35 then 4 else if v <? 2^42 then 5
  else if v <? 2^49 then 6 else if v <? 2^56 then 7 else 8.

(* the prefix 1..10 of the first byte for n extra bytes: 0, 0x80, 0xC0, ... 0xFE, 0xFF *)
Definition number_prefix (n : nat) : Z := 256 - 2 ^ (8 - Z.of_nat n).

(* minimal encoder (hand model of write_uint64) *)
Definition number_enc (v : Z) : bytes :=
  let n := number_extra v in
  (number_prefix n + (if (n <? 7)%nat then v / 256 ^ Z.of_nat n else 0)) :: le_bytes n v.

(* ------------------------------------------------------------------ *)
(* Lemmas (spec side only)                                             *)
(* ------------------------------------------------------------------ *)
From Coq Require Import ZifyBool.
Ltac Zify.zify_post_hook ::= Z.to_euclidean_division_equations.

Lemma wf_bytes_app a b : wf_bytes (a ++ b) = wf_bytes a && wf_bytes b.
Proof. unfold wf_bytes. apply forallb_app. Qed.

Lemma wf_bytes_firstn n bs : wf_bytes bs = true -> wf_bytes (firstn n bs) = true.
Proof.
  revert bs; induction n as [|n IH]; intros [|b r] H; try reflexivity.
  cbn [firstn]. cbn [wf_bytes forallb] in *.
  apply andb_true_iff in H as [Hb Hr]. rewrite Hb. apply (IH r Hr).
Qed.

Lemma wf_bytes_skipn n bs : wf_bytes bs = true -> wf_bytes (skipn n bs) = true.
Proof.
  revert bs; induction n as [|n IH]; intros [|b r] H; try reflexivity; try exact H.
  cbn [skipn]. cbn [wf_bytes forallb] in H.
  apply andb_true_iff in H as [Hb Hr]. apply (IH r Hr).
Qed.

(* the nine size classes of the minimal encoder *)
Lemma number_extra_cases v : 0 <= v < 2^64 ->
  (v < 2^7 /\ number_extra v = 0%nat) \/
  (2^7 <= v < 2^14 /\ number_extra v = 1%nat) \/
  (2^14 <= v < 2^21 /\ number_extra v = 2%nat) \/
  (2^21 <= v < 2^28 /\ number_extra v = 3%nat) \/
  (2^28 <= v < 2^35 /\ number_extra v = 4%nat) \/
  (2^35 <= v < 2^42 /\ number_extra v = 5%nat) \/
  (2^42 <= v < 2^49 /\ number_extra v = 6%nat) \/
  (2^49 <= v < 2^56 /\ number_extra v = 7%nat) \/
  (2^56 <= v < 2^64 /\ number_extra v = 8%nat).
Proof.
  intros Hv. unfold number_extra.
  destruct (v <? 2^7) eqn:E0; [left; split; [lia|reflexivity]|right].
  destruct (v <? 2^14) eqn:E1; [left; split; [lia|reflexivity]|right].
  destruct (v <? 2^21) eqn:E2; [left; split; [lia|reflexivity]|right].
  destruct (v <? 2^28) eqn:E3; [left; split; [lia|reflexivity]|right].
  destruct (v <? 2^35) eqn:E4; [left; split; [lia|reflexivity]|right].
  destruct (v <? 2^42) eqn:E5; [left; split; [lia|reflexivity]|right].
  destruct (v <? 2^49) eqn:E6; [left; split; [lia|reflexivity]|right].
  destruct (v <? 2^56) eqn:E7; [left; split; [lia|reflexivity]|right].
  split; [lia|reflexivity].
Qed.

Lemma number_extra_le v : (number_extra v <= 8)%nat.
Proof.
  unfold number_extra.
  repeat match goal with |- context[if ?c then _ else _] => destruct c eqn:? end; lia.
Qed.

(* evaluate the closed constants that appear once the size class is known *)
Ltac num_consts n :=
  let p := eval vm_compute in (number_prefix n) in change (number_prefix n) with p;
  let z := eval vm_compute in (Z.of_nat n) in change (Z.of_nat n) with z;
  repeat match goal with
  | |- context[Z.pow ?a (Z.sub ?b ?c)] =>
      let r := eval vm_compute in (Z.pow a (Z.sub b c)) in change (Z.pow a (Z.sub b c)) with r
  end;
  let b := eval vm_compute in (n <? 7)%nat in change (n <? 7)%nat with b;
  cbv iota.

Ltac split_ifs :=
  repeat (match goal with |- context[if ?c then _ else _] => destruct c eqn:? end; try lia).

(* first byte of the minimal encoding, per class *)
Definition number_first (n : nat) (v : Z) : Z :=
  number_prefix n + (if (n <? 7)%nat then v / 256 ^ Z.of_nat n else 0).

Lemma number_enc_unfold v : number_enc v = number_first (number_extra v) v :: le_bytes (number_extra v) v.
Proof. reflexivity. Qed.

(* facts about the first byte for each class *)
Lemma number_first_facts v : 0 <= v < 2^64 ->
  let n := number_extra v in
  let b := number_first n v in
  0 <= b < 256 /\ leading_ones b = n /\
  (if (n <? 7)%nat then b mod 2 ^ (7 - Z.of_nat n) else 0) * 256 ^ Z.of_nat n
    + v mod 256 ^ Z.of_nat n = v.
Proof.
  intros Hv. cbv zeta.
  destruct (number_extra_cases v Hv) as
    [[H Hn]|[[H Hn]|[[H Hn]|[[H Hn]|[[H Hn]|[[H Hn]|[[H Hn]|[[H Hn]|[H Hn]]]]]]]]];
  rewrite Hn; unfold number_first, leading_ones;
  match goal with |- context[number_prefix ?n] => num_consts n end;
  (split; [lia|split; [split_ifs; reflexivity|lia]]).
Qed.

Lemma number_enc_length v : 0 <= v < 2^64 -> (1 <= length (number_enc v) <= 9)%nat.
Proof.
  intros Hv. rewrite number_enc_unfold. cbn [length]. rewrite le_bytes_length.
  pose proof (number_extra_le v). lia.
Qed.

Lemma number_enc_wf v : 0 <= v < 2^64 -> wf_bytes (number_enc v) = true.
Proof.
  intros Hv. rewrite number_enc_unfold. cbn [wf_bytes forallb].
  fold (wf_bytes (le_bytes (number_extra v) v)). rewrite le_bytes_wf, andb_true_r.
  destruct (number_first_facts v Hv) as [Hb _]. unfold is_byte. lia.
Qed.

(* the spec decoder on a first byte followed by exactly its extra bytes *)
Lemma spec_number_cons b ex r :
  length ex = leading_ones b ->
  spec_number (b :: ex ++ r) =
    Some ((if (leading_ones b <? 7)%nat then b mod 2 ^ (7 - Z.of_nat (leading_ones b)) else 0)
            * 256 ^ Z.of_nat (leading_ones b) + le_value ex, r).
Proof.
  intros Hl. unfold spec_number. cbv zeta. rewrite <- Hl.
  destruct (length (ex ++ r) <? length ex)%nat eqn:E.
  { apply Nat.ltb_lt in E. rewrite app_length in E. lia. }
  rewrite firstn_app_exact, skipn_app_exact. reflexivity.
Qed.

Theorem number_spec_enc v r : 0 <= v < 2^64 -> spec_number (number_enc v ++ r) = Some (v, r).
Proof.
  intros Hv. rewrite number_enc_unfold. cbn [app].
  destruct (number_first_facts v Hv) as [Hb [Hlo Hval]].
  rewrite spec_number_cons by (rewrite le_bytes_length; symmetry; exact Hlo).
  rewrite Hlo, le_value_le_bytes by lia. rewrite Hval. reflexivity.
Qed.

Lemma leading_ones_le b : (leading_ones b <= 8)%nat.
Proof.
  unfold leading_ones.
  repeat match goal with |- context[if ?c then _ else _] => destruct c eqn:? end; lia.
Qed.

Lemma Some_pair_inj {A B} (a c : A) (b d : B) : Some (a, b) = Some (c, d) -> a = c /\ b = d.
Proof. intros H. inversion H. split; reflexivity. Qed.

Theorem spec_number_range bs v r :
  wf_bytes bs = true -> spec_number bs = Some (v, r) -> 0 <= v < 2^64.
Proof.
  intros Hwf Hs. destruct bs as [|b r0]; [discriminate|].
  cbn [wf_bytes forallb] in Hwf. apply andb_true_iff in Hwf as [Hb Hr0].
  fold (wf_bytes r0) in Hr0. unfold is_byte in Hb.
  unfold spec_number in Hs. cbv zeta in Hs.
  destruct (length r0 <? leading_ones b)%nat eqn:El; [discriminate|].
  apply Nat.ltb_ge in El.
  apply Some_pair_inj in Hs as [Hv _]. subst v.
  pose proof (le_value_bound (firstn (leading_ones b) r0) (wf_bytes_firstn _ _ Hr0)) as Hlv.
  rewrite firstn_length_le in Hlv by exact El.
  clear El Hr0.
  set (lv := le_value (firstn (leading_ones b) r0)) in *. clearbody lv.
  pose proof (leading_ones_le b) as Hle.
  set (n := leading_ones b) in *. clearbody n. revert Hlv.
  do 9 (destruct n as [|n];
        [match goal with |- context[Z.of_nat ?k] => num_consts k end; lia|]).
  lia.
Qed.

Print Assumptions number_enc_length.
Print Assumptions number_enc_wf.
Print Assumptions number_spec_enc.
Print Assumptions spec_number_range.
