(* Listing.v -- model of py7zr's listing interfaces (property C10), over the entry
   assignment of Assign.v (`impl_plans` = SevenZipFile._real_get_contents) and the header
   graph of Header.v.

   Mirrors, line by line, of py7zr/py7zr.py (line numbers of the tree the property was anchored on):
     ArchiveFile.filename / uncompressed / crc32 / _test_attribute / is_directory / archivable /
       readonly / _get_unix_extension / is_symlink / is_junction / is_socket       (112-235)
     _real_get_contents: the generated name of an entry stored without one         (509-521)
                         password_protected                                        (345, 523-527)
     _extract: the kind decision (directory / socket / link / regular), both with a
               destination path and with a WriterFactory                           (588-607)
     Worker.extract / _check: `if f.crc32 is not None and crc32 != f.crc32`        (1436, 1458)
     getnames / namelist / getinfo / archiveinfo / needs_password / list           (943-1009)
     _get_method_names / _is_solid                                                 (786-806)
   and of py7zr/compressor.py: SupportedMethods.methods (948-1085), get_filter_id,
     is_crypto_id, needs_password (1096-1170), get_methods_names (1197-1232);
   helpers.remove_trailing_slash.

   Not modelled (not part of C10's statement): FileInfo.compressed, ArchiveInfo.header_size /
   stat / filename, the conversion of FILETIME values to datetime (list() is modelled with the
   raw FILETIME value; the harness applies filetime_to_dt to the model's value).

   Names are lists of code points; '/' = 47.  Definitions first (all computable, extracted);
   proofs after. *)
From P7 Require Import Prelude PyPrims Number Crc32 Header HeaderCodec Spec Assign.
From Coq Require Import ZifyBool.
Open Scope Z_scope.

(* ------------------------------------------------------------------ *)
(* strings                                                             *)
(* ------------------------------------------------------------------ *)
Definition str := list Z.

Fixpoint str_eqb (a b : str) : bool :=
  match a, b with
  | [], [] => true
  | x :: a', y :: b' => (x =? y) && str_eqb a' b'
  | _, _ => false
  end.

(* helpers.remove_trailing_slash: if path.endswith("/"): return path[:-1] *)
Definition remove_trailing_slash (s : str) : str :=
  match rev s with
  | c :: r => if c =? 47 then rev r else s
  | [] => s
  end.

(* ------------------------------------------------------------------ *)
(* ArchiveFile: the view of one entry                                   *)
(* ------------------------------------------------------------------ *)
(* f.filename: the stored name, or the name _real_get_contents generates for an entry stored
   without one (`dflt` = stem of the archive's file name, or "contents") *)
Definition af_filename (dflt : str) (p : iplan) : str :=
  match ip_name p with Some n => n | None => dflt end.
Definition af_uncompressed (p : iplan) : Z := ip_size p.
Definition af_crc32 (p : iplan) : option Z := ip_crc p.
Definition af_lastwritetime (p : iplan) : option Z := ip_mtime p.

(* _test_attribute(bit): attributes is None -> False ; attributes & bit == bit *)
Definition test_attribute (p : iplan) (bit : Z) : bool :=
  match ip_attr p with None => false | Some v => Z.land v bit =? bit end.
(* is_directory: if self._get_property("emptystream"): return not self._get_property("emptyfile")
                 return self._test_attribute(FILE_ATTRIBUTE_DIRECTORY)
   (for an entry without data the format decides: empty file when its EmptyFile bit is set, else directory) *)
Definition af_is_directory (p : iplan) : bool :=
  if ip_emptystream p then negb (ip_emptyfile p) else test_attribute p 16.
Definition af_archivable (p : iplan) : bool := test_attribute p 32.        (* FILE_ATTRIBUTE_ARCHIVE *)
Definition af_readonly (p : iplan) : bool := test_attribute p 1.           (* FILE_ATTRIBUTE_READONLY *)
Definition unix_extension (p : iplan) : option Z :=
  if test_attribute p 32768 then match ip_attr p with Some v => Some (Z.shiftr v 16) | None => None end
  else None.
Definition s_islnk (e : Z) : bool := Z.land e 61440 =? 40960.               (* S_IFMT, S_IFLNK *)
Definition s_issock (e : Z) : bool := Z.land e 61440 =? 49152.              (* S_IFSOCK *)
Definition af_is_symlink (p : iplan) : bool :=
  match unix_extension p with Some e => s_islnk e | None => test_attribute p 1024 end.  (* REPARSE_POINT *)
Definition af_is_junction (p : iplan) : bool := test_attribute p 1040.      (* REPARSE_POINT | DIRECTORY *)
Definition af_is_socket (p : iplan) : bool :=
  match unix_extension p with Some e => s_issock e | None => false end.

(* ------------------------------------------------------------------ *)
(* what extraction does with an entry (the decision chain of _extract)  *)
(* ------------------------------------------------------------------ *)
Inductive xaction := XDir | XSkip | XLink | XFile.
Definition xaction_code (a : xaction) : Z := match a with XDir => 0 | XSkip => 1 | XLink => 2 | XFile => 3 end.
(* extractall(path): elif f.is_directory -> mkdir ; elif f.is_socket -> nothing ;
   elif f.is_symlink or f.is_junction -> link ; else -> regular file *)
Definition extract_action_path (p : iplan) : xaction :=
  if af_is_directory p then XDir
  else if af_is_socket p then XSkip
  else if af_is_symlink p || af_is_junction p then XLink
  else XFile.
(* extractall(factory=...): directories and sockets are ignored, everything else gets a writer *)
Definition extract_action_factory (p : iplan) : xaction :=
  if af_is_directory p || af_is_socket p then XSkip else XFile.

(* Worker.decompress hands a member the next `size` bytes of its folder's decoded stream D,
   the cursor being the sum of the sizes before it (ip_offset) *)
Definition member_bytes (D : bytes) (p : iplan) : bytes := takeZ (ip_size p) (dropZ (ip_offset p) D).
(* `if f.crc32 is not None and crc32 != f.crc32: raise CrcError` *)
Definition crc_check (p : iplan) (d : bytes) : bool :=
  match af_crc32 p with Some c => crc32 d =? c | None => true end.

(* ------------------------------------------------------------------ *)
(* the listing interfaces                                               *)
(* ------------------------------------------------------------------ *)
(* self.files iterated: ArchiveFile objects in stored order *)
Definition files_names (dflt : str) (ps : list iplan) : list str := map (af_filename dflt) ps.
(* namelist: list(map(lambda x: x.filename, self.files)) *)
Definition namelist (dflt : str) (ps : list iplan) : list str := map (fun x => af_filename dflt x) ps.
(* getnames: return self.namelist() *)
Definition getnames (dflt : str) (ps : list iplan) : list str := namelist dflt ps.

(* list(): one FileInfo per member; `lastmodified` is a local of the method, assigned only when the
   member has a timestamp -- it is NOT reset per iteration *)
Record finfo := mkFinfo {
  fi_filename : str; fi_uncompressed : Z; fi_archivable : bool; fi_is_directory : bool;
  fi_creationtime : option Z; fi_crc32 : option Z }.
Fixpoint list_loop (dflt : str) (lastmodified : option Z) (ps : list iplan) : list finfo :=
  match ps with
  | [] => []
  | f :: r =>
      let lastmodified' := match af_lastwritetime f with Some t => Some t | None => lastmodified end in
      mkFinfo (af_filename dflt f) (af_uncompressed f) (af_archivable f) (af_is_directory f) lastmodified' (af_crc32 f)
      :: list_loop dflt lastmodified' r
  end.
Definition list_model (dflt : str) (ps : list iplan) : list finfo := list_loop dflt None ps.
Definition list_names (dflt : str) (ps : list iplan) : list str := map fi_filename (list_model dflt ps).

(* getinfo(name): first the name as given (a stored name may itself end with a slash):
     next(filter(lambda member: member.filename == name, self.files), None)
   and, when that finds nothing, once more with name = remove_trailing_slash(name); still nothing -> KeyError.
   The result carries the position of the member (ArchiveFile.id of self.files). *)
Fixpoint first_match (dflt : str) (name : str) (ps : list iplan) (i : Z) : option (Z * iplan) :=
  match ps with
  | [] => None
  | p :: r => if str_eqb (af_filename dflt p) name then Some (i, p) else first_match dflt name r (i + 1)
  end.
Definition getinfo (dflt : str) (ps : list iplan) (name : str) : option (Z * iplan) :=
  match first_match dflt name ps 0 with
  | Some r => Some r
  | None => first_match dflt (remove_trailing_slash name) ps 0
  end.

(* ------------------------------------------------------------------ *)
(* SupportedMethods                                                     *)
(* ------------------------------------------------------------------ *)
Record method := mkMethod { m_id : bytes; m_name : str; m_filter : Z; m_type : Z (* 0 compressor, 1 filter, 2 crypto *) }.
Definition AES_ID : bytes := [6; 241; 7; 1].
Definition BCJ2_ID : bytes := [3; 3; 1; 27].
Definition LZ4_ID : bytes := [4; 247; 17; 4].
Definition supported_methods : list method :=
  [ mkMethod [0] [67; 79; 80; 89] (* COPY *) 51 0;
    mkMethod [33] [76; 90; 77; 65; 50] (* LZMA2 *) 33 0;
    mkMethod [3] [68; 69; 76; 84; 65] (* DELTA *) 3 1;
    mkMethod [3; 1; 1] [76; 90; 77; 65] (* LZMA *) 4611686018427387905 0;
    mkMethod [3; 3; 1; 3] [66; 67; 74] (* BCJ *) 4 1;
    mkMethod [3; 3; 2; 5] [80; 80; 67] (* PPC *) 5 1;
    mkMethod [3; 3; 4; 1] [73; 65; 54; 52] (* IA64 *) 6 1;
    mkMethod [3; 3; 5; 1] [65; 82; 77] (* ARM *) 7 1;
    mkMethod [3; 3; 7; 1] [65; 82; 77; 84] (* ARMT *) 8 1;
    mkMethod [3; 3; 8; 5] [83; 80; 65; 82; 67] (* SPARC *) 9 1;
    mkMethod [4; 1; 8] [68; 69; 70; 76; 65; 84; 69] (* DEFLATE *) 50 0;
    mkMethod [4; 2; 2] [66; 90; 105; 112; 50] (* BZip2 *) 49 0;
    mkMethod [4; 247; 17; 1] [90; 83; 116; 97; 110; 100; 97; 114; 100] (* ZStandard *) 53 0;
    mkMethod [3; 4; 1] [80; 80; 77; 100] (* PPMd *) 54 0;
    mkMethod [4; 247; 17; 2] [66; 114; 111; 116; 108; 105] (* Brotli *) 55 0;
    mkMethod [4; 1; 9] [68; 69; 70; 76; 65; 84; 69; 54; 52] (* DEFLATE64 *) 56 0;
    mkMethod AES_ID [55; 122; 65; 69; 83] (* 7zAES *) 116459265 2 ].

(* get_methods_names: the display priority list *)
Definition methods_namelist : list str :=
  [ [76; 90; 77; 65; 50] (* LZMA2 *);
    [76; 90; 77; 65] (* LZMA *);
    [66; 90; 105; 112; 50] (* BZip2 *);
    [68; 69; 70; 76; 65; 84; 69] (* DEFLATE *);
    [68; 69; 70; 76; 65; 84; 69; 54; 52] (* DEFLATE64 *);
    [68; 69; 76; 84; 65] (* DELTA *);
    [67; 79; 80; 89] (* COPY *);
    [80; 80; 77; 100] (* PPMd *);
    [90; 83; 116; 97; 110; 100; 97; 114; 100] (* ZStandard *);
    [66; 114; 111; 116; 108; 105] (* Brotli *);
    [76; 90; 52; 42] (* LZ4* *);
    [66; 67; 74; 50; 42] (* BCJ2* *);
    [66; 67; 74] (* BCJ *);
    [65; 82; 77] (* ARM *);
    [65; 82; 77; 84] (* ARMT *);
    [73; 65; 54; 52] (* IA64 *);
    [80; 80; 67] (* PPC *);
    [83; 80; 65; 82; 67] (* SPARC *);
    [55; 122; 65; 69; 83] (* 7zAES *) ].


(* for m in SupportedMethods.methods: if coder["method"] == m["id"]: append(m["name"])
   if coder["method"] in unsupported_methods: append(unsupported_methods[coder["method"]]) *)
Definition coder_names (c : coder) : list str :=
  map m_name (filter (fun m => str_eqb (c_method c) (m_id m)) supported_methods)
  ++ (if str_eqb (c_method c) BCJ2_ID then [[66; 67; 74; 50; 42] (* BCJ2* *)]
      else if str_eqb (c_method c) LZ4_ID then [[76; 90; 52; 42] (* LZ4* *)] else []).
Definition collected_names (coders_lists : list (list coder)) : list str :=
  flat_map (fun coders => flat_map coder_names coders) coders_lists.
(* return list(filter(lambda x: x in methods_names, methods_namelist)) *)
Definition get_methods_names (coders_lists : list (list coder)) : list str :=
  let names := collected_names coders_lists in
  filter (fun x => existsb (str_eqb x) names) methods_namelist.

(* SupportedMethods.get_filter_id / is_crypto_id / needs_password *)
Definition get_filter_id (c : coder) : option Z :=
  match find (fun m => str_eqb (m_id m) (c_method c)) supported_methods with
  | Some m => Some (m_filter m) | None => None end.
Definition is_crypto_id (fid : Z) : res bool :=
  match find (fun m => m_filter m =? fid) supported_methods with
  | Some m => Ok (m_type m =? 2)
  | None => Err EUnsupported                (* raise_unsupported_filter_id *)
  end.
Fixpoint coders_need_password (cs : list coder) : res bool :=
  match cs with
  | [] => Ok false
  | c :: r =>
      match get_filter_id c with
      | None => coders_need_password r
      | Some fid => do b <- is_crypto_id fid; if b then Ok true else coders_need_password r
      end
  end.
Fixpoint map_res {A B} (f : A -> res B) (l : list A) : res (list B) :=
  match l with [] => Ok [] | x :: r => do y <- f x; do t <- map_res f r; Ok (y :: t) end.

(* ------------------------------------------------------------------ *)
(* archiveinfo                                                          *)
(* ------------------------------------------------------------------ *)
Record ainfo := mkAinfo { ai_method_names : list str; ai_solid : bool; ai_blocks : Z; ai_uncompressed : Z }.

(* archiveinfo() of an archive whose header graph is h; `has_filename` = the archive was opened by
   path (self.filename is not None), otherwise `assert fname is not None` fails.
   total_uncompressed = sum([f.uncompressed for f in self.files]); an archive without main streams
   (no members, or only directories / empty files) has no methods, is not solid, has 0 blocks *)
Definition archiveinfo (has_filename : bool) (h : header) : res ainfo :=
  do ps <- impl_plans h;                                  (* the archive opened *)
  let total := sumZ (map af_uncompressed ps) in
  if negb has_filename then Err EOther else
  match h_streams h with
  | None => Ok (mkAinfo [] false 0 total)
  | Some st =>
      match si_folders st with
      | None => Err EOther                                (* _get_method_names: None.folders *)
      | Some folders =>
          let names := get_methods_names (map f_coders folders) in
          (* _is_solid: some folder with more than one sub-stream.  A graph read without SubStreamsInfo carries, once
             the archive is open, the object _real_get_contents installed (Assign.install_sub: one sub-stream per
             folder); without FilesInfo nothing is installed and `substreamsinfo is None: return False` *)
          let solid := match si_sub st with
                       | Some sub => existsb (fun f => 1 <? f) (s_nums sub)
                       | None => false
                       end in
          Ok (mkAinfo names solid (zlen folders) total)
      end
  end.

(* needs_password(): self.password_protected, computed when the archive is opened *)
Definition needs_password (password_given : bool) (h : header) : res bool :=
  do _ <- impl_plans h;
  match h_files h with
  | None => Ok password_given                             (* early return before the coder test *)
  | Some _ =>
      if password_given then Ok true else
      match h_streams h with
      | None => Ok false
      | Some st =>
          match si_folders st with
          | None => Err EOther
          | Some folders =>
              do bs <- map_res coders_need_password (map f_coders folders);
              Ok (existsb (fun b => b) bs)
          end
      end
  end.

(* everything at once, for the correspondence check *)
Definition t_str (s : str) : tree := TL (map TI s).
Definition t_finfo (f : finfo) : tree :=
  TL [t_str (fi_filename f); TI (fi_uncompressed f); t_bool (fi_archivable f); t_bool (fi_is_directory f);
      t_opt TI (fi_creationtime f); t_opt TI (fi_crc32 f)].
Definition t_af (dflt : str) (p : iplan) : tree :=
  TL [t_str (af_filename dflt p); TI (af_uncompressed p); t_opt TI (af_crc32 p); t_bool (af_is_directory p);
      t_bool (af_archivable p); t_bool (af_readonly p); t_bool (af_is_symlink p); t_bool (af_is_junction p);
      t_bool (af_is_socket p); TI (xaction_code (extract_action_path p)); TI (xaction_code (extract_action_factory p));
      TI (ip_kind p)].
Definition t_ainfo (a : ainfo) : tree :=
  TL [TL (map t_str (ai_method_names a)); t_bool (ai_solid a); TI (ai_blocks a); TI (ai_uncompressed a)].

Definition listing_all (dflt : str) (h : header) : res tree :=
  do ps <- impl_plans h;
  Ok (TL [TL (map t_str (getnames dflt ps)); TL (map t_str (namelist dflt ps)); TL (map t_str (list_names dflt ps));
          TL (map t_str (files_names dflt ps)); TL (map t_finfo (list_model dflt ps)); TL (map (t_af dflt) ps)]).

Definition t_getinfo (r : option (Z * iplan)) : tree :=
  match r with Some (i, _) => TL [TI i] | None => TL [] end.

Definition listing_dispatch (fn : Z) (a : tree) : tree :=
  match fn with
  (* FN 440 listing_all : (dflt header-tree) -> res (getnames namelist list_names files_names list-rows file-rows) *)
  | 440 => t_res (fun t => t) (listing_all (of_bytes (tnth a 0)) (of_header (tnth a 1)))
  (* FN 441 listing_all_of_bytes : (lim dflt bytes) -> same, through the model of the header parser *)
  | 441 => t_res (fun t => t) (do h <- parse_header (of_TI (tnth a 0)) (of_bytes (tnth a 2)); listing_all (of_bytes (tnth a 1)) h)
  (* FN 442 getinfo : (dflt header-tree name) -> res (() | (index)) *)
  | 442 => t_res t_getinfo (do ps <- impl_plans (of_header (tnth a 1));
                            Ok (getinfo (of_bytes (tnth a 0)) ps (of_bytes (tnth a 2))))
  (* FN 443 archiveinfo : (has_filename header-tree) -> res (method_names solid blocks uncompressed) *)
  | 443 => t_res t_ainfo (archiveinfo (of_bool (tnth a 0)) (of_header (tnth a 1)))
  (* FN 444 needs_password : (password_given header-tree) -> res bool *)
  | 444 => t_res t_bool (needs_password (of_bool (tnth a 0)) (of_header (tnth a 1)))
  (* FN 445 get_methods_names : list (list coder) -> list name *)
  | 445 => TL (map t_str (get_methods_names (of_list (of_list of_coder) a)))
  (* FN 446 coders_need_password : list coder -> res bool *)
  | 446 => t_res t_bool (coders_need_password (of_list of_coder a))
  (* FN 447 remove_trailing_slash : name -> name *)
  | 447 => t_str (remove_trailing_slash (of_bytes a))
  (* FN 448 getinfo_bytes : (lim dflt bytes name) -> res (() | (index)) *)
  | 448 => t_res t_getinfo (do h <- parse_header (of_TI (tnth a 0)) (of_bytes (tnth a 2)); do ps <- impl_plans h;
                            Ok (getinfo (of_bytes (tnth a 1)) ps (of_bytes (tnth a 3))))
  (* FN 449 archiveinfo_bytes : (lim has_filename bytes) -> res (method_names solid blocks uncompressed) *)
  | 449 => t_res t_ainfo (do h <- parse_header (of_TI (tnth a 0)) (of_bytes (tnth a 2)); archiveinfo (of_bool (tnth a 1)) h)
  (* FN 450 needs_password_bytes : (lim password_given bytes) -> res bool *)
  | 450 => t_res t_bool (do h <- parse_header (of_TI (tnth a 0)) (of_bytes (tnth a 2)); needs_password (of_bool (tnth a 1)) h)
  | _ => TL [TI (-2)]
  end.

(* ================================================================== *)
(* Proofs                                                              *)
(* ================================================================== *)

(* ---------- strings ---------- *)
Lemma str_eqb_eq (a b : str) : str_eqb a b = true <-> a = b.
Proof.
  revert b; induction a as [|x a IH]; intros [|y b]; simpl; split; intros H; try discriminate; try reflexivity.
  - apply andb_true_iff in H as [H1 H2]. apply Z.eqb_eq in H1. apply IH in H2. congruence.
  - inversion H; subst. rewrite Z.eqb_refl. simpl. now apply IH.
Qed.
Lemma str_eqb_refl (a : str) : str_eqb a a = true.
Proof. now apply str_eqb_eq. Qed.
Lemma str_eqb_neq (a b : str) : str_eqb a b = false <-> a <> b.
Proof.
  split; intros H.
  - intros E. apply str_eqb_eq in E. congruence.
  - destruct (str_eqb a b) eqn:E; [apply str_eqb_eq in E; contradiction | reflexivity].
Qed.

Definition ends_with_slash (n : str) : Prop := exists r, n = r ++ [47].

Lemma remove_trailing_slash_app (n : str) : remove_trailing_slash (n ++ [47]) = n.
Proof. unfold remove_trailing_slash. rewrite rev_app_distr. simpl. now rewrite rev_involutive. Qed.

Lemma remove_trailing_slash_plain (n : str) : ~ ends_with_slash n -> remove_trailing_slash n = n.
Proof.
  intros H. unfold remove_trailing_slash. destruct (rev n) as [|c r] eqn:E; [reflexivity|].
  destruct (c =? 47) eqn:Ec; [|reflexivity].
  exfalso. apply H. exists (rev r). apply Z.eqb_eq in Ec. subst c.
  rewrite <- (rev_involutive n), E. reflexivity.
Qed.

Lemma remove_trailing_slash_cases (n : str) :
  (exists r, n = r ++ [47] /\ remove_trailing_slash n = r) \/ (~ ends_with_slash n /\ remove_trailing_slash n = n).
Proof.
  destruct (rev n) as [|c r] eqn:E.
  - right. assert (n = []) by (rewrite <- (rev_involutive n), E; reflexivity). subst. split; [|reflexivity].
    intros [r Hr]. destruct r; discriminate.
  - destruct (c =? 47) eqn:Ec.
    + left. exists (rev r). apply Z.eqb_eq in Ec. subst c.
      assert (Hn : n = rev r ++ [47]) by (rewrite <- (rev_involutive n), E; reflexivity).
      split; [exact Hn|]. rewrite Hn. apply remove_trailing_slash_app.
    + right. assert (Hns : ~ ends_with_slash n).
      { intros [r' Hr']. subst n. rewrite rev_app_distr in E. simpl in E. inversion E; subst. discriminate. }
      split; [exact Hns | now apply remove_trailing_slash_plain].
Qed.

(* ---------- names ---------- *)
Lemma list_loop_names dflt last ps : map fi_filename (list_loop dflt last ps) = map (af_filename dflt) ps.
Proof. revert last; induction ps as [|p r IH]; intros last; simpl; [reflexivity | now rewrite IH]. Qed.

Lemma names_agree_plans dflt ps :
  getnames dflt ps = namelist dflt ps /\ list_names dflt ps = namelist dflt ps /\ files_names dflt ps = namelist dflt ps.
Proof. repeat split. unfold list_names, list_model. apply list_loop_names. Qed.

(* the rows of list() carry the member's own size, CRC and flags (only the timestamp is carried over) *)
Lemma list_loop_rows dflt last ps i p :
  nth_error ps i = Some p ->
  exists row, nth_error (list_loop dflt last ps) i = Some row /\ fi_filename row = af_filename dflt p
              /\ fi_uncompressed row = af_uncompressed p /\ fi_crc32 row = af_crc32 p
              /\ fi_is_directory row = af_is_directory p /\ fi_archivable row = af_archivable p.
Proof.
  revert last i; induction ps as [|q r IH]; intros last [|i] H; simpl in *; try discriminate.
  - inversion H; subst. eexists; split; [reflexivity|]. simpl. repeat split.
  - apply IH with (last := match af_lastwritetime q with Some t => Some t | None => last end) in H. exact H.
Qed.

(* ---------- getinfo ---------- *)
Lemma first_match_none dflt name ps i :
  first_match dflt name ps i = None <-> ~ In name (map (af_filename dflt) ps).
Proof.
  revert i; induction ps as [|p r IH]; intros i; simpl.
  - split; [intros _ [] | reflexivity].
  - destruct (str_eqb (af_filename dflt p) name) eqn:E.
    + apply str_eqb_eq in E. split; [discriminate | intros H; exfalso; apply H; now left].
    + apply str_eqb_neq in E. rewrite IH. split; [intros H [H1|H1]; [contradiction | now apply H] | intros H H1; apply H; now right].
Qed.

Lemma first_match_some dflt name ps i j p :
  first_match dflt name ps i = Some (j, p) ->
  i <= j /\ nth_error ps (Z.to_nat (j - i)) = Some p /\ af_filename dflt p = name
  /\ (forall q, In q (firstn (Z.to_nat (j - i)) ps) -> af_filename dflt q <> name).
Proof.
  revert i; induction ps as [|q r IH]; intros i; simpl; [discriminate|].
  destruct (str_eqb (af_filename dflt q) name) eqn:E.
  - intros H; inversion H; subst. replace (j - j) with 0 by lia. simpl. apply str_eqb_eq in E.
    repeat split; [lia | exact E | intros ? []].
  - intros H. apply IH in H as (H1 & H2 & H3 & H4). apply str_eqb_neq in E.
    replace (Z.to_nat (j - i)) with (S (Z.to_nat (j - (i + 1)))) by lia. simpl.
    repeat split; [lia | exact H2 | exact H3 | intros q' [<-|Hq]; [exact E | now apply H4]].
Qed.

Lemma first_match_in dflt name ps i :
  In name (map (af_filename dflt) ps) -> exists j p, first_match dflt name ps i = Some (j, p).
Proof.
  intros H. destruct (first_match dflt name ps i) as [[j p]|] eqn:E; [now exists j, p|].
  apply first_match_none in E. contradiction.
Qed.

(* getinfo(name) finds every listed name as it stands, and returns the FIRST member of that name *)
Lemma getinfo_finds_plans dflt ps n :
  In n (getnames dflt ps) ->
  exists j p, getinfo dflt ps n = Some (j, p) /\ nth_error ps (Z.to_nat j) = Some p /\ af_filename dflt p = n
              /\ (forall q, In q (firstn (Z.to_nat j) ps) -> af_filename dflt q <> n).
Proof.
  intros H. unfold getinfo.
  destruct (first_match_in dflt n ps 0 H) as (j & p & E). rewrite E. exists j, p. split; [reflexivity|].
  apply first_match_some in E as (_ & E2 & E3 & E4). rewrite Z.sub_0_r in E2, E4. auto.
Qed.

(* getinfo(name + "/") finds it too: the member stored as name/ when there is one, otherwise the first member name *)
Lemma getinfo_finds_slashed_plans dflt ps n :
  In n (getnames dflt ps) ->
  exists j p, getinfo dflt ps (n ++ [47]) = Some (j, p) /\ nth_error ps (Z.to_nat j) = Some p
              /\ (af_filename dflt p = n ++ [47]
                  \/ (~ In (n ++ [47]) (getnames dflt ps) /\ af_filename dflt p = n)).
Proof.
  intros H. unfold getinfo.
  destruct (first_match dflt (n ++ [47]) ps 0) as [[j p]|] eqn:E1.
  - exists j, p. split; [reflexivity|]. apply first_match_some in E1 as (_ & E2 & E3 & _).
    rewrite Z.sub_0_r in E2. auto.
  - rewrite remove_trailing_slash_app. apply first_match_none in E1.
    destruct (first_match_in dflt n ps 0 H) as (j & p & E). exists j, p. split; [exact E|].
    apply first_match_some in E as (_ & E2 & E3 & _). rewrite Z.sub_0_r in E2. auto.
Qed.

(* KeyError exactly when neither the name nor the name with one trailing slash removed is listed *)
Lemma getinfo_keyerror_iff_plans dflt ps n :
  getinfo dflt ps n = None <-> ~ In n (getnames dflt ps) /\ ~ In (remove_trailing_slash n) (getnames dflt ps).
Proof.
  unfold getinfo. destruct (first_match dflt n ps 0) as [r|] eqn:E.
  - split; [discriminate|]. intros [H _]. exfalso. apply H.
    destruct r as [j p]. apply first_match_some in E as (_ & E2 & E3 & _).
    unfold getnames, namelist. rewrite <- E3. apply in_map. eapply nth_error_In; eauto.
  - apply first_match_none in E. rewrite first_match_none. unfold getnames, namelist in *. tauto.
Qed.

(* whatever getinfo returns is a member whose name is the argument, or the argument without one trailing slash *)
Lemma getinfo_sound_plans dflt ps n j p :
  getinfo dflt ps n = Some (j, p) ->
  nth_error ps (Z.to_nat j) = Some p /\ (af_filename dflt p = n \/ af_filename dflt p = remove_trailing_slash n).
Proof.
  unfold getinfo. destruct (first_match dflt n ps 0) as [r|] eqn:E; intros H.
  - inversion H; subst. apply first_match_some in E as (_ & E2 & E3 & _). rewrite Z.sub_0_r in E2. auto.
  - apply first_match_some in H as (_ & E2 & E3 & _). rewrite Z.sub_0_r in E2. auto.
Qed.

Definition slash_plan : iplan := mkIPlan (Some [100; 47] (* d/ *)) 2 (-1) 0 0 None None (Some 16) 0 true false.

(* ---------- the assignment keeps order, names, attributes ---------- *)
(* the plan carries the entry's "emptystream" key and EmptyFile bit; its kind is Assign.entry_kind of them *)
Definition entry_plan_rel (e : fileent) (p : iplan) : Prop :=
  ip_name p = e_name e /\ ip_attr p = flat_opt (e_attr e) /\ ip_mtime p = flat_opt (e_mtime e)
  /\ (ip_emptystream p = e_emptystream e /\ ip_kind p = entry_kind e (ip_emptyfile p))
  /\ (e_emptystream e = true -> ip_size p = 0 /\ ip_crc p = None /\ ip_folder p = -1).

(* one step through the head `match` / `if` / `let` / bind of a hypothesis  ... = Ok _  (keeps the proof independent
   of the exact shape of assign_loop's body) *)
Ltac step_ok H :=
  match type of H with
  | (match ?x with _ => _ end) = Ok _ => let E := fresh "E" in destruct x eqn:E; try discriminate H
  end.

Lemma assign_loop_rel multi files :
  forall efl fid nums sizes dd dg folder outs input fstats nf ps,
  assign_loop multi files efl fid nums sizes dd dg folder outs input fstats nf = Ok ps ->
  Forall2 entry_plan_rel files ps.
Proof.
  induction files as [|e r IH]; intros efl fid nums sizes dd dg folder outs input fstats nf ps H; cbn [assign_loop] in H.
  - inversion H; constructor.
  - unfold bind in H. cbv zeta in H. repeat step_ok H.
    all: try match goal with E : (if ?c then _ else _) = Ok _ |- _ => destruct c end.
    all: inversion H; subst; (constructor; [|eapply IH; eauto]).
    all: unfold entry_plan_rel, entry_kind; simpl;
         match goal with E : e_emptystream _ = _ |- _ => rewrite E end; repeat split; discriminate.
Qed.

Lemma enumerate_rel (files : list fileent) : forall efl i,
  Forall2 entry_plan_rel files (nostream_plans files efl i).
Proof.
  induction files as [|e r IH]; intros efl i; cbn [nostream_plans]; constructor; [|apply IH].
  unfold entry_plan_rel; simpl. repeat split.
Qed.

(* the members of an opened archive are its header entries, in stored order *)
Lemma impl_plans_rel h ps :
  impl_plans h = Ok ps ->
  match h_files h with None => ps = [] | Some files => Forall2 entry_plan_rel files ps end.
Proof.
  unfold impl_plans. destruct (h_files h) as [files|]; [|intros H; now inversion H].
  intros H. unfold bind in H. repeat step_ok H.
  all: try (eapply assign_loop_rel; eassumption).
  inversion H; subst. apply enumerate_rel.
Qed.

Lemma Forall2_map_eq {A B C} (R : A -> B -> Prop) (f : A -> C) (g : B -> C) l1 l2 :
  Forall2 R l1 l2 -> (forall a b, R a b -> g b = f a) -> map g l2 = map f l1.
Proof. induction 1; intros HR; simpl; [reflexivity|]. f_equal; auto. Qed.

Lemma Forall2_nth_r {A B} (R : A -> B -> Prop) l1 l2 i b :
  Forall2 R l1 l2 -> nth_error l2 i = Some b -> exists a, nth_error l1 i = Some a /\ R a b.
Proof.
  intros H; revert i; induction H; intros [|i] Hn; simpl in *; try discriminate.
  - inversion Hn; subst. eauto.
  - eauto.
Qed.

Lemma Forall2_in_r {A B} (R : A -> B -> Prop) l1 l2 b :
  Forall2 R l1 l2 -> In b l2 -> exists a, In a l1 /\ R a b.
Proof.
  induction 1; intros Hin; simpl in *; [contradiction|]. destruct Hin as [<-|Hin]; [eauto|].
  destruct (IHForall2 Hin) as (a & Ha & HR). eauto.
Qed.

Definition entry_name (dflt : str) (e : fileent) : str := match e_name e with Some n => n | None => dflt end.

Lemma names_stored_order_plans dflt h ps files :
  impl_plans h = Ok ps -> h_files h = Some files -> namelist dflt ps = map (entry_name dflt) files.
Proof.
  intros H Hf. apply impl_plans_rel in H. rewrite Hf in H. unfold namelist.
  eapply Forall2_map_eq; [exact H|]. intros e p (Hn & _). unfold af_filename, entry_name. now rewrite Hn.
Qed.

(* ---------- directories ---------- *)
Lemma land_16 (v : Z) : Z.land v 16 = if Z.testbit v 4 then 16 else 0.
Proof.
  apply Z.bits_inj'. intros n Hn. rewrite Z.land_spec.
  replace (Z.testbit 16 n) with (4 =? n) by (symmetry; apply (Z.pow2_bits_eqb 4); lia).
  destruct (Z.eqb_spec 4 n) as [<-|Hne].
  - rewrite andb_true_r. destruct (Z.testbit v 4); [reflexivity | now rewrite Z.bits_0].
  - rewrite andb_false_r. destruct (Z.testbit v 4); [|now rewrite Z.bits_0].
    symmetry. replace (Z.testbit 16 n) with (4 =? n) by (symmetry; apply (Z.pow2_bits_eqb 4); lia).
    now apply Z.eqb_neq.
Qed.

Lemma is_directory_attr (e : fileent) (p : iplan) :
  ip_attr p = flat_opt (e_attr e) -> test_attribute p 16 = attr_is_dir (e_attr e).
Proof.
  unfold test_attribute, attr_is_dir. intros ->.
  destruct (e_attr e) as [[v|]|]; simpl; try reflexivity.
  rewrite land_16. destruct (Z.testbit v 4); reflexivity.
Qed.

Lemma entry_rel_directory e p : entry_plan_rel e p -> (af_is_directory p = true <-> ip_kind p = 2).
Proof.
  intros (_ & Ha & _ & (Hs & Hk) & _). unfold af_is_directory. rewrite (is_directory_attr e p Ha), Hs, Hk.
  unfold entry_kind.
  destruct (e_emptystream e); [destruct (ip_emptyfile p); simpl; split; (reflexivity || discriminate)|].
  destruct (attr_is_dir (e_attr e)); split; (reflexivity || discriminate).
Qed.
(* the flag of an entry without data is the negation of its EmptyFile bit, whatever its attributes *)
Lemma entry_rel_directory_emptystream e p : entry_plan_rel e p -> e_emptystream e = true ->
  af_is_directory p = negb (ip_emptyfile p).
Proof. intros (_ & _ & _ & (Hs & _) & _) He. unfold af_is_directory. rewrite Hs, He. reflexivity. Qed.

(* listing flag = kind decision of Assign.v = what extraction does *)
Lemma is_directory_iff_plans h ps p :
  impl_plans h = Ok ps -> In p ps ->
  (af_is_directory p = true <-> ip_kind p = 2)
  /\ (af_is_directory p = true <-> extract_action_path p = XDir)
  /\ (af_is_directory p = true -> extract_action_factory p = XSkip).
Proof.
  intros H Hin. apply impl_plans_rel in H. split; [|split].
  - destruct (h_files h) as [files|]; [|subst; contradiction].
    destruct (Forall2_in_r _ _ _ _ H Hin) as (e & _ & He). eapply entry_rel_directory; eauto.
  - unfold extract_action_path. destruct (af_is_directory p); [tauto|].
    destruct (af_is_socket p); [split; discriminate|]. destruct (af_is_symlink p || af_is_junction p); split; discriminate.
  - unfold extract_action_factory. now intros ->.
Qed.

(* the flag entry by entry: for an entry without data the negation of its EmptyFile bit (the format's rule; the
   attribute word, defined or not, has no say), for an entry with data the directory bit of its attributes *)
Lemma is_directory_per_entry h files ps i e p :
  impl_plans h = Ok ps -> h_files h = Some files -> nth_error files i = Some e -> nth_error ps i = Some p ->
  af_is_directory p = (if e_emptystream e then negb (ip_emptyfile p) else attr_is_dir (e_attr e))
  /\ (e_emptystream e = true -> (af_is_directory p = false <-> ip_kind p = 1)).
Proof.
  intros H Hf He Hp. apply impl_plans_rel in H. rewrite Hf in H.
  destruct (Forall2_nth_r _ _ _ _ _ H Hp) as (e' & He' & HR). rewrite He in He'. inversion He'; subst e'.
  destruct HR as (_ & Ha & _ & (Hs & Hk) & _). unfold af_is_directory. rewrite (is_directory_attr e p Ha), Hs.
  split; [reflexivity|]. intros Ee. rewrite Hk. unfold entry_kind. rewrite Ee.
  destruct (ip_emptyfile p); simpl; split; (reflexivity || discriminate).
Qed.

Lemma list_row_directory dflt ps i p row :
  nth_error ps i = Some p -> nth_error (list_model dflt ps) i = Some row ->
  fi_is_directory row = af_is_directory p /\ fi_uncompressed row = ip_size p /\ fi_crc32 row = ip_crc p
  /\ fi_filename row = af_filename dflt p.
Proof.
  intros Hp Hr. destruct (list_loop_rows dflt None ps i p Hp) as (row' & Hr' & H1 & H2 & H3 & H4 & _).
  unfold list_model in Hr. rewrite Hr in Hr'. inversion Hr'; subst. auto.
Qed.

(* ---------- sizes and CRCs ---------- *)
Lemma takeZ_length {A} (n : Z) (l : list A) : 0 <= n <= zlen l -> zlen (takeZ n l) = n.
Proof. intros H. unfold takeZ, zlen in *. rewrite firstn_length. lia. Qed.
Lemma dropZ_length {A} (n : Z) (l : list A) : 0 <= n <= zlen l -> zlen (dropZ n l) = zlen l - n.
Proof. intros H. unfold dropZ, zlen in *. rewrite skipn_length. lia. Qed.

(* the bytes a member receives have exactly the listed length whenever its folder decodes to at
   least offset + size bytes *)
Lemma listed_size_truthful_plans (D : bytes) (p : iplan) :
  0 <= ip_offset p -> 0 <= ip_size p -> ip_offset p + ip_size p <= zlen D ->
  zlen (member_bytes D p) = af_uncompressed p.
Proof.
  intros H1 H2 H3. unfold member_bytes, af_uncompressed.
  apply takeZ_length. rewrite dropZ_length by lia. lia.
Qed.

(* a member whose bytes passed the reader's CRC test is listed with the CRC32 of exactly those bytes *)
Lemma listed_crc_truthful_plans (p : iplan) (d : bytes) (c : Z) :
  af_crc32 p = Some c -> crc_check p d = true -> c = crc32 d.
Proof. unfold crc_check. intros ->. intros H. apply Z.eqb_eq in H. now symmetry. Qed.

Lemma listed_crc_range (p : iplan) (d : bytes) (c : Z) :
  af_crc32 p = Some c -> crc_check p d = true -> 0 <= c < 2 ^ 32.
Proof.
  intros H1 H2. rewrite (listed_crc_truthful_plans p d c H1 H2). unfold crc32.
  apply crc32_update_range. lia.
Qed.

(* a folder-level CRC of a folder with one file is the file's CRC by the format (Spec.s_merge_crcs); SubStreamsInfo has
   no CRC record when every sub-stream CRC is known from its folder.  Since the repair of SubstreamsInfo._read (the
   folder CRC is passed on in that case too) the member is listed with it.  Former refutation witness, now a regression
   example: one member "a" = "abc" (COPY), CRC 891568578 stored at folder level, raw header. *)
Definition folder_crc_bytes : bytes :=
  [1; 4; 6; 0; 1; 9; 3; 0; 7; 11; 1; 0; 1; 1; 0; 12; 3; 10; 1; 194; 65; 36; 53; 0; 8; 0; 0; 5; 1; 17; 5; 0; 97; 0; 0; 0;
   21; 6; 1; 0; 32; 0; 0; 0; 0; 0].
Lemma listed_crc_folder_level_header :
  match s_header 4096 folder_crc_bytes, parse_header 4096 folder_crc_bytes with
  | Ok sh, Ok h => s_valid sh = true /\ map pl_crc (spec_plans sh) = [Some 891568578]
                   /\ exists ps, impl_plans h = Ok ps /\ map af_crc32 ps = [Some 891568578] /\ map af_uncompressed ps = [3]
  | _, _ => False
  end.
Proof. vm_compute. split; [reflexivity|]. split; [reflexivity|]. eexists. repeat split. Qed.

(* ---------- against the specification reader (Spec.v) ---------- *)
Lemma plans_agree_Forall2 ss : forall i ps,
  plans_agree i ss ps = true -> Forall2 (fun s p => exists j, plan_agrees j s p = true) ss ps.
Proof.
  induction ss as [|s sr IH]; intros i [|p pr] H; simpl in H; try discriminate; constructor.
  - apply andb_true_iff in H as [H _]. eauto.
  - apply andb_true_iff in H as [_ H]. eauto.
Qed.

Definition oeqb (a b : option Z) : bool :=
  match a, b with Some x, Some y => x =? y | None, None => true | _, _ => false end.
Lemma oeqb_eq a b : oeqb a b = true -> a = b.
Proof. destruct a, b; simpl; intros H; try discriminate; [apply Z.eqb_eq in H; now subst | reflexivity]. Qed.

Lemma plan_agrees_fields j s p :
  plan_agrees j s p = true ->
  pl_name s = ip_name p /\ pl_kind s = ip_kind p /\ pl_attr s = ip_attr p /\ pl_mtime s = ip_mtime p
  /\ (pl_kind s = 0 -> pl_size s = ip_size p /\ pl_crc s = ip_crc p /\ pl_folder s = ip_folder p /\ pl_offset s = ip_offset p).
Proof.
  unfold plan_agrees. intros H.
  apply andb_true_iff in H as [H Hid].
  apply andb_true_iff in H as [H Hattr].
  apply andb_true_iff in H as [H Hmt].
  apply andb_true_iff in H as [H Hdata].
  apply andb_true_iff in H as [Hname Hkind].
  change (match pl_name s with
          | Some a => match ip_name p with Some b => str_eqb a b | None => false end
          | None => match ip_name p with Some _ => false | None => true end end = true) in Hname.
  split; [|split; [|split; [|split]]].
  - destruct (pl_name s), (ip_name p); try discriminate; [apply str_eqb_eq in Hname; now subst | reflexivity].
  - now apply Z.eqb_eq.
  - now apply (oeqb_eq (pl_attr s) (ip_attr p)).
  - now apply (oeqb_eq (pl_mtime s) (ip_mtime p)).
  - intros Hk. rewrite Hk in Hdata. simpl in Hdata.
    apply andb_true_iff in Hdata as [Hdata Hcrc].
    apply andb_true_iff in Hdata as [Hdata Hsize].
    apply andb_true_iff in Hdata as [Hfo Hoff].
    repeat split; [now apply Z.eqb_eq | now apply (oeqb_eq (pl_crc s) (ip_crc p)) | now apply Z.eqb_eq | now apply Z.eqb_eq].
Qed.

Lemma Forall2_nth {A B} (R : A -> B -> Prop) l1 l2 i a b :
  Forall2 R l1 l2 -> nth_error l1 i = Some a -> nth_error l2 i = Some b -> R a b.
Proof.
  intros H; revert i; induction H; intros [|i] Ha Hb; simpl in *; try discriminate.
  - inversion Ha; inversion Hb; subst; assumption.
  - eauto.
Qed.

(* relative to conformance of the assignment (`plans_agree`, the statement of C06's assign_conforms):
   the listing of a data member shows the size and the stored CRC the FORMAT assigns to that entry, the
   name the format stores, and the directory flag is the format's kind *)
Lemma listing_conforms_plans dflt h ps ss i s p :
  impl_plans h = Ok ps -> plans_agree 0 ss ps = true ->
  nth_error ss i = Some s -> nth_error ps i = Some p ->
  (pl_kind s = 0 -> af_uncompressed p = pl_size s /\ af_crc32 p = pl_crc s)
  /\ af_filename dflt p = match pl_name s with Some n => n | None => dflt end
  /\ (af_is_directory p = true <-> pl_kind s = 2).
Proof.
  intros Hi Hag Hs Hp. apply plans_agree_Forall2 in Hag.
  destruct (Forall2_nth _ _ _ _ _ _ Hag Hs Hp) as (j & Hj).
  apply plan_agrees_fields in Hj as (Hn & Hk & _ & _ & Hd).
  split; [|split].
  - intros H0. destruct (Hd H0) as (H1 & H2 & _). unfold af_uncompressed, af_crc32. now rewrite H1, H2.
  - unfold af_filename. now rewrite Hn.
  - rewrite Hk. apply (is_directory_iff_plans h ps p Hi). eapply nth_error_In; eauto.
Qed.

(* ---------- method names ---------- *)
Lemma in_existsb_str (x : str) (l : list str) : existsb (str_eqb x) l = true <-> In x l.
Proof.
  rewrite existsb_exists. split.
  - intros (y & Hy & E). apply str_eqb_eq in E. now subst.
  - intros H. exists x. split; [exact H | apply str_eqb_refl].
Qed.

Lemma collected_names_in (n : str) (cl : list (list coder)) :
  In n (collected_names cl) <-> exists cs c, In cs cl /\ In c cs /\ In n (coder_names c).
Proof.
  unfold collected_names. rewrite in_flat_map. split.
  - intros (cs & Hcs & H). apply in_flat_map in H as (c & Hc & Hn). eauto.
  - intros (cs & c & Hcs & Hc & Hn). exists cs. split; [exact Hcs|]. apply in_flat_map. eauto.
Qed.

(* what archiveinfo().method_names contains: the names of the display list for which some coder of some folder
   carries a method of that name *)
Lemma method_names_char (cl : list (list coder)) (n : str) :
  In n (get_methods_names cl) <->
  In n methods_namelist /\ exists cs c, In cs cl /\ In c cs /\ In n (coder_names c).
Proof.
  unfold get_methods_names. rewrite filter_In, in_existsb_str, collected_names_in. tauto.
Qed.

Lemma filter_NoDup {A} (f : A -> bool) (l : list A) : NoDup l -> NoDup (filter f l).
Proof.
  induction 1 as [|x l Hx Hl IH]; simpl; [constructor|].
  destruct (f x); [constructor; [rewrite filter_In; tauto | exact IH] | exact IH].
Qed.

Fixpoint nodupb (l : list str) : bool :=
  match l with [] => true | x :: r => negb (existsb (str_eqb x) r) && nodupb r end.
Lemma nodupb_NoDup l : nodupb l = true -> NoDup l.
Proof.
  induction l as [|x r IH]; simpl; intros H; constructor.
  - apply andb_true_iff in H as [H _]. intros Hin. apply in_existsb_str in Hin. rewrite Hin in H. discriminate.
  - apply andb_true_iff in H as [_ H]. auto.
Qed.

(* in display order, without repetitions *)
Lemma method_names_display_order (cl : list (list coder)) :
  NoDup (get_methods_names cl) /\
  exists keep, get_methods_names cl = filter keep methods_namelist.
Proof.
  split; [|eexists; reflexivity].
  apply filter_NoDup. apply nodupb_NoDup. vm_compute. reflexivity.
Qed.

(* every name of the method table is in the display list *)
Lemma table_names_displayed :
  forallb (fun m => existsb (str_eqb (m_name m)) methods_namelist) supported_methods = true.
Proof. vm_compute. reflexivity. Qed.

Lemma coder_names_supported (c : coder) (m : method) :
  In m supported_methods -> c_method c = m_id m -> In (m_name m) (coder_names c).
Proof.
  intros Hm Hc. unfold coder_names. apply in_or_app. left. apply in_map. apply filter_In. split; [exact Hm|].
  rewrite Hc. apply str_eqb_refl.
Qed.

(* every supported coder present in some folder is named *)
Lemma method_names_complete_all (cl : list (list coder)) cs c m :
  In cs cl -> In c cs -> In m supported_methods -> c_method c = m_id m ->
  In (m_name m) (get_methods_names cl).
Proof.
  intros Hcs Hc Hm Hid. apply method_names_char. split.
  - pose proof table_names_displayed as T. rewrite forallb_forall in T. apply in_existsb_str. now apply T.
  - exists cs, c. repeat split; auto. now apply coder_names_supported.
Qed.

Definition delta_coder : coder := mkCoder [3] 1 1 (Some [0]).
Definition brotli_coder : coder := mkCoder [4; 247; 17; 2] 1 1 (Some [1; 0; 5]).
Lemma method_names_delta_brotli :
  get_methods_names [[delta_coder; mkCoder [33] 1 1 (Some [24])]; [brotli_coder]]
  = [[76; 90; 77; 65; 50] (* LZMA2 *); [68; 69; 76; 84; 65] (* DELTA *); [66; 114; 111; 116; 108; 105] (* Brotli *)].
Proof. vm_compute. reflexivity. Qed.

(* ---------- needs_password ---------- *)
(* over the method table: the filter id found for a method id names a crypto method exactly for 7zAES *)
Definition table_crypto_ok : bool :=
  forallb (fun m => match is_crypto_id (m_filter m) with
                    | Ok b => Bool.eqb b (str_eqb (m_id m) AES_ID)
                    | Err _ => false end) supported_methods.
Lemma table_crypto_ok_true : table_crypto_ok = true.
Proof. vm_compute. reflexivity. Qed.

Lemma coder_crypto (c : coder) :
  match get_filter_id c with
  | None => c_method c <> AES_ID
  | Some fid => exists b, is_crypto_id fid = Ok b /\ (b = true <-> c_method c = AES_ID)
  end.
Proof.
  unfold get_filter_id.
  destruct (find (fun m => str_eqb (m_id m) (c_method c)) supported_methods) as [m|] eqn:E.
  - apply find_some in E as [Hin Heq]. apply str_eqb_eq in Heq.
    pose proof table_crypto_ok_true as T. unfold table_crypto_ok in T. rewrite forallb_forall in T.
    specialize (T m Hin). destruct (is_crypto_id (m_filter m)) as [b|]; [|discriminate].
    exists b. split; [reflexivity|]. apply Bool.eqb_prop in T. rewrite T, <- Heq. apply str_eqb_eq.
  - intros Hc. pose proof (find_none _ _ E (mkMethod AES_ID [55; 122; 65; 69; 83] (* 7zAES *) 116459265 2)) as Hn.
    simpl in Hn. rewrite Hc in Hn.
    assert (Hin : In (mkMethod AES_ID [55; 122; 65; 69; 83] (* 7zAES *) 116459265 2) supported_methods)
      by (unfold supported_methods; repeat (try (left; reflexivity); right)).
    specialize (Hn Hin). vm_compute in Hn. discriminate.
Qed.

Lemma coders_need_password_char (cs : list coder) :
  exists b, coders_need_password cs = Ok b /\ (b = true <-> exists c, In c cs /\ c_method c = AES_ID).
Proof.
  induction cs as [|c r (b & Hb & IH)]; simpl.
  - exists false. split; [reflexivity|]. split; [discriminate | intros (c & [] & _)].
  - pose proof (coder_crypto c) as Hc. destruct (get_filter_id c) as [fid|].
    + destruct Hc as (b0 & H0 & Hiff). rewrite H0. simpl. destruct b0.
      * exists true. split; [reflexivity|]. split; [|reflexivity]. intros _. exists c. split; [now left | now apply Hiff].
      * exists b. split; [exact Hb|]. rewrite IH. split.
        -- intros (c' & Hin & E). exists c'. split; [now right | exact E].
        -- intros (c' & [<-|Hin] & E); [apply Hiff in E; discriminate | eauto].
    + exists b. split; [exact Hb|]. rewrite IH. split.
      * intros (c' & Hin & E). exists c'. split; [now right | exact E].
      * intros (c' & [<-|Hin] & E); [contradiction | eauto].
Qed.

Lemma map_res_need_password (cl : list (list coder)) :
  exists bs, map_res coders_need_password cl = Ok bs /\
             (existsb (fun b => b) bs = true <-> exists cs c, In cs cl /\ In c cs /\ c_method c = AES_ID).
Proof.
  induction cl as [|cs r (bs & Hbs & IH)]; simpl.
  - exists []. split; [reflexivity|]. split; [discriminate | intros (cs & c & [] & _)].
  - destruct (coders_need_password_char cs) as (b & Hb & Hiff). rewrite Hb. simpl. rewrite Hbs. simpl.
    exists (b :: bs). split; [reflexivity|]. simpl. rewrite orb_true_iff, Hiff, IH. split.
    + intros [(c & Hc & E)|(cs' & c & Hcs & Hc & E)]; [exists cs, c | exists cs', c]; auto.
    + intros (cs' & c & [<-|Hcs] & Hc & E); [left | right]; eauto.
Qed.

(* the folders of an archive (none when it has no main streams) *)
Definition folders_of (h : header) : list folder :=
  match h_streams h with Some st => match si_folders st with Some fs => fs | None => [] end | None => [] end.
Definition has_aes_coder (h : header) : Prop :=
  exists f c, In f (folders_of h) /\ In c (f_coders f) /\ c_method c = AES_ID.

Lemma needs_password_iff_header (pw : bool) (h : header) (b : bool) :
  h_files h <> None -> needs_password pw h = Ok b -> (b = true <-> pw = true \/ has_aes_coder h).
Proof.
  unfold needs_password, has_aes_coder, folders_of. intros Hf H.
  destruct (impl_plans h) as [ps|]; simpl in H; [|discriminate].
  destruct (h_files h) as [files|]; [|contradiction].
  destruct pw; [inversion H; tauto|].
  destruct (h_streams h) as [st|].
  - destruct (si_folders st) as [folders|]; [|discriminate].
    destruct (map_res_need_password (map f_coders folders)) as (bs & Hbs & Hiff). rewrite Hbs in H. simpl in H.
    inversion H; subst. rewrite Hiff. split.
    + intros (cs & c & Hcs & Hc & E). right. apply in_map_iff in Hcs as (f & <- & Hfin). eauto.
    + intros [Hd|(f & c & Hfin & Hc & E)]; [discriminate|]. exists (f_coders f), c. split; [now apply in_map | auto].
  - inversion H; subst. split; [discriminate|]. intros [Hd|(f & c & [] & _)]. discriminate.
Qed.

(* an opened archive always has an answer *)
Lemma needs_password_total (pw : bool) (h : header) ps :
  impl_plans h = Ok ps -> exists b, needs_password pw h = Ok b.
Proof.
  unfold needs_password. intros Hi. rewrite Hi. simpl.
  destruct (h_files h) as [files|] eqn:Hf; [|eauto]. destruct pw; [eauto|].
  destruct (h_streams h) as [st|] eqn:Hs; [|eauto].
  destruct (si_folders st) as [folders|] eqn:Hfo.
  - destruct (map_res_need_password (map f_coders folders)) as (bs & Hbs & _). rewrite Hbs. simpl. eauto.
  - exfalso. unfold impl_plans in Hi. rewrite Hf, Hs, Hfo in Hi. discriminate.
Qed.

(* ---------- archiveinfo ---------- *)
(* sub-streams per folder: one each when SubStreamsInfo is absent *)
Definition nums_of (st : streamsinfo) (folders : list folder) : list Z :=
  match si_sub st with Some sub => s_nums sub | None => repeat 1 (length folders) end.

Lemma archiveinfo_agrees_header (hn : bool) (h : header) (a : ainfo) :
  archiveinfo hn h = Ok a ->
  exists ps,
    impl_plans h = Ok ps /\ ai_uncompressed a = sumZ (map ip_size ps)
    /\ match h_streams h with
       | None => ai_blocks a = 0 /\ ai_solid a = false /\ ai_method_names a = []
       | Some st =>
           exists folders,
             si_folders st = Some folders
             /\ ai_blocks a = zlen folders
             /\ (ai_solid a = true <-> exists n, In n (nums_of st folders) /\ 1 < n)
             /\ ai_method_names a = get_methods_names (map f_coders folders)
       end.
Proof.
  unfold archiveinfo. intros H.
  destruct (impl_plans h) as [ps|] eqn:Ei; simpl in H; [|discriminate].
  destruct hn; simpl in H; [|discriminate].
  exists ps. split; [reflexivity|].
  destruct (h_streams h) as [st|] eqn:Es.
  - destruct (si_folders st) as [folders|] eqn:Efo; [|discriminate].
    inversion H; subst; clear H. simpl. split; [reflexivity|].
    exists folders. split; [reflexivity|]. split; [reflexivity|]. split; [|reflexivity].
    unfold nums_of. destruct (si_sub st) as [sub|] eqn:Esu.
    + split.
      * intros He. apply existsb_exists in He as (n & Hn & Hlt). exists n. split; [exact Hn | lia].
      * intros (n & Hn & Hlt). apply existsb_exists. exists n. split; [exact Hn | lia].
    + split; [discriminate|]. intros (n & Hn & Hlt). apply repeat_spec in Hn. lia.
  - inversion H; subst; clear H. simpl. repeat split.
Qed.

(* archiveinfo() answers for every archive opened by path -- members or not, main streams or not, SubStreamsInfo or
   not -- as long as main streams, when present, carry folders *)
Lemma archiveinfo_total_header (h : header) ps :
  impl_plans h = Ok ps ->
  (forall st, h_streams h = Some st -> si_folders st <> None) ->
  exists a, archiveinfo true h = Ok a.
Proof.
  intros Hi Hsub. unfold archiveinfo. rewrite Hi. simpl.
  destruct (h_streams h) as [st|] eqn:Hs; [|eauto].
  pose proof (Hsub st eq_refl) as Hf.
  destruct (si_folders st) as [folders|]; [eauto|contradiction].
Qed.

(* a header without SubStreamsInfo: two folders, one member each, a directory between them *)
Definition nosub_header : header :=
  mkHeader (Some (mkStreams (Some (mkPack 0 2 [3; 5] [] []))
                            (Some [mkFolder [mkCoder [0] 1 1 None] [] [0] [3] true (Some 11);
                                   mkFolder [mkCoder [0] 1 1 None] [] [0] [5] false None])
                            None))
           (Some [mkFile false (Some [97]) None None None (Some (Some 32));
                  mkFile true (Some [100]) None None None (Some (Some 16));
                  mkFile false (Some [98]) None None None (Some (Some 32))]) [false].
Lemma archiveinfo_nosub_header :
  (exists ps, impl_plans nosub_header = Ok ps /\
     map (fun p => (af_uncompressed p, ip_crc p)) ps = [(3, Some 11); (0, None); (5, None)])
  /\ archiveinfo true nosub_header = Ok (mkAinfo [[67; 79; 80; 89]] false 2 8)
  /\ archiveinfo true (install_sub nosub_header) = archiveinfo true nosub_header.
Proof. split; [eexists; split; vm_compute; reflexivity|]. split; vm_compute; reflexivity. Qed.

(* the empty archive and an archive of directories / empty files stored without main streams *)
Definition empty_header : header := mkHeader None None [].
Definition nostreams_header : header :=
  mkHeader None (Some [mkFile true (Some [100] (* d *)) None None None (Some (Some 16));
                       mkFile true (Some [101] (* e *)) None None None (Some (Some 32))]) [false; true].
Lemma archiveinfo_empty_header :
  parse_header 100 [] = Ok empty_header /\ parse_header 100 [1; 0] = Ok empty_header
  /\ impl_plans empty_header = Ok [] /\ archiveinfo true empty_header = Ok (mkAinfo [] false 0 0).
Proof. vm_compute. repeat split. Qed.
Lemma archiveinfo_nostreams_header :
  (exists ps, impl_plans nostreams_header = Ok ps /\ map (af_filename []) ps = [[100]; [101]])
  /\ archiveinfo true nostreams_header = Ok (mkAinfo [] false 0 0).
Proof. split; [eexists; split; vm_compute; reflexivity | vm_compute; reflexivity]. Qed.

(* opened from a stream without a name: `assert fname is not None` *)
Lemma archiveinfo_stream_header (h : header) : exists e, archiveinfo false h = Err e.
Proof. unfold archiveinfo. destruct (impl_plans h) as [ps|e]; simpl; eauto. Qed.


(* ================================================================== *)
(* Header-level statements (what props/C10.v exports)                  *)
(* ================================================================== *)
Lemma names_agree_header dflt h ps :
  impl_plans h = Ok ps ->
  getnames dflt ps = namelist dflt ps /\ list_names dflt ps = namelist dflt ps /\ files_names dflt ps = namelist dflt ps
  /\ (forall files, h_files h = Some files -> namelist dflt ps = map (entry_name dflt) files)
  /\ (h_files h = None -> namelist dflt ps = []).
Proof.
  intros H. destruct (names_agree_plans dflt ps) as (H1 & H2 & H3). repeat split; auto.
  - intros files Hf. eapply names_stored_order_plans; eauto.
  - intros Hf. apply impl_plans_rel in H. rewrite Hf in H. now subst.
Qed.

(* the listed size / CRC / flag of the i-th member, in every interface, is that of the i-th plan *)
Lemma listing_rows_header dflt h ps i p :
  impl_plans h = Ok ps -> nth_error ps i = Some p ->
  exists row, nth_error (list_model dflt ps) i = Some row
              /\ fi_filename row = af_filename dflt p /\ fi_uncompressed row = ip_size p /\ fi_crc32 row = ip_crc p
              /\ fi_is_directory row = af_is_directory p.
Proof.
  intros _ Hp. destruct (list_loop_rows dflt None ps i p Hp) as (row & Hr & H1 & H2 & H3 & H4 & _).
  exists row. repeat split; assumption.
Qed.

Lemma getinfo_total_header dflt h ps n :
  impl_plans h = Ok ps -> In n (getnames dflt ps) ->
  (exists j p, getinfo dflt ps n = Some (j, p) /\ nth_error ps (Z.to_nat j) = Some p /\ af_filename dflt p = n
               /\ (forall q, In q (firstn (Z.to_nat j) ps) -> af_filename dflt q <> n))
  /\ (exists j p, getinfo dflt ps (n ++ [47]) = Some (j, p) /\ nth_error ps (Z.to_nat j) = Some p
                  /\ (af_filename dflt p = n ++ [47]
                      \/ (~ In (n ++ [47]) (getnames dflt ps) /\ af_filename dflt p = n))).
Proof. intros _ H. split; [now apply getinfo_finds_plans | now apply getinfo_finds_slashed_plans]. Qed.

Lemma getinfo_slash_name_header :
  exists ps, impl_plans (mkHeader None (Some [mkFile true (Some [100; 47]) None None None (Some (Some 16))]) [false]) = Ok ps
             /\ option_map fst (getinfo [] ps [100; 47]) = Some 0 /\ option_map fst (getinfo [] ps [100; 47; 47]) = Some 0
             /\ getinfo [] ps [100] = None.
Proof. eexists. split; [vm_compute; reflexivity|]. repeat split. Qed.

