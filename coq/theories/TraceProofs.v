(* TraceProofs.v -- proofs about the crash model of Trace.v (C14). stdlib only; no axioms. *)
From P7 Require Import Prelude PyPrims Crc32 Header Trace.
From Coq Require Import ZifyBool NArith.
Open Scope Z_scope.

(* ------------------------------------------------------------------ *)
(* lists                                                               *)
(* ------------------------------------------------------------------ *)
Lemma zeros_length n : length (zeros n) = n.
Proof. unfold zeros. induction n as [|n IH]; simpl; [reflexivity | now rewrite IH]. Qed.

Lemma skipn_skipn_add {A} (a b : nat) (l : list A) : skipn a (skipn b l) = skipn (b + a) l.
Proof.
  revert l. induction b as [|b IH]; intros l; [reflexivity|].
  destruct l as [|x l]; [now rewrite !skipn_nil | simpl; apply IH].
Qed.

Lemma firstn_app_le {A} (n : nat) (a b : list A) : (n <= length a)%nat -> firstn n (a ++ b) = firstn n a.
Proof.
  intros H. rewrite firstn_app. replace (n - length a)%nat with O by lia.
  now rewrite firstn_O, app_nil_r.
Qed.

Lemma firstn_app_ge {A} (n : nat) (a b : list A) : (length a <= n)%nat ->
  firstn n (a ++ b) = a ++ firstn (n - length a) b.
Proof. intros H. rewrite firstn_app. now rewrite firstn_all2 by exact H. Qed.

Lemma skipn_app_le {A} (n : nat) (a b : list A) : (n <= length a)%nat -> skipn n (a ++ b) = skipn n a ++ b.
Proof.
  intros H. rewrite skipn_app. replace (n - length a)%nat with O by lia. reflexivity.
Qed.

Lemma skipn_app_ge {A} (n : nat) (a b : list A) : (length a <= n)%nat ->
  skipn n (a ++ b) = skipn (n - length a) b.
Proof. intros H. rewrite skipn_app. now rewrite skipn_all2 by exact H. Qed.

(* ------------------------------------------------------------------ *)
(* write_at                                                            *)
(* ------------------------------------------------------------------ *)
Lemma write_at_nil img pos : write_at img pos [] = img.
Proof. reflexivity. Qed.

Lemma write_at_in img pos d : (pos <= length img)%nat ->
  write_at img pos d = firstn pos img ++ d ++ skipn (pos + length d) img.
Proof.
  intros H. destruct d as [|x d].
  - cbn [write_at app length]. now rewrite Nat.add_0_r, firstn_skipn.
  - unfold write_at. replace (pos - length img)%nat with O by lia. reflexivity.
Qed.

Lemma write_at_length img pos d : (pos <= length img)%nat ->
  length (write_at img pos d) = Nat.max (length img) (pos + length d).
Proof.
  intros H. rewrite write_at_in by exact H.
  rewrite !app_length, firstn_length, skipn_length. lia.
Qed.

Lemma write_at_length_ge img pos d : (pos <= length img)%nat -> (length img <= length (write_at img pos d))%nat.
Proof. intros H. rewrite write_at_length by exact H. lia. Qed.

Lemma write_at_app img pos a b : (pos <= length img)%nat ->
  write_at (write_at img pos a) (pos + length a) b = write_at img pos (a ++ b).
Proof.
  intros H.
  assert (HL : (pos + length a <= length (write_at img pos a))%nat)
    by (rewrite write_at_length by exact H; lia).
  rewrite (write_at_in _ _ b HL).
  rewrite (write_at_in img pos a H), (write_at_in img pos (a ++ b) H).
  assert (Hf : length (firstn pos img) = pos) by (rewrite firstn_length; lia).
  rewrite (app_assoc (firstn pos img) a).
  rewrite firstn_app_ge by (rewrite app_length, Hf; lia).
  rewrite app_length, Hf.
  replace (pos + length a - (pos + length a))%nat with O by lia. rewrite firstn_O, app_nil_r.
  rewrite skipn_app_ge by (rewrite app_length, Hf; lia).
  rewrite app_length, Hf.
  replace (pos + length a + length b - (pos + length a))%nat with (length b) by lia.
  rewrite skipn_skipn_add.
  rewrite app_length, <- !app_assoc.
  now rewrite Nat.add_assoc.
Qed.

Lemma write_at_0_app a rest d : length d = length a -> write_at (a ++ rest) 0 d = d ++ rest.
Proof.
  intros H. rewrite write_at_in by lia. cbn [firstn app Nat.add].
  rewrite H, skipn_app_exact. reflexivity.
Qed.

(* writing at or beyond [n] leaves the first n bytes alone *)
Lemma write_at_firstn_keep img pos d n : (n <= pos)%nat -> (pos <= length img)%nat ->
  firstn n (write_at img pos d) = firstn n img.
Proof.
  intros Hn H. rewrite write_at_in by exact H.
  rewrite firstn_app_le by (rewrite firstn_length; lia).
  rewrite firstn_firstn. f_equal. lia.
Qed.

(* ------------------------------------------------------------------ *)
(* run over consecutive writes                                         *)
(* ------------------------------------------------------------------ *)
Lemma run_app t1 t2 st : run (t1 ++ t2) st = run t2 (run t1 st).
Proof. unfold run. apply fold_left_app. Qed.

Lemma run_writes chunks img pos : (pos <= length img)%nat ->
  run (map Write chunks) (img, pos) = (write_at img pos (concat chunks), (pos + length (concat chunks))%nat).
Proof.
  revert img pos. unfold run.
  assert (G : forall (cs : list bytes) acc img pos, (pos <= length img)%nat ->
    fold_left apply_op (map Write cs) (write_at img pos acc, (pos + length acc)%nat) =
    (write_at img pos (acc ++ concat cs), (pos + length (acc ++ concat cs))%nat)).
  { induction cs as [|c r IH]; intros acc img pos H.
    - cbn [map fold_left concat]. now rewrite app_nil_r.
    - cbn [map fold_left concat apply_op fst snd].
      rewrite write_at_app by exact H.
      replace (pos + length acc + length c)%nat with (pos + length (acc ++ c))%nat by (rewrite app_length; lia).
      rewrite IH by exact H. now rewrite <- app_assoc. }
  intros img pos H. specialize (G chunks [] img pos H).
  cbn [write_at length app] in G. rewrite Nat.add_0_r in G. exact G.
Qed.

(* every crash point inside a run of consecutive writes leaves a prefix of their concatenation *)
Lemma image_from_writes (chunks : list bytes) img pos k j : (pos <= length img)%nat ->
  exists t, (t <= length (concat chunks))%nat /\
    image_from (img, pos) (map Write chunks) k j = write_at img pos (firstn t (concat chunks)).
Proof.
  intros H.
  destruct (nth_error chunks k) as [d|] eqn:E.
  - apply nth_error_split in E. destruct E as [l1 [l2 [E1 E2]]]. subst chunks k.
    unfold image_from.
    rewrite map_app. cbn [map].
    replace (length l1) with (length (map Write l1)) by apply map_length.
    rewrite firstn_app_exact.
    rewrite nth_error_app2 by lia. rewrite Nat.sub_diag. cbn [nth_error].
    rewrite run_writes by exact H. cbn [fst snd].
    rewrite write_at_app by exact H.
    exists (length (concat l1) + Nat.min j (length d))%nat.
    rewrite concat_app. cbn [concat].
    split.
    + rewrite !app_length. lia.
    + f_equal. rewrite firstn_app_ge by lia.
      f_equal. replace (length (concat l1) + Nat.min j (length d) - length (concat l1))%nat
        with (Nat.min j (length d)) by lia.
      rewrite firstn_app_le by lia.
      destruct (Nat.le_ge_cases j (length d)) as [L|L].
      * now rewrite Nat.min_l by exact L.
      * rewrite Nat.min_r by exact L. now rewrite !firstn_all2 by lia.
  - apply nth_error_None in E.
    unfold image_from.
    assert (E' : nth_error (map Write chunks) k = None)
      by (apply nth_error_None; rewrite map_length; exact E).
    rewrite E'.
    rewrite firstn_all2 by (rewrite map_length; exact E).
    rewrite run_writes by exact H. cbn [fst].
    exists (length (concat chunks)). split; [lia|]. now rewrite firstn_all.
Qed.

(* one segment (seek + consecutive writes) followed by more trace *)
Lemma image_from_seg s rest st k j : (fst s <= length (fst st))%nat ->
  (exists t, (t <= length (concat (snd s)))%nat /\
     image_from st (seg_trace s ++ rest) k j = write_at (fst st) (fst s) (firstn t (concat (snd s))))
  \/ (exists k', image_from st (seg_trace s ++ rest) k j =
       image_from (write_at (fst st) (fst s) (concat (snd s)), (fst s + length (concat (snd s)))%nat) rest k' j).
Proof.
  destruct s as [pos chunks]. destruct st as [img cur]. cbn [fst snd]. intros H.
  unfold seg_trace. cbn [fst snd].
  destruct k as [|k1].
  - left. exists O. split; [lia|]. reflexivity.
  - destruct (Nat.lt_ge_cases k1 (length chunks)) as [L|L].
    + left.
      destruct (image_from_writes chunks img pos k1 j H) as [t [Ht E]].
      exists t. split; [exact Ht|]. rewrite <- E.
      unfold image_from. cbn [app firstn nth_error run fold_left apply_op fst snd].
      rewrite firstn_app_le by (rewrite map_length; apply Nat.lt_le_incl; exact L).
      rewrite nth_error_app1 by (rewrite map_length; exact L). reflexivity.
    + right. exists (k1 - length chunks)%nat.
      unfold image_from. cbn [app firstn nth_error run fold_left apply_op fst snd].
      rewrite firstn_app_ge by (rewrite map_length; exact L).
      rewrite nth_error_app2 by (rewrite map_length; exact L).
      rewrite map_length.
      fold (run (map Write chunks ++ firstn (k1 - length chunks) rest) (img, pos)).
      rewrite run_app, run_writes by exact H. reflexivity.
Qed.

Lemma image_from_nil st k j : image_from st [] k j = fst st.
Proof. unfold image_from. destruct k; reflexivity. Qed.

Lemma run_seg s st : (fst s <= length (fst st))%nat ->
  run (seg_trace s) st = (write_at (fst st) (fst s) (concat (snd s)), (fst s + length (concat (snd s)))%nat).
Proof.
  intros H. destruct s as [pos chunks]. destruct st as [img cur]. unfold seg_trace. cbn [fst snd] in *.
  change (run (Seek pos :: map Write chunks) (img, cur)) with (run (map Write chunks) (img, pos)).
  now apply run_writes.
Qed.

(* ------------------------------------------------------------------ *)
(* CRC facts used below                                                *)
(* ------------------------------------------------------------------ *)
Lemma crc32_range d : 0 <= crc32 d < 2 ^ 32.
Proof. unfold crc32. apply crc32_update_range. lia. Qed.

(* no string of at most three bytes has CRC-32 equal to 4: the value the placeholder
   declares for its 3-byte "next header" can not be met *)
Lemma crc32_short_ne4 b : (length b <= 3)%nat -> crc32 b <> 4.
Proof.
  intros L E. unfold crc32, crc32_update in E.
  change (N.lxor (Z.to_N 0) 4294967295) with 4294967295%N in E.
  assert (R : crc_raw 4294967295%N b = 4294967291%N).
  { change 4 with (Z.of_N 4%N) in E. apply N2Z.inj in E.
    apply (lxor_cancel_r _ _ 4294967295%N). rewrite E. reflexivity. }
  rewrite crc_raw_le_bits in R.
  assert (Hb : (le_bits b < 2 ^ (8 * N.of_nat (length b)))%N).
  { unfold le_bits. rewrite <- (map_length byteN b). apply le_word_lt, all_lt256_map. }
  assert (Hx : (N.lxor 4294967295 (le_bits b) < 2 ^ 32)%N).
  { apply lxor_lt_pow2; [exact mask_lt32|].
    apply (lt_pow2_mono _ (8 * N.of_nat (length b))); [lia | exact Hb]. }
  assert (K : forall (u : N) (n : nat), (u < 2 ^ 32)%N -> stepn n u = 4294967291%N ->
              stepn n (N.lxor 4294967295 (le_bits b)) = 4294967291%N ->
              le_bits b = N.lxor 4294967295 u).
  { intros u n Hu Eu Ex. assert (Q : N.lxor 4294967295 (le_bits b) = u).
    { apply (stepn_inj n); [exact Hx | exact Hu | now rewrite Eu, Ex]. }
    rewrite <- Q. rewrite <- N.lxor_assoc, N.lxor_nilpotent, N.lxor_0_l. reflexivity. }
  destruct b as [|b0 [|b1 [|b2 [|b3 r]]]]; cbn [length] in *; try lia.
  - pose proof (K 4294967291%N (8 * 0)%nat ltac:(vm_compute; reflexivity) ltac:(vm_compute; reflexivity) R) as Q.
    rewrite Q in Hb. vm_compute in Hb. discriminate Hb.
  - pose proof (K 4036332505%N (8 * 1)%nat ltac:(vm_compute; reflexivity) ltac:(vm_compute; reflexivity) R) as Q.
    rewrite Q in Hb. vm_compute in Hb. discriminate Hb.
  - pose proof (K 2585304464%N (8 * 2)%nat ltac:(vm_compute; reflexivity) ltac:(vm_compute; reflexivity) R) as Q.
    rewrite Q in Hb. vm_compute in Hb. discriminate Hb.
  - pose proof (K 2804819585%N (8 * 3)%nat ltac:(vm_compute; reflexivity) ltac:(vm_compute; reflexivity) R) as Q.
    rewrite Q in Hb. vm_compute in Hb. discriminate Hb.
Qed.

Lemma collides_or_eq a b : crc32 a = crc32 b -> a = b \/ collides a b.
Proof.
  intros E. destruct (list_eq_dec Z.eq_dec a b) as [e|n]; [left; exact e | right; split; assumption].
Qed.

(* same CRC and a difference confined to a window of at most 4 bytes: no difference *)
Lemma burst4_eq p w1 w2 q : wf_bytes w1 = true -> wf_bytes w2 = true -> length w1 = length w2 ->
  (length w1 <= 4)%nat -> crc32 (p ++ w1 ++ q) = crc32 (p ++ w2 ++ q) -> w1 = w2.
Proof.
  intros W1 W2 L L4 E.
  destruct (list_eq_dec Z.eq_dec w1 w2) as [e|n]; [exact e|].
  exfalso. revert E. unfold crc32. apply crc32_burst4; try assumption. lia.
Qed.

(* ------------------------------------------------------------------ *)
(* slices                                                              *)
(* ------------------------------------------------------------------ *)
Lemma zlenb_app a b : zlenb (a ++ b) = zlenb a + zlenb b.
Proof. unfold zlenb. rewrite app_length. lia. Qed.

Lemma slice_nat img a n : 0 <= a -> 0 <= n ->
  slice img a n = firstn (Z.to_nat n) (skipn (Z.to_nat a) img).
Proof.
  intros Ha Hn. unfold slice, takeZ, dropZ, zlen.
  set (l := length img).
  assert (E1 : skipn (Z.to_nat (Z.min (Z.max a 0) (Z.of_nat l))) img = skipn (Z.to_nat a) img).
  { destruct (Z.le_gt_cases a (Z.of_nat l)) as [L|L].
    - f_equal. lia.
    - rewrite !skipn_all2 by (subst l; lia). reflexivity. }
  rewrite E1.
  set (r := skipn (Z.to_nat a) img).
  destruct (Z.le_gt_cases n (Z.of_nat (length r))) as [L|L].
  - f_equal. lia.
  - rewrite !firstn_all2 by lia. reflexivity.
Qed.

Lemma slice_length_le img a n : 0 <= n -> (length (slice img a n) <= Z.to_nat n)%nat.
Proof.
  intros Hn. unfold slice, takeZ. rewrite firstn_length. unfold zlen. lia.
Qed.

(* a slice inside the first k bytes only depends on them *)
Lemma slice_firstn img k a n : 0 <= a -> 0 <= n -> a + n <= Z.of_nat k ->
  slice img a n = slice (firstn k img) a n.
Proof.
  intros Ha Hn H. rewrite !slice_nat by assumption.
  rewrite skipn_firstn_comm, firstn_firstn. f_equal. lia.
Qed.

Lemma slice_app_skip a rest o n : 0 <= o -> 0 <= n ->
  slice (a ++ rest) (Z.of_nat (length a) + o) n = slice rest o n.
Proof.
  intros Ho Hn. rewrite !slice_nat by lia.
  rewrite skipn_app_ge by lia. repeat f_equal. lia.
Qed.

Lemma slice_mid a y rest : slice (a ++ y ++ rest) (Z.of_nat (length a)) (Z.of_nat (length y)) = y.
Proof.
  rewrite slice_nat by lia. rewrite !Nat2Z.id, skipn_app_exact, firstn_app_exact. reflexivity.
Qed.

Lemma bytes_eqb_true a b : bytes_eqb a b = true <-> a = b.
Proof. unfold bytes_eqb. destruct (list_eq_dec Z.eq_dec a b); split; intros; congruence. Qed.

(* ------------------------------------------------------------------ *)
(* the reader on an image given by its parts                           *)
(* ------------------------------------------------------------------ *)
Lemma wf_bytes_app a b : wf_bytes (a ++ b) = wf_bytes a && wf_bytes b.
Proof. unfold wf_bytes. apply forallb_app. Qed.

Lemma wf_bytes_firstn n a : wf_bytes a = true -> wf_bytes (firstn n a) = true.
Proof.
  revert n. induction a as [|x a IH]; intros n H; destruct n; try reflexivity.
  cbn [firstn]. unfold wf_bytes in *. cbn [forallb] in *.
  apply andb_true_iff in H as [H1 H2]. rewrite H1. cbn [andb]. now apply IH.
Qed.

Lemma wf_bytes_skipn n a : wf_bytes a = true -> wf_bytes (skipn n a) = true.
Proof.
  revert n. induction a as [|x a IH]; intros n H; destruct n; try assumption; try reflexivity.
  cbn [skipn]. unfold wf_bytes in *. cbn [forallb] in *.
  apply andb_true_iff in H as [H1 H2]. now apply IH.
Qed.

Lemma le_value_nonneg b : wf_bytes b = true -> 0 <= le_value b.
Proof. intros H. pose proof (le_value_bound b H). lia. Qed.

Lemma le_value_inj a b : wf_bytes a = true -> wf_bytes b = true -> length a = length b ->
  le_value a = le_value b -> a = b.
Proof.
  intros Wa Wb L E. rewrite <- (le_bytes_le_value a Wa), <- (le_bytes_le_value b Wb), L, E. reflexivity.
Qed.

Record sigparts := mkParts { sp_pfx : bytes; sp_x : bytes; sp_o : bytes; sp_z : bytes; sp_h : bytes }.
Definition parts_wf (s : sigparts) : Prop :=
  length (sp_pfx s) = 8%nat /\ length (sp_x s) = 4%nat /\ length (sp_o s) = 8%nat /\
  length (sp_z s) = 8%nat /\ length (sp_h s) = 4%nat /\ wf_bytes (sp_o s) = true /\ wf_bytes (sp_z s) = true.
Definition parts_bytes (s : sigparts) : bytes := sp_pfx s ++ sp_x s ++ sp_o s ++ sp_z s ++ sp_h s.

Lemma open_view_parts s rest h : parts_wf s ->
  open_view (parts_bytes s ++ rest) = Some h ->
  crc32 (sp_o s ++ sp_z s ++ sp_h s) = le_value (sp_x s) /\
  h = slice rest (le_value (sp_o s)) (le_value (sp_z s)) /\
  crc32 h = le_value (sp_h s) /\ firstn 6 (sp_pfx s) = MAGIC.
Proof.
  destruct s as [P X O Zf Hf]. unfold parts_wf, parts_bytes. cbn [sp_pfx sp_x sp_o sp_z sp_h].
  intros (LP & LX & LO & LZ & LH & WO & WZ) V.
  pose proof (le_value_nonneg O WO) as NO. pose proof (le_value_nonneg Zf WZ) as NZ.
  set (img := (P ++ X ++ O ++ Zf ++ Hf) ++ rest) in *.
  assert (S1 : slice img 12 20 = O ++ Zf ++ Hf).
  { subst img. rewrite <- !app_assoc.
    change (P ++ X ++ O ++ Zf ++ Hf ++ rest) with (P ++ X ++ (O ++ Zf ++ Hf ++ rest)).
    rewrite (app_assoc P X). rewrite (app_assoc O Zf), (app_assoc (O ++ Zf) Hf).
    replace 12 with (Z.of_nat (length (P ++ X))) by (rewrite app_length; lia).
    replace 20 with (Z.of_nat (length ((O ++ Zf) ++ Hf))) by (rewrite !app_length; lia).
    rewrite slice_mid. now rewrite <- app_assoc. }
  assert (S2 : slice img 8 4 = X).
  { subst img. rewrite <- !app_assoc.
    replace 8 with (Z.of_nat (length P)) by lia. replace 4 with (Z.of_nat (length X)) by lia.
    apply slice_mid. }
  assert (S3 : slice img 12 8 = O).
  { subst img. rewrite <- !app_assoc. rewrite (app_assoc P X).
    replace 12 with (Z.of_nat (length (P ++ X))) by (rewrite app_length; lia).
    replace 8 with (Z.of_nat (length O)) by lia. apply slice_mid. }
  assert (S4 : slice img 20 8 = Zf).
  { subst img. rewrite <- !app_assoc. rewrite (app_assoc P X), (app_assoc (P ++ X) O).
    replace 20 with (Z.of_nat (length ((P ++ X) ++ O))) by (rewrite !app_length; lia).
    replace 8 with (Z.of_nat (length Zf)) by lia. apply slice_mid. }
  assert (S5 : slice img 28 4 = Hf).
  { subst img. rewrite <- !app_assoc. rewrite (app_assoc P X), (app_assoc (P ++ X) O), (app_assoc ((P ++ X) ++ O) Zf).
    replace 28 with (Z.of_nat (length (((P ++ X) ++ O) ++ Zf))) by (rewrite !app_length; lia).
    replace 4 with (Z.of_nat (length Hf)) by lia. apply slice_mid. }
  assert (S6 : forall o n, 0 <= o -> 0 <= n -> slice img (32 + o) n = slice rest o n).
  { intros o n Ho Hn. subst img.
    replace 32 with (Z.of_nat (length (P ++ X ++ O ++ Zf ++ Hf))) by (rewrite !app_length; lia).
    now apply slice_app_skip. }
  assert (S7 : firstn 6 img = firstn 6 P).
  { subst img. rewrite <- !app_assoc. apply firstn_app_le. lia. }
  unfold open_view, sig_ok, sig_ofs, sig_size, sig_hcrc in V.
  rewrite S1, S2, S3, S4, S5, S7 in V.
  destruct (32 <=? zlenb img); cbn [andb] in V; [|discriminate V].
  destruct (bytes_eqb (firstn 6 P) MAGIC) eqn:EM; cbn [andb] in V; [|discriminate V].
  destruct (crc32 (O ++ Zf ++ Hf) =? le_value X) eqn:EC; [|discriminate V].
  destruct ((2 ^ 63 <=? 32 + le_value O) || (2 ^ 63 <=? le_value Zf)); [discriminate V|].
  rewrite S6 in V by assumption.
  destruct (crc32 (slice rest (le_value O) (le_value Zf)) =? le_value Hf) eqn:EH; [|discriminate V].
  injection V as V. subst h.
  repeat split; try lia. now apply bytes_eqb_true.
Qed.

(* ... and the converse, for the theorems that an image IS accepted *)
Lemma open_view_parts_ok s rest : parts_wf s ->
  firstn 6 (sp_pfx s) = MAGIC ->
  crc32 (sp_o s ++ sp_z s ++ sp_h s) = le_value (sp_x s) ->
  32 + le_value (sp_o s) < 2 ^ 63 -> le_value (sp_z s) < 2 ^ 63 ->
  crc32 (slice rest (le_value (sp_o s)) (le_value (sp_z s))) = le_value (sp_h s) ->
  open_view (parts_bytes s ++ rest) = Some (slice rest (le_value (sp_o s)) (le_value (sp_z s))).
Proof.
  destruct s as [P X O Zf Hf]. unfold parts_wf, parts_bytes. cbn [sp_pfx sp_x sp_o sp_z sp_h].
  intros (LP & LX & LO & LZ & LH & WO & WZ) EM EC B1 B2 EH.
  pose proof (le_value_nonneg O WO) as NO. pose proof (le_value_nonneg Zf WZ) as NZ.
  set (img := (P ++ X ++ O ++ Zf ++ Hf) ++ rest) in *.
  assert (S1 : slice img 12 20 = O ++ Zf ++ Hf).
  { subst img. rewrite <- !app_assoc.
    rewrite (app_assoc P X). rewrite (app_assoc O Zf), (app_assoc (O ++ Zf) Hf).
    replace 12 with (Z.of_nat (length (P ++ X))) by (rewrite app_length; lia).
    replace 20 with (Z.of_nat (length ((O ++ Zf) ++ Hf))) by (rewrite !app_length; lia).
    rewrite slice_mid. now rewrite <- app_assoc. }
  assert (S2 : slice img 8 4 = X).
  { subst img. rewrite <- !app_assoc.
    replace 8 with (Z.of_nat (length P)) by lia. replace 4 with (Z.of_nat (length X)) by lia.
    apply slice_mid. }
  assert (S3 : slice img 12 8 = O).
  { subst img. rewrite <- !app_assoc. rewrite (app_assoc P X).
    replace 12 with (Z.of_nat (length (P ++ X))) by (rewrite app_length; lia).
    replace 8 with (Z.of_nat (length O)) by lia. apply slice_mid. }
  assert (S4 : slice img 20 8 = Zf).
  { subst img. rewrite <- !app_assoc. rewrite (app_assoc P X), (app_assoc (P ++ X) O).
    replace 20 with (Z.of_nat (length ((P ++ X) ++ O))) by (rewrite !app_length; lia).
    replace 8 with (Z.of_nat (length Zf)) by lia. apply slice_mid. }
  assert (S5 : slice img 28 4 = Hf).
  { subst img. rewrite <- !app_assoc. rewrite (app_assoc P X), (app_assoc (P ++ X) O), (app_assoc ((P ++ X) ++ O) Zf).
    replace 28 with (Z.of_nat (length (((P ++ X) ++ O) ++ Zf))) by (rewrite !app_length; lia).
    replace 4 with (Z.of_nat (length Hf)) by lia. apply slice_mid. }
  assert (S6 : forall o n, 0 <= o -> 0 <= n -> slice img (32 + o) n = slice rest o n).
  { intros o n Ho Hn. subst img.
    replace 32 with (Z.of_nat (length (P ++ X ++ O ++ Zf ++ Hf))) by (rewrite !app_length; lia).
    now apply slice_app_skip. }
  assert (S7 : firstn 6 img = firstn 6 P).
  { subst img. rewrite <- !app_assoc. apply firstn_app_le. lia. }
  assert (S8 : 32 <= zlenb img).
  { subst img. unfold zlenb. rewrite !app_length. lia. }
  unfold open_view, sig_ok, sig_ofs, sig_size, sig_hcrc.
  rewrite S1, S2, S3, S4, S5, S7, EM, EC, S6 by assumption.
  replace (32 <=? zlenb img) with true by lia.
  replace (bytes_eqb MAGIC MAGIC) with true by (symmetry; now apply bytes_eqb_true).
  rewrite Z.eqb_refl. cbn [andb].
  replace (2 ^ 63 <=? 32 + le_value O) with false by lia.
  replace (2 ^ 63 <=? le_value Zf) with false by lia. cbn [orb].
  rewrite EH, Z.eqb_refl. reflexivity.
Qed.

(* ------------------------------------------------------------------ *)
(* mixtures                                                            *)
(* ------------------------------------------------------------------ *)
Lemma mix_0 a b : mix 0 a b = b.
Proof. reflexivity. Qed.

Lemma mix_all n a b : length a = length b -> (length a <= n)%nat -> mix n a b = a.
Proof. intros L H. unfold mix. rewrite firstn_all2 by lia. rewrite skipn_all2 by lia. apply app_nil_r. Qed.

Lemma mix_same n a : mix n a a = a.
Proof. unfold mix. apply firstn_skipn. Qed.

Lemma mix_length n a b : length a = length b -> length (mix n a b) = length a.
Proof.
  intros L. unfold mix. rewrite app_length, firstn_length, skipn_length. lia.
Qed.

Lemma mix_app_l n a1 a2 b1 b2 : length a1 = length b1 -> (n <= length a1)%nat ->
  mix n (a1 ++ a2) (b1 ++ b2) = mix n a1 b1 ++ b2.
Proof.
  intros L H. unfold mix. rewrite firstn_app_le by lia. rewrite skipn_app_le by lia.
  now rewrite app_assoc.
Qed.

Lemma mix_app_r n a1 a2 b1 b2 : length a1 = length b1 -> (length a1 <= n)%nat ->
  mix n (a1 ++ a2) (b1 ++ b2) = a1 ++ mix (n - length a1) a2 b2.
Proof.
  intros L H. unfold mix. rewrite firstn_app_ge by lia. rewrite skipn_app_ge by lia.
  rewrite L. now rewrite app_assoc.
Qed.

Lemma wf_mix n a b : wf_bytes a = true -> wf_bytes b = true -> wf_bytes (mix n a b) = true.
Proof.
  intros Wa Wb. unfold mix. rewrite wf_bytes_app, wf_bytes_firstn, wf_bytes_skipn by assumption. reflexivity.
Qed.

Section Mix24.
  Variables C O Zf Hf CB OB ZB HB : bytes.
  Hypothesis LC : length C = 4%nat.
  Hypothesis LO : length O = 8%nat.
  Hypothesis LZ : length Zf = 8%nat.
  Hypothesis LH : length Hf = 4%nat.
  Hypothesis LCB : length CB = 4%nat.
  Hypothesis LOB : length OB = 8%nat.
  Hypothesis LZB : length ZB = 8%nat.
  Hypothesis LHB : length HB = 4%nat.

  Lemma mix24_cases n : (n <= 24)%nat ->
    ((n <= 4)%nat /\ mix n (C ++ O ++ Zf ++ Hf) (CB ++ OB ++ ZB ++ HB) = mix n C CB ++ OB ++ ZB ++ HB) \/
    (exists m, n = (4 + m)%nat /\ (m <= 8)%nat /\
       mix n (C ++ O ++ Zf ++ Hf) (CB ++ OB ++ ZB ++ HB) = C ++ mix m O OB ++ ZB ++ HB /\
       mix m (O ++ Zf ++ Hf) (OB ++ ZB ++ HB) = mix m O OB ++ ZB ++ HB) \/
    (exists m, n = (12 + m)%nat /\ (m <= 8)%nat /\
       mix n (C ++ O ++ Zf ++ Hf) (CB ++ OB ++ ZB ++ HB) = C ++ O ++ mix m Zf ZB ++ HB /\
       mix (8 + m) (O ++ Zf ++ Hf) (OB ++ ZB ++ HB) = O ++ mix m Zf ZB ++ HB) \/
    (exists m, n = (20 + m)%nat /\ (m <= 4)%nat /\
       mix n (C ++ O ++ Zf ++ Hf) (CB ++ OB ++ ZB ++ HB) = C ++ O ++ Zf ++ mix m Hf HB /\
       mix (16 + m) (O ++ Zf ++ Hf) (OB ++ ZB ++ HB) = O ++ Zf ++ mix m Hf HB).
  Proof.
    intros Hn.
    destruct (Nat.le_gt_cases n 4) as [L4|L4].
    { left. split; [exact L4|]. apply mix_app_l; lia. }
    right.
    rewrite (mix_app_r n C) by lia. rewrite LC.
    destruct (Nat.le_gt_cases n 12) as [L12|L12].
    { left. exists (n - 4)%nat. split; [lia|]. split; [lia|].
      rewrite (mix_app_l (n - 4) O) by lia. split; reflexivity. }
    right.
    rewrite (mix_app_r (n - 4) O) by lia. rewrite LO.
    destruct (Nat.le_gt_cases n 20) as [L20|L20].
    { left. exists (n - 12)%nat. split; [lia|]. split; [lia|].
      replace (n - 4 - 8)%nat with (n - 12)%nat by lia.
      rewrite (mix_app_l (n - 12) Zf) by lia. split; [reflexivity|].
      rewrite (mix_app_r (8 + (n - 12)) O) by lia. rewrite LO.
      replace (8 + (n - 12) - 8)%nat with (n - 12)%nat by lia.
      rewrite (mix_app_l (n - 12) Zf) by lia. reflexivity. }
    right. exists (n - 20)%nat. split; [lia|]. split; [lia|].
    replace (n - 4 - 8)%nat with (n - 12)%nat by lia.
    rewrite (mix_app_r (n - 12) Zf) by lia. rewrite LZ.
    replace (n - 12 - 8)%nat with (n - 20)%nat by lia. split; [reflexivity|].
    rewrite (mix_app_r (16 + (n - 20)) O) by lia. rewrite LO.
    rewrite (mix_app_r (16 + (n - 20) - 8) Zf) by lia. rewrite LZ.
    replace (16 + (n - 20) - 8 - 8)%nat with (n - 20)%nat by lia. reflexivity.
  Qed.
End Mix24.

(* the image while the signature header is being rewritten *)
Lemma rewrite_image P N24 B24 rest t : length P = 8%nat -> length N24 = 24%nat -> length B24 = 24%nat ->
  (t <= 32)%nat ->
  write_at ((P ++ B24) ++ rest) 0 (firstn t (P ++ N24)) = P ++ mix (t - 8) N24 B24 ++ rest.
Proof.
  intros LP LN LB Ht.
  rewrite write_at_in by lia. cbn [firstn app Nat.add].
  rewrite firstn_length, app_length, LP, LN. replace (Nat.min t (8 + 24)) with t by lia.
  rewrite skipn_app_le by (rewrite app_length; lia).
  rewrite app_assoc. fold (mix t (P ++ N24) (P ++ B24)).
  destruct (Nat.le_gt_cases t 8) as [L|L].
  - rewrite mix_app_l by lia. rewrite mix_same. replace (t - 8)%nat with O by lia.
    rewrite mix_0. now rewrite <- app_assoc.
  - rewrite mix_app_r by lia. rewrite LP. now rewrite <- app_assoc.
Qed.

Lemma sig_chunks_concat v0 v1 (c o z h : bytes) :
  concat [MAGIC; [v0]; [v1]; c; o; z; h] = (MAGIC ++ [v0; v1]) ++ c ++ o ++ z ++ h.
Proof. cbn [concat]. rewrite app_nil_r, <- app_assoc. reflexivity. Qed.

(* a value below 256^k has only zero bytes from position k on *)
Lemma le_bytes_zero n : le_bytes n 0 = zeros n.
Proof.
  induction n as [|n IH]; [reflexivity|]. cbn [le_bytes].
  change (0 mod 256) with 0. change (0 / 256) with 0. rewrite IH. reflexivity.
Qed.

Lemma le_bytes_small_tail n k v : (k <= n)%nat -> 0 <= v < 256 ^ Z.of_nat k ->
  skipn k (le_bytes n v) = zeros (n - k).
Proof.
  intros L Hv. replace n with (k + (n - k))%nat at 1 by lia.
  rewrite le_bytes_app.
  rewrite <- (le_bytes_length k v) at 1. rewrite skipn_app_exact.
  rewrite Z.div_small by lia. apply le_bytes_zero.
Qed.

(* ------------------------------------------------------------------ *)
(* create sessions: what a crash can leave                             *)
(* ------------------------------------------------------------------ *)
Definition P8 : bytes := MAGIC ++ [0; 4].
Definition skel24 : bytes := sig_fields 1 2 3 4.
Definition body (pre hdr : list bytes) : bytes := concat (pre ++ hdr).
Definition new24 (base : Z) (pre hdr : list bytes) : bytes :=
  let ofs := base + zlenb (concat pre) in
  let size := zlenb (concat hdr) in
  let hc := crc32 (concat hdr) in
  sig_fields (start_crc ofs size hc) ofs size hc.

Lemma skeleton32_eq : skeleton32 = P8 ++ skel24.
Proof. reflexivity. Qed.

Lemma create_trace_segs pre hdr :
  create_trace pre hdr =
  seg_trace (O, [MAGIC; [0]; [4]; le_bytes 4 1; le_bytes 8 2; le_bytes 8 3; le_bytes 4 4]) ++
  seg_trace (32%nat, pre ++ hdr) ++
  seg_trace (O, [MAGIC; [0]; [4];
                 le_bytes 4 (start_crc (zlenb (concat pre)) (zlenb (concat hdr)) (crc32 (concat hdr)));
                 le_bytes 8 (zlenb (concat pre)); le_bytes 8 (zlenb (concat hdr));
                 le_bytes 4 (crc32 (concat hdr))]).
Proof.
  unfold create_trace, skeleton_writes, sig_writes, seg_trace. cbn [fst snd map app].
  rewrite map_app, <- app_assoc. reflexivity.
Qed.

Lemma new24_0 pre hdr :
  new24 0 pre hdr =
  le_bytes 4 (start_crc (zlenb (concat pre)) (zlenb (concat hdr)) (crc32 (concat hdr))) ++
  le_bytes 8 (zlenb (concat pre)) ++ le_bytes 8 (zlenb (concat hdr)) ++ le_bytes 4 (crc32 (concat hdr)).
Proof. unfold new24, sig_fields. rewrite Z.add_0_l. reflexivity. Qed.

Lemma create_images pre hdr k j :
  (exists t, (t <= 32)%nat /\ image_at [] (create_trace pre hdr) k j = firstn t skeleton32) \/
  (exists t, image_at [] (create_trace pre hdr) k j = skeleton32 ++ firstn t (body pre hdr)) \/
  (exists n, (n <= 24)%nat /\
     image_at [] (create_trace pre hdr) k j = P8 ++ mix n (new24 0 pre hdr) skel24 ++ body pre hdr).
Proof.
  unfold image_at. rewrite create_trace_segs.
  set (s1 := (O, [MAGIC; [0]; [4]; le_bytes 4 1; le_bytes 8 2; le_bytes 8 3; le_bytes 4 4])).
  set (s2 := (32%nat, pre ++ hdr)).
  set (s3 := (O, _)).
  assert (C1 : concat (snd s1) = skeleton32) by reflexivity.
  destruct (image_from_seg s1 (seg_trace s2 ++ seg_trace s3) ([], O) k j) as [[t [Ht E]]|[k1 E]];
    [cbn; lia | |].
  { left. unfold bytes in *. rewrite C1 in Ht, E. exists (Nat.min t 32). split; [lia|]. rewrite E. cbn [fst].
    rewrite write_at_in by (cbn; lia). cbn [firstn app length Nat.add].
    rewrite skipn_nil, app_nil_r. rewrite firstn_nil. cbn [app].
    change (length skeleton32) with 32%nat in Ht. f_equal. lia. }
  right. unfold bytes in *. rewrite E. clear E. rewrite C1. cbn [fst]. change (fst s1) with O.
  assert (W1 : write_at [] 0 skeleton32 = skeleton32) by reflexivity.
  rewrite W1.
  destruct (image_from_seg s2 (seg_trace s3) (skeleton32, (O + length skeleton32)%nat) k1 j) as [[t [Ht E]]|[k2 E]];
    [cbn; lia | |];
    change (fst s2) with 32%nat in E; change (snd s2) with (pre ++ hdr) in E; cbn [fst snd] in E.
  { left. exists t. unfold bytes in *. rewrite E.
    rewrite write_at_in by (cbn; lia).
    change 32%nat with (length skeleton32) at 1. rewrite firstn_all.
    rewrite skipn_all2 by (change (length skeleton32) with 32%nat; lia).
    now rewrite app_nil_r. }
  right. unfold bytes in *. rewrite E. clear E. cbn [fst snd s2].
  assert (W2 : write_at skeleton32 32 (concat (pre ++ hdr)) = skeleton32 ++ body pre hdr).
  { rewrite write_at_in by (cbn; lia).
    change 32%nat with (length skeleton32) at 1. rewrite firstn_all.
    rewrite skipn_all2 by (change (length skeleton32) with 32%nat; lia).
    now rewrite app_nil_r. }
  rewrite W2.
  set (cur := (32 + length (concat (pre ++ hdr)))%nat).
  assert (C3 : concat (snd s3) = P8 ++ new24 0 pre hdr).
  { subst s3. cbn [snd]. rewrite sig_chunks_concat, new24_0. reflexivity. }
  assert (L24 : length (new24 0 pre hdr) = 24%nat).
  { rewrite new24_0. rewrite !app_length, !le_bytes_length. reflexivity. }
  assert (I3 : forall t, (t <= 32)%nat ->
     write_at (skeleton32 ++ body pre hdr) 0 (firstn t (P8 ++ new24 0 pre hdr)) =
     P8 ++ mix (t - 8) (new24 0 pre hdr) skel24 ++ body pre hdr).
  { intros t Ht. rewrite skeleton32_eq. apply rewrite_image; [reflexivity | exact L24 | reflexivity | exact Ht]. }
  rewrite <- (app_nil_r (seg_trace s3)).
  destruct (image_from_seg s3 [] (skeleton32 ++ body pre hdr, cur) k2 j) as [[t [Ht E]]|[k3 E]];
    [cbn; lia | |].
  - unfold bytes in *. rewrite C3 in Ht, E. rewrite E. cbn [fst].
    assert (Ht' : (t <= 32)%nat) by (rewrite app_length, L24 in Ht; cbn in Ht; lia).
    exists (t - 8)%nat. split; [lia|]. change (fst s3) with O. now apply I3.
  - unfold bytes in *. rewrite E. rewrite image_from_nil. cbn [fst]. rewrite C3. change (fst s3) with O.
    exists 24%nat. split; [lia|].
    rewrite <- (firstn_all (P8 ++ new24 0 pre hdr)).
    rewrite I3 by (rewrite app_length, L24; cbn; lia).
    rewrite app_length, L24. reflexivity.
Qed.

Lemma create_final pre hdr :
  final_image [] (create_trace pre hdr) = P8 ++ new24 0 pre hdr ++ body pre hdr.
Proof.
  unfold final_image. rewrite create_trace_segs, !run_app.
  assert (R1 : run (seg_trace (O, [MAGIC; [0]; [4]; le_bytes 4 1; le_bytes 8 2; le_bytes 8 3; le_bytes 4 4]))
                   ([], O) = (skeleton32, 32%nat)).
  { rewrite run_seg by (cbn; lia). reflexivity. }
  unfold bytes in *. rewrite R1.
  assert (R2 : run (seg_trace (32%nat, pre ++ hdr)) (skeleton32, 32%nat) =
               (skeleton32 ++ body pre hdr, (32 + length (concat (pre ++ hdr)))%nat)).
  { rewrite run_seg by (cbn; lia). cbn [fst snd]. f_equal.
    rewrite write_at_in by (cbn; lia).
    change 32%nat with (length skeleton32) at 1. rewrite firstn_all.
    rewrite skipn_all2 by (change (length skeleton32) with 32%nat; lia).
    now rewrite app_nil_r. }
  unfold bytes in *. rewrite R2.
  rewrite run_seg by (cbn; lia). cbn [fst snd].
  rewrite sig_chunks_concat, <- new24_0. fold P8.
  assert (L24 : length (new24 0 pre hdr) = 24%nat).
  { rewrite new24_0. rewrite !app_length, !le_bytes_length. reflexivity. }
  rewrite <- (firstn_all (P8 ++ new24 0 pre hdr)).
  rewrite skeleton32_eq, rewrite_image; [| reflexivity | exact L24 | reflexivity | rewrite app_length, L24; cbn; lia].
  rewrite app_length, L24. cbn [length P8 MAGIC app Nat.add Nat.sub].
  rewrite mix_all; [reflexivity | rewrite L24; reflexivity | rewrite L24; lia].
Qed.

(* ------------------------------------------------------------------ *)
(* create sessions: safety                                             *)
(* ------------------------------------------------------------------ *)
Lemma short_rejected img : (length img < 32)%nat -> open_view img = None.
Proof.
  intros H. unfold open_view, sig_ok. replace (32 <=? zlenb img) with false by (unfold zlenb; lia).
  reflexivity.
Qed.

Lemma skeleton_crc_wrong : crc32 skel20 <> 1.
Proof. vm_compute. discriminate. Qed.

Lemma skeleton_rejected rest : open_view (skeleton32 ++ rest) = None.
Proof.
  destruct (open_view (skeleton32 ++ rest)) as [h|] eqn:V; [exfalso | reflexivity].
  change skeleton32 with (parts_bytes (mkParts P8 (le_bytes 4 1) (le_bytes 8 2) (le_bytes 8 3) (le_bytes 4 4))) in V.
  apply open_view_parts in V; [| repeat split; reflexivity].
  destruct V as [V _]. cbn [sp_o sp_z sp_h sp_x] in V. vm_compute in V. discriminate V.
Qed.

Lemma le4_crc d : le_value (le_bytes 4 (crc32 d)) = crc32 d.
Proof. apply le_value_le_bytes_small. pose proof (crc32_range d). change (256 ^ Z.of_nat 4) with (2 ^ 32). lia. Qed.

Lemma slice3_crc_ne4 rest o : crc32 (slice rest o 3) <> 4.
Proof. apply crc32_short_ne4. pose proof (slice_length_le rest o 3 ltac:(lia)). lia. Qed.

Lemma create_sig_analysis pre hdr rest n h : (n <= 24)%nat ->
  open_view (P8 ++ mix n (new24 0 pre hdr) skel24 ++ rest) = Some h ->
  mix n (new24 0 pre hdr) skel24 = new24 0 pre hdr
  \/ exists m, (9 <= m <= 15)%nat /\ 256 ^ (Z.of_nat m - 8) <= zlenb (concat hdr) /\
       collides (mix m (new20 0 pre hdr) skel20) (new20 0 pre hdr) /\ crc32 h = 4.
Proof.
  intros Hn V.
  set (ofs := zlenb (concat pre)) in *. set (size := zlenb (concat hdr)) in *. set (hc := crc32 (concat hdr)) in *.
  assert (EN : new24 0 pre hdr = le_bytes 4 (start_crc ofs size hc) ++ le_bytes 8 ofs ++ le_bytes 8 size ++ le_bytes 4 hc)
    by apply new24_0.
  assert (EN20 : new20 0 pre hdr = le_bytes 8 ofs ++ le_bytes 8 size ++ le_bytes 4 hc).
  { unfold new20, start_fields. rewrite Z.add_0_l. reflexivity. }
  assert (ES : skel24 = le_bytes 4 1 ++ le_bytes 8 2 ++ le_bytes 8 3 ++ le_bytes 4 4) by reflexivity.
  assert (ES20 : skel20 = le_bytes 8 2 ++ le_bytes 8 3 ++ le_bytes 4 4) by reflexivity.
  set (C := le_bytes 4 (start_crc ofs size hc)) in *.
  set (O := le_bytes 8 ofs) in *. set (Zf := le_bytes 8 size) in *. set (Hf := le_bytes 4 hc) in *.
  assert (LC : length C = 4%nat) by apply le_bytes_length.
  assert (LO : length O = 8%nat) by apply le_bytes_length.
  assert (LZ : length Zf = 8%nat) by apply le_bytes_length.
  assert (LH : length Hf = 4%nat) by apply le_bytes_length.
  assert (WO : wf_bytes O = true) by apply le_bytes_wf.
  assert (WZ : wf_bytes Zf = true) by apply le_bytes_wf.
  assert (WH : wf_bytes Hf = true) by apply le_bytes_wf.
  assert (VC : le_value C = crc32 (O ++ Zf ++ Hf)) by (subst C; unfold start_crc, start_fields; apply le4_crc).
  rewrite EN, ES in V |- *. rewrite EN20, ES20.
  destruct (mix24_cases C O Zf Hf (le_bytes 4 1) (le_bytes 8 2) (le_bytes 8 3) (le_bytes 4 4)
              LC LO LZ LH eq_refl eq_refl eq_refl eq_refl n Hn)
    as [[L4 M]|[[m [En [Lm [M M20]]]]|[[m [En [Lm [M M20]]]]|[m [En [Lm [M M20]]]]]]]; rewrite M in V |- *.
  - (* inside the start-header CRC field: the declared next header is 3 bytes with CRC 4 *)
    exfalso.
    replace (P8 ++ (mix n C (le_bytes 4 1) ++ le_bytes 8 2 ++ le_bytes 8 3 ++ le_bytes 4 4) ++ rest)
      with (parts_bytes (mkParts P8 (mix n C (le_bytes 4 1)) (le_bytes 8 2) (le_bytes 8 3) (le_bytes 4 4)) ++ rest) in V
      by (unfold parts_bytes; cbn [sp_pfx sp_x sp_o sp_z sp_h]; now rewrite <- !app_assoc).
    apply open_view_parts in V.
    + destruct V as (_ & Eh & Ec & _). cbn [sp_o sp_z sp_h] in Eh, Ec.
      change (le_value (le_bytes 8 3)) with 3 in Eh. change (le_value (le_bytes 4 4)) with 4 in Ec.
      subst h. exact (slice3_crc_ne4 _ _ Ec).
    + repeat split; try reflexivity. cbn [sp_x]. rewrite mix_length; [exact LC | now rewrite LC].
  - (* inside the offset field: still 3 bytes with CRC 4 *)
    exfalso.
    replace (P8 ++ (C ++ mix m O (le_bytes 8 2) ++ le_bytes 8 3 ++ le_bytes 4 4) ++ rest)
      with (parts_bytes (mkParts P8 C (mix m O (le_bytes 8 2)) (le_bytes 8 3) (le_bytes 4 4)) ++ rest) in V
      by (unfold parts_bytes; cbn [sp_pfx sp_x sp_o sp_z sp_h]; now rewrite <- !app_assoc).
    apply open_view_parts in V.
    + destruct V as (_ & Eh & Ec & _). cbn [sp_o sp_z sp_h] in Eh, Ec.
      change (le_value (le_bytes 8 3)) with 3 in Eh. change (le_value (le_bytes 4 4)) with 4 in Ec.
      subst h. exact (slice3_crc_ne4 _ _ Ec).
    + repeat split; try reflexivity; try assumption; cbn [sp_o].
      * rewrite mix_length; [exact LO | now rewrite LO].
      * apply wf_mix; [exact WO | reflexivity].
  - (* inside the size field *)
    replace (P8 ++ (C ++ O ++ mix m Zf (le_bytes 8 3) ++ le_bytes 4 4) ++ rest)
      with (parts_bytes (mkParts P8 C O (mix m Zf (le_bytes 8 3)) (le_bytes 4 4)) ++ rest) in V
      by (unfold parts_bytes; cbn [sp_pfx sp_x sp_o sp_z sp_h]; now rewrite <- !app_assoc).
    apply open_view_parts in V.
    2:{ repeat split; try reflexivity; try assumption; cbn [sp_z].
        - rewrite mix_length; [exact LZ | now rewrite LZ].
        - apply wf_mix; [exact WZ | reflexivity]. }
    destruct V as (Ex & Eh & Ec & _). cbn [sp_x sp_o sp_z sp_h] in Ex, Eh, Ec.
    change (le_value (le_bytes 4 4)) with 4 in Ec.
    rewrite VC in Ex.
    destruct (Nat.eq_dec m 0) as [m0|m0].
    { exfalso. subst m. rewrite mix_0 in Eh. change (le_value (le_bytes 8 3)) with 3 in Eh.
      subst h. exact (slice3_crc_ne4 _ _ Ec). }
    assert (Small : size < 256 ^ Z.of_nat m -> mix m Zf (le_bytes 8 3) = Zf).
    { intros Hs. unfold mix.
      assert (T3 : skipn m (le_bytes 8 3) = zeros (8 - m)).
      { apply le_bytes_small_tail; [lia|]. split; [lia|].
        apply Z.lt_le_trans with (256 ^ 1); [reflexivity | apply Z.pow_le_mono_r; lia]. }
      assert (TS : skipn m Zf = zeros (8 - m)).
      { apply le_bytes_small_tail; [lia|]. subst size. unfold zlenb in *. lia. }
      rewrite T3, <- TS. apply firstn_skipn. }
    destruct (Z.lt_ge_cases size (256 ^ Z.of_nat m)) as [Hs|Hs].
    + rewrite (Small Hs) in Ex |- *.
      assert (EH : le_bytes 4 4 = Hf).
      { apply (burst4_eq (O ++ Zf) (le_bytes 4 4) Hf []); try assumption; try reflexivity. }
      left. rewrite EH. reflexivity.
    + destruct (collides_or_eq _ _ Ex) as [e|c].
      * left. rewrite e. reflexivity.
      * assert (m8 : m <> 8%nat).
        { intros ->. rewrite mix_all in Ex by (rewrite ?LZ; reflexivity || lia).
          destruct c as [c _]. apply c. rewrite mix_all by (rewrite ?LZ; reflexivity || lia).
          f_equal. f_equal.
          apply (burst4_eq (O ++ Zf) (le_bytes 4 4) Hf []); try assumption; try reflexivity. }
        right. exists (8 + m)%nat. split; [lia|]. split.
        { replace (Z.of_nat (8 + m) - 8) with (Z.of_nat m) by lia. exact Hs. }
        rewrite M20. split; [exact c | exact Ec].
  - (* inside the next-header CRC field: a window of 4 bytes *)
    replace (P8 ++ (C ++ O ++ Zf ++ mix m Hf (le_bytes 4 4)) ++ rest)
      with (parts_bytes (mkParts P8 C O Zf (mix m Hf (le_bytes 4 4))) ++ rest) in V
      by (unfold parts_bytes; cbn [sp_pfx sp_x sp_o sp_z sp_h]; now rewrite <- !app_assoc).
    apply open_view_parts in V.
    2:{ repeat split; try reflexivity; try assumption; cbn [sp_h].
        rewrite mix_length; [exact LH | now rewrite LH]. }
    destruct V as (Ex & _). cbn [sp_x sp_o sp_z sp_h] in Ex. rewrite VC in Ex.
    assert (EH : mix m Hf (le_bytes 4 4) = Hf).
    { apply (burst4_eq (O ++ Zf) _ Hf []); try assumption.
      - apply wf_mix; [exact WH | reflexivity].
      - rewrite mix_length; [reflexivity | now rewrite LH].
      - rewrite mix_length; [lia | now rewrite LH].
      - rewrite !app_nil_r, <- !app_assoc. exact Ex. }
    left. rewrite EH. reflexivity.
Qed.


Theorem create_crash_safe_proof : forall pre hdr k j h,
  open_view (image_at [] (create_trace pre hdr) k j) = Some h ->
  image_at [] (create_trace pre hdr) k j = final_image [] (create_trace pre hdr)
  \/ exists m, (9 <= m <= 15)%nat /\ 256 ^ (Z.of_nat m - 8) <= zlenb (concat hdr) /\
       collides (mix m (new20 0 pre hdr) skel20) (new20 0 pre hdr) /\ crc32 h = 4.
Proof.
  intros pre hdr k j h V.
  destruct (create_images pre hdr k j) as [[t [Ht E]]|[[t E]|[n [Hn E]]]]; rewrite E in V |- *.
  { exfalso. destruct (Nat.eq_dec t 32) as [e|ne].
    - subst t. rewrite <- (app_nil_r (firstn 32 skeleton32)) in V.
      change (firstn 32 skeleton32) with skeleton32 in V. rewrite skeleton_rejected in V. discriminate V.
    - rewrite short_rejected in V; [discriminate V|]. rewrite firstn_length. lia. }
  { exfalso. rewrite skeleton_rejected in V. discriminate V. }
  rewrite create_final.
  destruct (create_sig_analysis pre hdr (body pre hdr) n h Hn V) as [e|r]; [left; now rewrite e | right; exact r].
Qed.

Lemma slice_body pre hdr : slice (body pre hdr) (zlenb (concat pre)) (zlenb (concat hdr)) = concat hdr.
Proof.
  unfold body. rewrite concat_app. unfold zlenb.
  pose proof (slice_mid (concat pre) (concat hdr) []) as Q. rewrite app_nil_r in Q. exact Q.
Qed.

Theorem create_final_accepts_proof : forall pre hdr,
  32 + zlenb (concat pre) < 2 ^ 63 -> zlenb (concat hdr) < 2 ^ 63 ->
  open_view (final_image [] (create_trace pre hdr)) = Some (concat hdr).
Proof.
  intros pre hdr B1 B2. rewrite create_final, new24_0.
  set (ofs := zlenb (concat pre)) in *. set (size := zlenb (concat hdr)) in *. set (hc := crc32 (concat hdr)) in *.
  assert (N1 : 0 <= ofs) by (subst ofs; unfold zlenb; lia).
  assert (N2 : 0 <= size) by (subst size; unfold zlenb; lia).
  assert (VO : le_value (le_bytes 8 ofs) = ofs).
  { apply le_value_le_bytes_small. change (256 ^ Z.of_nat 8) with (2 ^ 64). lia. }
  assert (VZ : le_value (le_bytes 8 size) = size).
  { apply le_value_le_bytes_small. change (256 ^ Z.of_nat 8) with (2 ^ 64). lia. }
  replace (P8 ++ (le_bytes 4 (start_crc ofs size hc) ++ le_bytes 8 ofs ++ le_bytes 8 size ++ le_bytes 4 hc) ++ body pre hdr)
    with (parts_bytes (mkParts P8 (le_bytes 4 (start_crc ofs size hc)) (le_bytes 8 ofs) (le_bytes 8 size) (le_bytes 4 hc))
          ++ body pre hdr)
    by (unfold parts_bytes; cbn [sp_pfx sp_x sp_o sp_z sp_h]; now rewrite <- !app_assoc).
  rewrite open_view_parts_ok; cbn [sp_pfx sp_x sp_o sp_z sp_h]; rewrite ?VO, ?VZ.
  - subst ofs size. now rewrite slice_body.
  - repeat split; try apply le_bytes_length; try apply le_bytes_wf.
  - reflexivity.
  - unfold start_crc, start_fields. symmetry. apply le4_crc.
  - exact B1.
  - exact B2.
  - subst ofs size hc. rewrite slice_body. symmetry. apply le4_crc.
Qed.

(* headers shorter than 256 bytes: no residual case at all *)
Corollary create_crash_safe_small_proof : forall pre hdr k j h,
  zlenb (concat hdr) < 256 ->
  open_view (image_at [] (create_trace pre hdr) k j) = Some h ->
  image_at [] (create_trace pre hdr) k j = final_image [] (create_trace pre hdr).
Proof.
  intros pre hdr k j h S V.
  destruct (create_crash_safe_proof pre hdr k j h V) as [e|[m [Hm [Hs _]]]]; [exact e | exfalso].
  assert (256 ^ 1 <= 256 ^ (Z.of_nat m - 8)) by (apply Z.pow_le_mono_r; lia).
  change (256 ^ 1) with 256 in *. lia.
Qed.

(* the start-header CRC alone does not protect the window: a session whose final start-header
   CRC equals that of the placeholder fields passes SignatureHeader._read with the
   placeholder's offset/size/crc still in place (the next-header CRC then rejects it) *)
Lemma placeholder_fields_can_verify :
  sig_ok (MAGIC ++ [0; 4] ++ le_bytes 4 (start_crc 17 104 1114519173) ++ skel20 ++ repeatZ 7 121) = true.
Proof. vm_compute. reflexivity. Qed.

(* ------------------------------------------------------------------ *)
(* what the reader sees is determined by the 32 signature bytes, up to a collision *)
(* ------------------------------------------------------------------ *)
Lemma open_view_hcrc a h : open_view a = Some h -> crc32 h = sig_hcrc a.
Proof.
  unfold open_view. destruct (sig_ok a); [|discriminate].
  destruct ((2 ^ 63 <=? 32 + sig_ofs a) || (2 ^ 63 <=? sig_size a)); [discriminate|].
  destruct (crc32 (slice a (32 + sig_ofs a) (sig_size a)) =? sig_hcrc a) eqn:E; [|discriminate].
  intros Q. injection Q as Q. subst h. now apply Z.eqb_eq in E.
Qed.

Lemma open_view_long a h : open_view a = Some h -> (32 <= length a)%nat.
Proof.
  unfold open_view, sig_ok. destruct (32 <=? zlenb a) eqn:E; [|discriminate]. unfold zlenb in E. lia.
Qed.

Lemma view_by_sig_proof a b ha hb : firstn 32 a = firstn 32 b ->
  open_view a = Some ha -> open_view b = Some hb -> ha = hb \/ collides ha hb.
Proof.
  intros E Va Vb. apply collides_or_eq.
  rewrite (open_view_hcrc _ _ Va), (open_view_hcrc _ _ Vb). unfold sig_hcrc.
  rewrite (slice_firstn a 32), (slice_firstn b 32) by lia. now rewrite E.
Qed.

(* ------------------------------------------------------------------ *)
(* append sessions                                                     *)
(* ------------------------------------------------------------------ *)
Lemma firstn8_split (old : bytes) : (8 <= length old)%nat ->
  firstn 8 old = firstn 6 old ++ [nth 6 old 0; nth 7 old 0].
Proof.
  intros H.
  destruct old as [|a0 [|a1 [|a2 [|a3 [|a4 [|a5 [|a6 [|a7 r]]]]]]]]; cbn [length] in H; try lia.
  reflexivity.
Qed.

Lemma append_trace_segs old p pre hdr :
  append_trace old p pre hdr =
  seg_trace (p, pre ++ hdr) ++
  seg_trace (O, [MAGIC; [nth 6 old 0]; [nth 7 old 0];
                 le_bytes 4 (start_crc (Z.of_nat p - 32 + zlenb (concat pre)) (zlenb (concat hdr)) (crc32 (concat hdr)));
                 le_bytes 8 (Z.of_nat p - 32 + zlenb (concat pre)); le_bytes 8 (zlenb (concat hdr));
                 le_bytes 4 (crc32 (concat hdr))]).
Proof.
  unfold append_trace, sig_writes, seg_trace. cbn [fst snd map app].
  rewrite map_app, <- app_assoc. reflexivity.
Qed.

Lemma new24_base base pre hdr :
  new24 base pre hdr =
  le_bytes 4 (start_crc (base + zlenb (concat pre)) (zlenb (concat hdr)) (crc32 (concat hdr))) ++
  le_bytes 8 (base + zlenb (concat pre)) ++ le_bytes 8 (zlenb (concat hdr)) ++ le_bytes 4 (crc32 (concat hdr)).
Proof. reflexivity. Qed.

Lemma new24_length base pre hdr : length (new24 base pre hdr) = 24%nat.
Proof. rewrite new24_base, !app_length, !le_bytes_length. reflexivity. Qed.

Section Append.
  Variables (old : bytes) (p : nat) (pre hdr : list bytes).
  Hypothesis Hp : (32 <= p <= length old)%nat.
  Hypothesis Hmagic : firstn 6 old = MAGIC.

  Let base : Z := Z.of_nat p - 32.
  Let P := firstn 8 old.
  Let B24 := firstn 24 (skipn 8 old).
  Let I := write_at old p (body pre hdr).
  Let N24 := new24 base pre hdr.

  Lemma old_split : old = (P ++ B24) ++ skipn 32 old.
  Proof.
    subst P B24. rewrite <- (firstn_skipn 8 old) at 1.
    rewrite <- (firstn_skipn 24 (skipn 8 old)) at 1. rewrite skipn_skipn_add.
    now rewrite app_assoc.
  Qed.

  Lemma LP : length P = 8%nat.
  Proof. subst P. rewrite firstn_length. lia. Qed.
  Lemma LB24 : length B24 = 24%nat.
  Proof. subst B24. rewrite firstn_length, skipn_length. lia. Qed.

  Lemma I_split : I = (P ++ B24) ++ skipn 32 I.
  Proof.
    rewrite <- (firstn_skipn 32 I) at 1. f_equal.
    subst I. rewrite write_at_firstn_keep by lia.
    rewrite old_split at 1. rewrite firstn_app_le by (rewrite app_length, LP, LB24; lia).
    apply firstn_all2. rewrite app_length, LP, LB24. lia.
  Qed.

  Lemma P_magic : P = MAGIC ++ [nth 6 old 0; nth 7 old 0].
  Proof. subst P. rewrite firstn8_split by lia. now rewrite Hmagic. Qed.

  Lemma append_images k j :
    (exists t, image_at old (append_trace old p pre hdr) k j = write_at old p (firstn t (body pre hdr))) \/
    (exists n, (n <= 24)%nat /\
       image_at old (append_trace old p pre hdr) k j = P ++ mix n N24 B24 ++ skipn 32 I).
  Proof.
    unfold image_at. rewrite append_trace_segs.
    set (s1 := (p, pre ++ hdr)). set (s2 := (O, _)).
    destruct (image_from_seg s1 (seg_trace s2) (old, O) k j) as [[t [Ht E]]|[k1 E]]; [cbn; lia | |];
      change (fst s1) with p in E; change (snd s1) with (pre ++ hdr) in E; cbn [fst snd] in E.
    { left. exists t. exact E. }
    right. unfold bytes in *. rewrite E. clear E.
    change (write_at old p (concat (pre ++ hdr))) with I.
    change (length (concat (pre ++ hdr))) with (length (body pre hdr)).
    assert (C2 : concat (snd s2) = P ++ N24).
    { subst s2. cbn [snd]. rewrite sig_chunks_concat, P_magic. reflexivity. }
    assert (I3 : forall t, (t <= 32)%nat ->
       write_at I 0 (firstn t (P ++ N24)) = P ++ mix (t - 8) N24 B24 ++ skipn 32 I).
    { intros t Ht. rewrite I_split at 1.
      apply rewrite_image; [apply LP | apply new24_length | apply LB24 | exact Ht]. }
    rewrite <- (app_nil_r (seg_trace s2)).
    destruct (image_from_seg s2 [] (I, (p + length (body pre hdr))%nat) k1 j) as [[t [Ht E]]|[k2 E]].
    - cbn [fst]. change (fst s2) with O. lia.
    - unfold bytes in *. rewrite C2 in Ht, E. rewrite E. cbn [fst]. change (fst s2) with O.
      assert (Ht' : (t <= 32)%nat) by (rewrite app_length, LP in Ht; unfold N24 in Ht; rewrite new24_length in Ht; lia).
      exists (t - 8)%nat. split; [lia|]. now apply I3.
    - unfold bytes in *. rewrite E, image_from_nil. cbn [fst]. rewrite C2. change (fst s2) with O.
      exists 24%nat. split; [lia|].
      rewrite <- (firstn_all (P ++ N24)).
      rewrite I3 by (rewrite app_length, LP; unfold N24; rewrite new24_length; lia).
      rewrite app_length, LP. unfold N24 at 1. rewrite new24_length. reflexivity.
  Qed.

  Lemma append_final : final_image old (append_trace old p pre hdr) = P ++ N24 ++ skipn 32 I.
  Proof.
    unfold final_image. rewrite append_trace_segs, run_app.
    assert (R1 : run (seg_trace (p, pre ++ hdr)) (old, O) = (I, (p + length (body pre hdr))%nat)).
    { rewrite run_seg by (cbn; lia). reflexivity. }
    unfold bytes in *. rewrite R1.
    rewrite run_seg by (cbn; lia). cbn [fst snd].
    rewrite sig_chunks_concat, <- P_magic.
    change (le_bytes 4 _ ++ le_bytes 8 _ ++ le_bytes 8 _ ++ le_bytes 4 _) with N24.
    rewrite <- (firstn_all (P ++ N24)).
    rewrite I_split at 1.
    rewrite rewrite_image; [| apply LP | apply new24_length | apply LB24
                            | rewrite app_length, LP; unfold N24; rewrite new24_length; lia].
    rewrite app_length, LP. unfold N24 at 1. rewrite new24_length.
    rewrite mix_all; [reflexivity | unfold N24; rewrite new24_length, LB24; reflexivity
                      | unfold N24; rewrite new24_length; lia].
  Qed.

  Variable oh : bytes.
  Hypothesis Hold : open_view old = Some oh.
  Hypothesis Hwf : wf_bytes old = true.

  Let CB := firstn 4 B24.
  Let OB := firstn 8 (skipn 4 B24).
  Let ZB := firstn 8 (skipn 12 B24).
  Let HB := skipn 20 B24.

  Lemma B24_split : B24 = CB ++ OB ++ ZB ++ HB.
  Proof.
    subst CB OB ZB HB. symmetry.
    assert (E3 : firstn 8 (skipn 12 B24) ++ skipn 20 B24 = skipn 12 B24).
    { replace (skipn 20 B24) with (skipn 8 (skipn 12 B24)) by (rewrite skipn_skipn_add; reflexivity).
      apply firstn_skipn. }
    rewrite E3.
    assert (E2 : firstn 8 (skipn 4 B24) ++ skipn 12 B24 = skipn 4 B24).
    { replace (skipn 12 B24) with (skipn 8 (skipn 4 B24)) by (rewrite skipn_skipn_add; reflexivity).
      apply firstn_skipn. }
    rewrite E2. apply firstn_skipn.
  Qed.

  Lemma wf_B24 : wf_bytes B24 = true.
  Proof. subst B24. apply wf_bytes_firstn, wf_bytes_skipn, Hwf. Qed.

  Lemma old_fields :
    length CB = 4%nat /\ length OB = 8%nat /\ length ZB = 8%nat /\ length HB = 4%nat /\
    wf_bytes CB = true /\ wf_bytes OB = true /\ wf_bytes ZB = true /\ wf_bytes HB = true.
  Proof.
    pose proof LB24 as L. pose proof wf_B24 as W. subst CB OB ZB HB.
    repeat split; rewrite ?firstn_length, ?skipn_length; try lia;
      repeat (first [exact W | apply wf_bytes_firstn | apply wf_bytes_skipn]).
  Qed.

  (* the old archive was accepted: its start-header CRC is right *)
  Lemma old_consistent : crc32 (OB ++ ZB ++ HB) = le_value CB.
  Proof.
    destruct old_fields as (L1 & L2 & L3 & L4 & W1 & W2 & W3 & W4).
    pose proof Hold as V. rewrite old_split, B24_split in V.
    replace ((P ++ CB ++ OB ++ ZB ++ HB) ++ skipn 32 old)
      with (parts_bytes (mkParts P CB OB ZB HB) ++ skipn 32 old) in V by reflexivity.
    apply open_view_parts in V; [| repeat split; try assumption; apply LP].
    destruct V as (V & _). exact V.
  Qed.

  Theorem append_crash_safe_sec : forall k j h,
    open_view (image_at old (append_trace old p pre hdr) k j) = Some h ->
    (firstn p (image_at old (append_trace old p pre hdr) k j) = firstn p old /\ (h = oh \/ collides h oh))
    \/ image_at old (append_trace old p pre hdr) k j = final_image old (append_trace old p pre hdr)
    \/ exists m, (m < 16)%nat /\
         collides (mix m (new20 base pre hdr) (OB ++ ZB ++ HB)) (new20 base pre hdr).
  Proof.
    intros k j h V.
    assert (KeepSig : forall img, firstn p img = firstn p old -> firstn 32 img = firstn 32 old).
    { intros img E. transitivity (firstn 32 (firstn p img)).
      - rewrite firstn_firstn. f_equal. lia.
      - rewrite E, firstn_firstn. f_equal. lia. }
    destruct (append_images k j) as [[t E]|[n [Hn E]]]; rewrite E in V |- *.
    { (* the new data and header are being written over the old header; the signature header is the old one *)
      left.
      assert (K : firstn p (write_at old p (firstn t (body pre hdr))) = firstn p old)
        by (apply write_at_firstn_keep; lia).
      split; [exact K|].
      eapply view_by_sig_proof; [ | exact V | exact Hold]; apply KeepSig, K. }
    rewrite append_final.
    destruct old_fields as (L1 & L2 & L3 & L4 & W1 & W2 & W3 & W4).
    pose proof old_consistent as OC.
    set (ofs := base + zlenb (concat pre)) in *.
    set (size := zlenb (concat hdr)) in *. set (hc := crc32 (concat hdr)) in *.
    assert (EN : N24 = le_bytes 4 (start_crc ofs size hc) ++ le_bytes 8 ofs ++ le_bytes 8 size ++ le_bytes 4 hc)
      by reflexivity.
    assert (EN20 : new20 base pre hdr = le_bytes 8 ofs ++ le_bytes 8 size ++ le_bytes 4 hc) by reflexivity.
    set (C := le_bytes 4 (start_crc ofs size hc)) in *.
    set (O := le_bytes 8 ofs) in *. set (Zf := le_bytes 8 size) in *. set (Hf := le_bytes 4 hc) in *.
    assert (LC : length C = 4%nat) by apply le_bytes_length.
    assert (LO : length O = 8%nat) by apply le_bytes_length.
    assert (LZ : length Zf = 8%nat) by apply le_bytes_length.
    assert (LH : length Hf = 4%nat) by apply le_bytes_length.
    assert (WC : wf_bytes C = true) by apply le_bytes_wf.
    assert (WO : wf_bytes O = true) by apply le_bytes_wf.
    assert (WZ : wf_bytes Zf = true) by apply le_bytes_wf.
    assert (WH : wf_bytes Hf = true) by apply le_bytes_wf.
    assert (VC : le_value C = crc32 (O ++ Zf ++ Hf)) by (subst C; unfold start_crc, start_fields; apply le4_crc).
    rewrite EN, B24_split in V |- *. rewrite EN20.
    destruct (mix24_cases C O Zf Hf CB OB ZB HB LC LO LZ LH L1 L2 L3 L4 n Hn)
      as [[Ln M]|[[m [En [Lm [M M20]]]]|[[m [En [Lm [M M20]]]]|[m [En [Lm [M M20]]]]]]]; rewrite M in V |- *.
    - (* inside the start-header CRC field: the 20 bytes are the old ones, so is then the field *)
      left.
      replace (P ++ (mix n C CB ++ OB ++ ZB ++ HB) ++ skipn 32 I)
        with (parts_bytes (mkParts P (mix n C CB) OB ZB HB) ++ skipn 32 I) in V |- *
        by (unfold parts_bytes; cbn [sp_pfx sp_x sp_o sp_z sp_h]; now rewrite <- !app_assoc).
      pose proof V as V'.
      apply open_view_parts in V'.
      2:{ repeat split; try assumption; cbn [sp_pfx sp_x]; [apply LP|].
          rewrite mix_length; [exact LC | now rewrite LC]. }
      destruct V' as (Ex & _). cbn [sp_x sp_o sp_z sp_h] in Ex.
      assert (EX : mix n C CB = CB).
      { apply le_value_inj; [now apply wf_mix | exact W1 | rewrite mix_length; [now rewrite LC | now rewrite LC] |].
        now rewrite <- Ex, OC. }
      rewrite EX in V |- *.
      assert (EI : parts_bytes (mkParts P CB OB ZB HB) ++ skipn 32 I = I).
      { unfold parts_bytes. cbn [sp_pfx sp_x sp_o sp_z sp_h]. rewrite <- B24_split.
        symmetry. apply I_split. }
      rewrite EI in V |- *.
      assert (K : firstn p I = firstn p old) by (apply write_at_firstn_keep; [apply Nat.le_refl | apply Hp]).
      split; [exact K|].
      eapply view_by_sig_proof; [ | exact V | exact Hold]; apply KeepSig, K.
    - (* inside the offset field *)
      replace (P ++ (C ++ mix m O OB ++ ZB ++ HB) ++ skipn 32 I)
        with (parts_bytes (mkParts P C (mix m O OB) ZB HB) ++ skipn 32 I) in V
        by (unfold parts_bytes; cbn [sp_pfx sp_x sp_o sp_z sp_h]; now rewrite <- !app_assoc).
      apply open_view_parts in V.
      2:{ repeat split; try assumption; cbn [sp_pfx sp_o]; [apply LP | |].
          - rewrite mix_length; [exact LO | now rewrite LO].
          - now apply wf_mix. }
      destruct V as (Ex & _). cbn [sp_x sp_o sp_z sp_h] in Ex. rewrite VC in Ex.
      right. destruct (collides_or_eq _ _ Ex) as [e|c].
      + left. rewrite e. reflexivity.
      + right. exists m. split; [lia|]. rewrite M20. exact c.
    - (* inside the size field *)
      replace (P ++ (C ++ O ++ mix m Zf ZB ++ HB) ++ skipn 32 I)
        with (parts_bytes (mkParts P C O (mix m Zf ZB) HB) ++ skipn 32 I) in V
        by (unfold parts_bytes; cbn [sp_pfx sp_x sp_o sp_z sp_h]; now rewrite <- !app_assoc).
      apply open_view_parts in V.
      2:{ repeat split; try assumption; cbn [sp_pfx sp_z]; [apply LP | |].
          - rewrite mix_length; [exact LZ | now rewrite LZ].
          - now apply wf_mix. }
      destruct V as (Ex & _). cbn [sp_x sp_o sp_z sp_h] in Ex. rewrite VC in Ex.
      right. destruct (collides_or_eq _ _ Ex) as [e|c].
      + left. rewrite e. reflexivity.
      + right. exists (8 + m)%nat. rewrite M20. split; [|exact c].
        assert (m8 : m <> 8%nat).
        { intros ->. rewrite mix_all in Ex by (rewrite ?LZ, ?L3; reflexivity || lia).
          destruct c as [c _]. apply c. rewrite mix_all by (rewrite ?LZ, ?L3; reflexivity || lia).
          f_equal. f_equal.
          apply (burst4_eq (O ++ Zf) HB Hf []); try assumption; try reflexivity;
            try (rewrite ?L4, ?LH; apply Nat.le_refl); try (rewrite ?L4, ?LH; reflexivity);
            try (rewrite L4; repeat constructor).
          rewrite !app_nil_r, <- !app_assoc. exact Ex. }
        clear - Lm m8. lia.
    - (* inside the next-header CRC field: a window of 4 bytes *)
      replace (P ++ (C ++ O ++ Zf ++ mix m Hf HB) ++ skipn 32 I)
        with (parts_bytes (mkParts P C O Zf (mix m Hf HB)) ++ skipn 32 I) in V
        by (unfold parts_bytes; cbn [sp_pfx sp_x sp_o sp_z sp_h]; now rewrite <- !app_assoc).
      apply open_view_parts in V.
      2:{ repeat split; try assumption; cbn [sp_pfx sp_h]; [apply LP |].
          rewrite mix_length; [exact LH | now rewrite LH]. }
      destruct V as (Ex & _). cbn [sp_x sp_o sp_z sp_h] in Ex. rewrite VC in Ex.
      assert (EH : mix m Hf HB = Hf).
      { apply (burst4_eq (O ++ Zf) _ Hf []); try assumption.
        - now apply wf_mix.
        - rewrite mix_length; [reflexivity | now rewrite LH].
        - rewrite mix_length; [rewrite LH; apply Nat.le_refl | now rewrite LH].
        - rewrite !app_nil_r, <- !app_assoc. exact Ex. }
      right. left. rewrite EH. reflexivity.
  Qed.

  (* the same analysis with ANYTHING after the 32 signature bytes *)
  Lemma append_sig_analysis : forall rest n h, (n <= 24)%nat ->
    open_view (P ++ mix n N24 B24 ++ rest) = Some h ->
    mix n N24 B24 = B24 \/ mix n N24 B24 = N24
    \/ exists m, (m < 16)%nat /\
         collides (mix m (new20 base pre hdr) (OB ++ ZB ++ HB)) (new20 base pre hdr).
  Proof.
    intros rest n h Hn V.
    destruct old_fields as (L1 & L2 & L3 & L4 & W1 & W2 & W3 & W4).
    pose proof old_consistent as OC.
    set (ofs := base + zlenb (concat pre)) in *.
    set (size := zlenb (concat hdr)) in *. set (hc := crc32 (concat hdr)) in *.
    assert (EN : N24 = le_bytes 4 (start_crc ofs size hc) ++ le_bytes 8 ofs ++ le_bytes 8 size ++ le_bytes 4 hc)
      by reflexivity.
    assert (EN20 : new20 base pre hdr = le_bytes 8 ofs ++ le_bytes 8 size ++ le_bytes 4 hc) by reflexivity.
    set (C := le_bytes 4 (start_crc ofs size hc)) in *.
    set (O := le_bytes 8 ofs) in *. set (Zf := le_bytes 8 size) in *. set (Hf := le_bytes 4 hc) in *.
    assert (LC : length C = 4%nat) by apply le_bytes_length.
    assert (LO : length O = 8%nat) by apply le_bytes_length.
    assert (LZ : length Zf = 8%nat) by apply le_bytes_length.
    assert (LH : length Hf = 4%nat) by apply le_bytes_length.
    assert (WC : wf_bytes C = true) by apply le_bytes_wf.
    assert (WO : wf_bytes O = true) by apply le_bytes_wf.
    assert (WZ : wf_bytes Zf = true) by apply le_bytes_wf.
    assert (WH : wf_bytes Hf = true) by apply le_bytes_wf.
    assert (VC : le_value C = crc32 (O ++ Zf ++ Hf)) by (subst C; unfold start_crc, start_fields; apply le4_crc).
    rewrite EN, B24_split in V |- *. rewrite EN20.
    destruct (mix24_cases C O Zf Hf CB OB ZB HB LC LO LZ LH L1 L2 L3 L4 n Hn)
      as [[Ln M]|[[m [En [Lm [M M20]]]]|[[m [En [Lm [M M20]]]]|[m [En [Lm [M M20]]]]]]]; rewrite M in V |- *.
    - left.
      replace (P ++ (mix n C CB ++ OB ++ ZB ++ HB) ++ rest)
        with (parts_bytes (mkParts P (mix n C CB) OB ZB HB) ++ rest) in V
        by (unfold parts_bytes; cbn [sp_pfx sp_x sp_o sp_z sp_h]; now rewrite <- !app_assoc).
      apply open_view_parts in V.
      2:{ repeat split; try assumption; cbn [sp_pfx sp_x]; [apply LP|].
          rewrite mix_length; [exact LC | now rewrite LC]. }
      destruct V as (Ex & _). cbn [sp_x sp_o sp_z sp_h] in Ex.
      f_equal.
      apply le_value_inj; [now apply wf_mix | exact W1 | rewrite mix_length; [now rewrite LC | now rewrite LC] |].
      now rewrite <- Ex, OC.
    - replace (P ++ (C ++ mix m O OB ++ ZB ++ HB) ++ rest)
        with (parts_bytes (mkParts P C (mix m O OB) ZB HB) ++ rest) in V
        by (unfold parts_bytes; cbn [sp_pfx sp_x sp_o sp_z sp_h]; now rewrite <- !app_assoc).
      apply open_view_parts in V.
      2:{ repeat split; try assumption; cbn [sp_pfx sp_o]; [apply LP | |].
          - rewrite mix_length; [exact LO | now rewrite LO].
          - now apply wf_mix. }
      destruct V as (Ex & _). cbn [sp_x sp_o sp_z sp_h] in Ex. rewrite VC in Ex.
      right. destruct (collides_or_eq _ _ Ex) as [e|c].
      + left. rewrite e. reflexivity.
      + right. exists m. split; [clear - Lm; lia|]. rewrite M20. exact c.
    - replace (P ++ (C ++ O ++ mix m Zf ZB ++ HB) ++ rest)
        with (parts_bytes (mkParts P C O (mix m Zf ZB) HB) ++ rest) in V
        by (unfold parts_bytes; cbn [sp_pfx sp_x sp_o sp_z sp_h]; now rewrite <- !app_assoc).
      apply open_view_parts in V.
      2:{ repeat split; try assumption; cbn [sp_pfx sp_z]; [apply LP | |].
          - rewrite mix_length; [exact LZ | now rewrite LZ].
          - now apply wf_mix. }
      destruct V as (Ex & _). cbn [sp_x sp_o sp_z sp_h] in Ex. rewrite VC in Ex.
      right. destruct (collides_or_eq _ _ Ex) as [e|c].
      + left. rewrite e. reflexivity.
      + right. exists (8 + m)%nat. rewrite M20. split; [|exact c].
        assert (m8 : m <> 8%nat).
        { intros ->. rewrite mix_all in Ex by (rewrite ?LZ, ?L3; reflexivity || lia).
          destruct c as [c _]. apply c. rewrite mix_all by (rewrite ?LZ, ?L3; reflexivity || lia).
          f_equal. f_equal.
          apply (burst4_eq (O ++ Zf) HB Hf []); try assumption; try reflexivity;
            try (rewrite ?L4, ?LH; apply Nat.le_refl); try (rewrite ?L4, ?LH; reflexivity);
            try (rewrite L4; repeat constructor).
          rewrite !app_nil_r, <- !app_assoc. exact Ex. }
        clear - Lm m8. lia.
    - replace (P ++ (C ++ O ++ Zf ++ mix m Hf HB) ++ rest)
        with (parts_bytes (mkParts P C O Zf (mix m Hf HB)) ++ rest) in V
        by (unfold parts_bytes; cbn [sp_pfx sp_x sp_o sp_z sp_h]; now rewrite <- !app_assoc).
      apply open_view_parts in V.
      2:{ repeat split; try assumption; cbn [sp_pfx sp_h]; [apply LP |].
          rewrite mix_length; [exact LH | now rewrite LH]. }
      destruct V as (Ex & _). cbn [sp_x sp_o sp_z sp_h] in Ex. rewrite VC in Ex.
      assert (EH : mix m Hf HB = Hf).
      { apply (burst4_eq (O ++ Zf) _ Hf []); try assumption.
        - now apply wf_mix.
        - rewrite mix_length; [reflexivity | now rewrite LH].
        - rewrite mix_length; [rewrite LH; apply Nat.le_refl | now rewrite LH].
        - rewrite !app_nil_r, <- !app_assoc. exact Ex. }
      right. left. rewrite EH. reflexivity.
  Qed.
End Append.

(* ------------------------------------------------------------------ *)
(* append: statements in closed form                                   *)
(* ------------------------------------------------------------------ *)
Definition old20 (old : bytes) : bytes := firstn 20 (skipn 12 old).

Lemma old20_fields old :
  firstn 8 (skipn 4 (firstn 24 (skipn 8 old))) ++ firstn 8 (skipn 12 (firstn 24 (skipn 8 old))) ++
  skipn 20 (firstn 24 (skipn 8 old)) = old20 old.
Proof.
  unfold old20. set (B := firstn 24 (skipn 8 old)).
  assert (E : firstn 20 (skipn 12 old) = skipn 4 B).
  { subst B. rewrite skipn_firstn_comm, skipn_skipn_add. reflexivity. }
  rewrite E.
  replace (skipn 20 B) with (skipn 8 (skipn 12 B)) by (rewrite skipn_skipn_add; reflexivity).
  rewrite firstn_skipn.
  replace (skipn 12 B) with (skipn 8 (skipn 4 B)) by (rewrite skipn_skipn_add; reflexivity).
  apply firstn_skipn.
Qed.

Lemma open_view_magic a h : open_view a = Some h -> firstn 6 a = MAGIC.
Proof.
  unfold open_view, sig_ok. destruct (32 <=? zlenb a); [|discriminate].
  destruct (bytes_eqb (firstn 6 a) MAGIC) eqn:E; [|discriminate]. intros _. now apply bytes_eqb_true.
Qed.

Theorem append_crash_safe_proof : forall old p pre hdr oh,
  wf_bytes old = true -> open_view old = Some oh -> (32 <= p <= length old)%nat ->
  forall k j h,
  open_view (image_at old (append_trace old p pre hdr) k j) = Some h ->
  (firstn p (image_at old (append_trace old p pre hdr) k j) = firstn p old /\ (h = oh \/ collides h oh))
  \/ image_at old (append_trace old p pre hdr) k j = final_image old (append_trace old p pre hdr)
  \/ exists m, (m < 16)%nat /\
       collides (mix m (new20 (Z.of_nat p - 32) pre hdr) (old20 old)) (new20 (Z.of_nat p - 32) pre hdr).
Proof.
  intros old p pre hdr oh W V Hp k j h Vi.
  pose proof (append_crash_safe_sec old p pre hdr Hp (open_view_magic _ _ V) oh V W k j h Vi) as R.
  rewrite old20_fields in R. exact R.
Qed.

Theorem append_final_accepts_proof : forall old p pre hdr oh,
  open_view old = Some oh -> (32 <= p <= length old)%nat ->
  Z.of_nat p + zlenb (concat pre) < 2 ^ 63 -> zlenb (concat hdr) < 2 ^ 63 ->
  open_view (final_image old (append_trace old p pre hdr)) = Some (concat hdr).
Proof.
  intros old p pre hdr oh V Hp B1 B2.
  rewrite (append_final old p pre hdr Hp (open_view_magic _ _ V)), new24_base.
  set (ofs := Z.of_nat p - 32 + zlenb (concat pre)) in *.
  set (size := zlenb (concat hdr)) in *. set (hc := crc32 (concat hdr)) in *.
  assert (N1 : 0 <= ofs) by (subst ofs; unfold zlenb; lia).
  assert (N2 : 0 <= size) by (subst size; unfold zlenb; lia).
  assert (VO : le_value (le_bytes 8 ofs) = ofs).
  { apply le_value_le_bytes_small. change (256 ^ Z.of_nat 8) with (2 ^ 64). subst ofs. unfold zlenb in *. lia. }
  assert (VZ : le_value (le_bytes 8 size) = size).
  { apply le_value_le_bytes_small. change (256 ^ Z.of_nat 8) with (2 ^ 64). lia. }
  set (rest := skipn 32 (write_at old p (body pre hdr))).
  assert (SL : slice rest ofs size = concat hdr).
  { subst rest. rewrite write_at_in by lia.
    rewrite skipn_app_le by (rewrite firstn_length; lia).
    unfold body. rewrite concat_app, <- !app_assoc.
    rewrite (app_assoc (skipn 32 (firstn p old))).
    replace ofs with (Z.of_nat (length (skipn 32 (firstn p old) ++ concat pre))).
    2:{ rewrite app_length, skipn_length, firstn_length. subst ofs. unfold zlenb. lia. }
    subst size. unfold zlenb. apply slice_mid. }
  replace (firstn 8 old ++ (le_bytes 4 (start_crc ofs size hc) ++ le_bytes 8 ofs ++ le_bytes 8 size ++ le_bytes 4 hc) ++ rest)
    with (parts_bytes (mkParts (firstn 8 old) (le_bytes 4 (start_crc ofs size hc)) (le_bytes 8 ofs) (le_bytes 8 size) (le_bytes 4 hc))
          ++ rest)
    by (unfold parts_bytes; cbn [sp_pfx sp_x sp_o sp_z sp_h]; now rewrite <- !app_assoc).
  rewrite open_view_parts_ok; cbn [sp_pfx sp_x sp_o sp_z sp_h]; rewrite ?VO, ?VZ, ?SL.
  - reflexivity.
  - repeat split; try apply le_bytes_length; try apply le_bytes_wf. cbn [sp_pfx]. rewrite firstn_length. apply open_view_long in V. lia.
  - rewrite firstn_firstn. apply (open_view_magic _ _ V).
  - unfold start_crc, start_fields. symmetry. apply le4_crc.
  - subst ofs. lia.
  - exact B2.
  - subst hc. symmetry. apply le4_crc.
Qed.

(* ------------------------------------------------------------------ *)
(* blocks reaching the disk out of order (no fsync anywhere in py7zr)  *)
(* ------------------------------------------------------------------ *)
(* whatever else is or is not on disk: with the NEW signature header in place the reader
   gets the new next header or a CRC collision of it ... *)
Theorem create_sig_first_safe_proof : forall pre hdr img h,
  32 + zlenb (concat pre) < 2 ^ 63 -> zlenb (concat hdr) < 2 ^ 63 ->
  firstn 32 img = firstn 32 (final_image [] (create_trace pre hdr)) ->
  open_view img = Some h -> h = concat hdr \/ collides h (concat hdr).
Proof.
  intros pre hdr img h B1 B2 E V.
  exact (view_by_sig_proof _ _ _ _ E V (create_final_accepts_proof pre hdr B1 B2)).
Qed.

Theorem append_sig_first_safe_proof : forall old p pre hdr oh img h,
  open_view old = Some oh -> (32 <= p <= length old)%nat ->
  Z.of_nat p + zlenb (concat pre) < 2 ^ 63 -> zlenb (concat hdr) < 2 ^ 63 ->
  firstn 32 img = firstn 32 (final_image old (append_trace old p pre hdr)) ->
  open_view img = Some h -> h = concat hdr \/ collides h (concat hdr).
Proof.
  intros old p pre hdr oh img h V Hp B1 B2 E Vi.
  exact (view_by_sig_proof _ _ _ _ E Vi (append_final_accepts_proof old p pre hdr oh V Hp B1 B2)).
Qed.

(* ... and the complete session with ONE of the four field writes of the final signature
   header lost (that field keeps the bytes it had before: placeholder or old archive) *)
Definition lost_sig24 (lost : nat) (C O Zf Hf CB OB ZB HB : bytes) : bytes :=
  (if Nat.eqb lost 0 then CB else C) ++ (if Nat.eqb lost 1 then OB else O) ++
  (if Nat.eqb lost 2 then ZB else Zf) ++ (if Nat.eqb lost 3 then HB else Hf).

Theorem sig_field_lost_proof : forall P C O Zf Hf CB OB ZB HB rest lost h,
  length P = 8%nat -> length C = 4%nat -> length O = 8%nat -> length Zf = 8%nat -> length Hf = 4%nat ->
  length CB = 4%nat -> length OB = 8%nat -> length ZB = 8%nat -> length HB = 4%nat ->
  wf_bytes C = true -> wf_bytes O = true -> wf_bytes Zf = true -> wf_bytes Hf = true ->
  wf_bytes CB = true -> wf_bytes OB = true -> wf_bytes ZB = true -> wf_bytes HB = true ->
  le_value C = crc32 (O ++ Zf ++ Hf) -> (lost < 4)%nat ->
  open_view (P ++ lost_sig24 lost C O Zf Hf CB OB ZB HB ++ rest) = Some h ->
  lost_sig24 lost C O Zf Hf CB OB ZB HB = C ++ O ++ Zf ++ Hf
  \/ (lost = 1%nat /\ skipn 4 OB <> skipn 4 O /\ collides (OB ++ Zf ++ Hf) (O ++ Zf ++ Hf))
  \/ (lost = 2%nat /\ skipn 4 ZB <> skipn 4 Zf /\ collides (O ++ ZB ++ Hf) (O ++ Zf ++ Hf)).
Proof.
  intros P C O Zf Hf CB OB ZB HB rest lost h LP LC LO LZ LH LCB LOB LZB LHB WC WO WZ WH WCB WOB WZB WHB VC Hl V.
  unfold lost_sig24 in *.
  destruct lost as [|[|[|[|l]]]]; [ | | | | exfalso; clear - Hl; lia]; cbn [Nat.eqb] in V |- *.
  - replace (P ++ (CB ++ O ++ Zf ++ Hf) ++ rest) with (parts_bytes (mkParts P CB O Zf Hf) ++ rest) in V
      by (unfold parts_bytes; cbn [sp_pfx sp_x sp_o sp_z sp_h]; now rewrite <- !app_assoc).
    apply open_view_parts in V; [| repeat split; assumption].
    destruct V as (Ex & _). cbn [sp_x sp_o sp_z sp_h] in Ex.
    left. f_equal. apply le_value_inj; try assumption; [now rewrite LC | now rewrite <- Ex, VC].
  - replace (P ++ (C ++ OB ++ Zf ++ Hf) ++ rest) with (parts_bytes (mkParts P C OB Zf Hf) ++ rest) in V
      by (unfold parts_bytes; cbn [sp_pfx sp_x sp_o sp_z sp_h]; now rewrite <- !app_assoc).
    apply open_view_parts in V; [| repeat split; assumption].
    destruct V as (Ex & _). cbn [sp_x sp_o sp_z sp_h] in Ex. rewrite VC in Ex.
    destruct (collides_or_eq _ _ Ex) as [e|c]; [left; now rewrite e|].
    right. left. split; [reflexivity|]. split; [|exact c].
    intros Q. destruct c as [c _]. apply c.
    rewrite <- (firstn_skipn 4 OB), <- (firstn_skipn 4 O) in Ex |- *. rewrite Q in Ex |- *.
    rewrite <- !app_assoc in Ex |- *.
    f_equal.
    apply (burst4_eq [] (firstn 4 OB) (firstn 4 O) (skipn 4 O ++ Zf ++ Hf)).
    + now apply wf_bytes_firstn.
    + now apply wf_bytes_firstn.
    + rewrite !firstn_length. lia.
    + rewrite firstn_length. lia.
    + exact Ex.
  - replace (P ++ (C ++ O ++ ZB ++ Hf) ++ rest) with (parts_bytes (mkParts P C O ZB Hf) ++ rest) in V
      by (unfold parts_bytes; cbn [sp_pfx sp_x sp_o sp_z sp_h]; now rewrite <- !app_assoc).
    apply open_view_parts in V; [| repeat split; assumption].
    destruct V as (Ex & _). cbn [sp_x sp_o sp_z sp_h] in Ex. rewrite VC in Ex.
    destruct (collides_or_eq _ _ Ex) as [e|c]; [left; now rewrite e|].
    right. right. split; [reflexivity|]. split; [|exact c].
    intros Q. destruct c as [c _]. apply c.
    rewrite <- (firstn_skipn 4 ZB), <- (firstn_skipn 4 Zf) in Ex |- *. rewrite Q in Ex |- *.
    rewrite <- !app_assoc in Ex |- *.
    f_equal. f_equal.
    apply (burst4_eq O (firstn 4 ZB) (firstn 4 Zf) (skipn 4 Zf ++ Hf)).
    + now apply wf_bytes_firstn.
    + now apply wf_bytes_firstn.
    + rewrite !firstn_length. lia.
    + rewrite firstn_length. lia.
    + exact Ex.
  - replace (P ++ (C ++ O ++ Zf ++ HB) ++ rest) with (parts_bytes (mkParts P C O Zf HB) ++ rest) in V
      by (unfold parts_bytes; cbn [sp_pfx sp_x sp_o sp_z sp_h]; now rewrite <- !app_assoc).
    apply open_view_parts in V; [| repeat split; assumption].
    destruct V as (Ex & _). cbn [sp_x sp_o sp_z sp_h] in Ex. rewrite VC in Ex.
    left. do 3 f_equal.
    apply (burst4_eq (O ++ Zf) HB Hf []); try assumption;
      try (rewrite ?LHB, ?LH; apply Nat.le_refl); try (rewrite ?LHB, ?LH; reflexivity).
    rewrite !app_nil_r, <- !app_assoc. exact Ex.
Qed.

(* ------------------------------------------------------------------ *)
(* descriptors WITHOUT the plain-header CRC (written before the repair): the window *)
(* ------------------------------------------------------------------ *)
Lemma skipn_write_at_beyond img pos d n : (pos + length d <= length img)%nat -> (pos + length d <= n)%nat ->
  skipn n (write_at img pos d) = skipn n img.
Proof.
  intros H Hn. rewrite write_at_in by lia.
  rewrite skipn_app_ge by (rewrite firstn_length; lia).
  rewrite firstn_length. replace (Nat.min pos (length img)) with pos by lia.
  rewrite skipn_app_ge by lia. rewrite skipn_skipn_add. f_equal. lia.
Qed.

Lemma write_at_same_length img pos d : (pos + length d <= length img)%nat ->
  length (write_at img pos d) = length img.
Proof. intros H. rewrite write_at_length by lia. lia. Qed.

Lemma open_view_congr a b : length a = length b -> firstn 32 a = firstn 32 b ->
  dropZ (32 + sig_ofs b) a = dropZ (32 + sig_ofs b) b -> open_view a = open_view b.
Proof.
  intros L E D.
  assert (S : forall x y, 0 <= x -> 0 <= y -> x + y <= 32 -> slice a x y = slice b x y).
  { intros x y Hx Hy Hxy. rewrite (slice_firstn a 32), (slice_firstn b 32) by lia. now rewrite E. }
  assert (F6 : firstn 6 a = firstn 6 b).
  { transitivity (firstn 6 (firstn 32 a)); [rewrite firstn_firstn; reflexivity|].
    rewrite E, firstn_firstn. reflexivity. }
  assert (S1 : slice a 12 20 = slice b 12 20) by (apply S; lia).
  assert (S2 : slice a 8 4 = slice b 8 4) by (apply S; lia).
  assert (S3 : slice a 12 8 = slice b 12 8) by (apply S; lia).
  assert (S4 : slice a 20 8 = slice b 20 8) by (apply S; lia).
  assert (S5 : slice a 28 4 = slice b 28 4) by (apply S; lia).
  assert (Hs : forall n, slice a (32 + sig_ofs b) n = slice b (32 + sig_ofs b) n)
    by (intros n; unfold slice; now rewrite D).
  assert (Lz : zlenb a = zlenb b) by (unfold zlenb; now rewrite L).
  unfold open_view, sig_ok.
  assert (O1 : sig_ofs a = sig_ofs b) by (unfold sig_ofs; now rewrite S3).
  assert (O2 : sig_size a = sig_size b) by (unfold sig_size; now rewrite S4).
  assert (O3 : sig_hcrc a = sig_hcrc b) by (unfold sig_hcrc; now rewrite S5).
  rewrite O1, O2, O3, Hs, S1, S2, F6, Lz. reflexivity.
Qed.

Theorem append_encoded_window_proof : forall lim dec old oh f pp ps us d,
  open_view old = Some oh -> enc_desc lim oh = Some (f, (pp, ps, us)) -> f_digestdefined f = false ->
  0 <= pp -> zlenb d = ps -> 32 + pp + ps <= 32 + sig_ofs old ->
  (Z.to_nat (32 + pp) + length d <= length old)%nat ->
  plain_header lim dec (write_at old (Z.to_nat (32 + pp)) d) = dec f d us.
Proof.
  intros lim dec old oh f pp ps us d V ED DD Hpp Hd Hbeyond Hin.
  set (p := Z.to_nat (32 + pp)) in *.
  assert (V' : open_view (write_at old p d) = Some oh).
  { rewrite <- V. apply open_view_congr.
    - now apply write_at_same_length.
    - apply write_at_firstn_keep; lia.
    - unfold dropZ, zlen. rewrite write_at_same_length by exact Hin.
      apply skipn_write_at_beyond; [exact Hin|]. unfold zlenb in Hd. lia. }
  assert (SL : slice (write_at old p d) (32 + pp) ps = d).
  { rewrite slice_nat by (unfold zlenb in Hd; lia). fold p.
    rewrite write_at_in by lia.
    rewrite skipn_app_ge by (rewrite firstn_length; lia).
    rewrite firstn_length. replace (p - Nat.min p (length old))%nat with O by lia.
    cbn [skipn]. subst ps. unfold zlenb. rewrite Nat2Z.id. apply firstn_app_exact. }
  unfold plain_header. rewrite V', ED, SL, DD.
  destruct (dec f d us); reflexivity.
Qed.

(* that state is a crash point of the session: after the first (data) write *)
Lemma append_first_write old p d pre hdr :
  image_at old (append_trace old p (d :: pre) hdr) 1 (length d) = write_at old p d.
Proof.
  unfold image_at, image_from, append_trace. cbn [app map firstn nth_error run fold_left apply_op fst snd].
  now rewrite firstn_all.
Qed.

(* a concrete instance: identity ("copy") decoder, a two-byte packed header *)
Definition toy_desc : bytes := [23; 6; 0; 1; 9; 2; 0; 7; 11; 1; 0; 1; 1; 0; 12; 2; 0; 0].
Definition toy_old : bytes :=
  MAGIC ++ [0; 4] ++ sig_fields (start_crc 2 18 (crc32 toy_desc)) 2 18 (crc32 toy_desc) ++ [1; 0] ++ toy_desc.
Definition copy_dec (f : folder) (b : bytes) (us : Z) : option bytes := Some b.

Theorem legacy_descriptor_witness_proof :
  exists lim dec old p pre hdr k j h,
    wf_bytes old = true /\ (32 <= p <= length old)%nat /\
    plain_header lim dec old = Some [1; 0] /\
    plain_header lim dec (final_image old (append_trace old p pre hdr)) = Some [1; 0] /\
    plain_header lim dec (image_at old (append_trace old p pre hdr) k j) = Some h /\
    h <> [1; 0].
Proof.
  exists 1000, copy_dec, toy_old, 32%nat, [[7; 7]], [[1; 0]], 1%nat, 2%nat, [7; 7].
  repeat split; try (vm_compute; reflexivity); try (vm_compute; lia).
  discriminate.
Qed.

(* ------------------------------------------------------------------ *)
(* one data/header write lost, at the level of operations              *)
(* ------------------------------------------------------------------ *)
Lemma write_at_length_ge_gen img pos d : (length img <= length (write_at img pos d))%nat.
Proof.
  destruct d as [|x d]; [cbn; lia|]. unfold write_at.
  rewrite !app_length, firstn_length, zeros_length, skipn_length. cbn [length]. lia.
Qed.

Lemma write_at_app_l A R c d : (c <= length A)%nat ->
  write_at (A ++ R) c d = write_at A c d ++ skipn (c + length d - length A) R.
Proof.
  intros H. rewrite (write_at_in (A ++ R)) by (rewrite app_length; lia). rewrite (write_at_in A) by lia.
  rewrite firstn_app_le by lia. rewrite skipn_app. rewrite <- !app_assoc. reflexivity.
Qed.

Lemma firstn32_write_at_high X c d : (32 <= c)%nat -> (32 <= length X)%nat ->
  firstn 32 (write_at X c d) = firstn 32 X.
Proof.
  intros Hc HX. destruct d as [|x d]; [reflexivity|]. unfold write_at.
  rewrite firstn_app_le by (rewrite firstn_length; lia).
  rewrite firstn_firstn. f_equal. lia.
Qed.

Lemma write_at_agree a b c d : firstn 32 a = firstn 32 b -> (32 <= length a)%nat -> (32 <= length b)%nat ->
  firstn 32 (write_at a c d) = firstn 32 (write_at b c d).
Proof.
  intros E La Lb. destruct (Nat.le_gt_cases 32 c) as [H|H].
  - rewrite !firstn32_write_at_high by assumption. exact E.
  - assert (Ea : a = firstn 32 a ++ skipn 32 a) by (symmetry; apply firstn_skipn).
    assert (Eb : b = firstn 32 b ++ skipn 32 b) by (symmetry; apply firstn_skipn).
    rewrite Ea, Eb. rewrite !write_at_app_l by (rewrite firstn_length; lia).
    assert (G : forall A X, (32 <= length A)%nat -> firstn 32 (write_at A c d ++ X) = firstn 32 (write_at A c d)).
    { intros A X HA. apply firstn_app_le. eapply Nat.le_trans; [exact HA | apply write_at_length_ge_gen]. }
    rewrite !G by (rewrite firstn_length; lia). now rewrite E.
Qed.

Definition agree32 (a b : fstate) : Prop :=
  snd a = snd b /\ firstn 32 (fst a) = firstn 32 (fst b) /\
  (32 <= length (fst a))%nat /\ (32 <= length (fst b))%nat.

Lemma agree_step s1 s2 o : agree32 s1 s2 -> agree32 (apply_op s1 o) (apply_op s2 o).
Proof.
  intros (C & E & L1 & L2). destruct o as [p|d]; cbn [apply_op fst snd].
  - repeat split; assumption.
  - rewrite C. repeat split.
    + now apply write_at_agree.
    + eapply Nat.le_trans; [exact L1 | apply write_at_length_ge_gen].
    + eapply Nat.le_trans; [exact L2 | apply write_at_length_ge_gen].
Qed.

Lemma agree_run tr : forall s1 s2, agree32 s1 s2 -> agree32 (run tr s1) (run tr s2).
Proof.
  induction tr as [|o r IH]; intros s1 s2 H; [exact H|].
  unfold run in *. cbn [fold_left]. apply IH, agree_step, H.
Qed.

Lemma lost_step s o : (32 <= snd s)%nat -> (32 <= length (fst s))%nat ->
  agree32 (apply_op_lost s o) (apply_op s o).
Proof.
  intros Hc Hl. destruct o as [p|d]; cbn [apply_op apply_op_lost fst snd].
  - repeat split; assumption.
  - repeat split; try assumption.
    + symmetry. now apply firstn32_write_at_high.
    + eapply Nat.le_trans; [exact Hl | apply write_at_length_ge_gen].
Qed.

Lemma run_lost_agree : forall tr d st, (d < length tr)%nat ->
  (32 <= snd (run (firstn d tr) st))%nat -> (32 <= length (fst (run (firstn d tr) st)))%nat ->
  agree32 (run_lost tr d st) (run tr st).
Proof.
  induction tr as [|o r IH]; intros d st Hd Hc Hl; [cbn in Hd; lia|].
  destruct d as [|d'].
  - cbn [run_lost]. cbn [firstn] in Hc, Hl. unfold run in Hc, Hl. cbn [fold_left] in Hc, Hl.
    change (run (o :: r) st) with (run r (apply_op st o)).
    apply agree_run, lost_step; assumption.
  - cbn [run_lost]. change (run (o :: r) st) with (run r (apply_op st o)).
    apply IH; [cbn [length] in Hd; lia | |];
      change (run (firstn (S d') (o :: r)) st) with (run (firstn d' r) (apply_op st o)) in *; assumption.
Qed.

Lemma run_lost_beyond : forall tr d st, (length tr <= d)%nat -> run_lost tr d st = run tr st.
Proof.
  induction tr as [|o r IH]; intros d st H; [reflexivity|].
  destruct d as [|d']; [cbn in H; lia|].
  cbn [run_lost]. change (run (o :: r) st) with (run r (apply_op st o)). apply IH. cbn [length] in H. lia.
Qed.

Lemma image_lost_same old tr d k j : (k <= d)%nat -> image_lost old tr d k j = image_at old tr k j.
Proof.
  intros H. unfold image_lost, image_at, image_from.
  rewrite run_lost_beyond; [reflexivity|]. rewrite firstn_length. lia.
Qed.

(* a lost write at an offset >= 32 leaves the 32 signature bytes of every later crash image as they are without the loss *)
Lemma image_lost_sig old tr d k j : (d < k)%nat -> (d < length tr)%nat ->
  (32 <= snd (run (firstn d tr) (old, O)))%nat -> (32 <= length (fst (run (firstn d tr) (old, O))))%nat ->
  firstn 32 (image_lost old tr d k j) = firstn 32 (image_at old tr k j) /\
  (32 <= length (image_lost old tr d k j))%nat.
Proof.
  intros Hdk Hd Hc Hl. unfold image_lost, image_at, image_from.
  assert (A : agree32 (run_lost (firstn k tr) d (old, O)) (run (firstn k tr) (old, O))).
  { apply run_lost_agree.
    - rewrite firstn_length. lia.
    - rewrite firstn_firstn. replace (Nat.min d k) with d by lia. exact Hc.
    - rewrite firstn_firstn. replace (Nat.min d k) with d by lia. exact Hl. }
  destruct A as (C & E & L1 & L2).
  destruct (nth_error tr k) as [[p|x]|].
  - split; assumption.
  - rewrite C. split.
    + now apply write_at_agree.
    + eapply Nat.le_trans; [exact L1 | apply write_at_length_ge_gen].
  - split; assumption.
Qed.

Lemma firstn32_split (img : bytes) : (32 <= length img)%nat -> img = firstn 32 img ++ skipn 32 img.
Proof. intros _. symmetry. apply firstn_skipn. Qed.

(* create: where the cursor is when a data/header write is issued *)
Lemma create_body_state pre hdr i : (i <= length (pre ++ hdr))%nat ->
  (32 <= snd (run (firstn (9 + i) (create_trace pre hdr)) ([], O)))%nat /\
  (32 <= length (fst (run (firstn (9 + i) (create_trace pre hdr)) ([], O))))%nat.
Proof.
  intros Hi. rewrite create_trace_segs.
  set (s1 := (O, [MAGIC; [0]; [4]; le_bytes 4 1; le_bytes 8 2; le_bytes 8 3; le_bytes 4 4])).
  set (s3 := (O, _)).
  assert (L1 : length (seg_trace s1) = 8%nat) by reflexivity.
  rewrite firstn_app_ge by (rewrite L1; lia). rewrite L1.
  replace (9 + i - 8)%nat with (S i) by lia.
  change (seg_trace (32%nat, pre ++ hdr)) with (Seek 32 :: map Write (pre ++ hdr)).
  cbn [firstn app].
  rewrite firstn_app_le by (rewrite map_length; exact Hi).
  rewrite firstn_map. rewrite run_app.
  assert (R1 : run (seg_trace s1) ([], O) = (skeleton32, 32%nat)).
  { rewrite run_seg by (cbn; lia). reflexivity. }
  unfold bytes in *. rewrite R1.
  change (run (Seek 32 :: map Write (firstn i (pre ++ hdr))) (skeleton32, 32%nat))
    with (run (map Write (firstn i (pre ++ hdr))) (skeleton32, 32%nat)).
  rewrite run_writes by (cbn; lia). cbn [fst snd]. split; [lia|].
  eapply Nat.le_trans; [|apply write_at_length_ge_gen]. cbn. lia.
Qed.

Theorem create_lost_body_write_safe_proof : forall pre hdr i k j h,
  32 + zlenb (concat pre) < 2 ^ 63 -> zlenb (concat hdr) < 2 ^ 63 ->
  (i < length (pre ++ hdr))%nat ->
  open_view (image_lost [] (create_trace pre hdr) (9 + i) k j) = Some h ->
  (h = concat hdr \/ collides h (concat hdr))
  \/ exists m, (9 <= m <= 15)%nat /\ 256 ^ (Z.of_nat m - 8) <= zlenb (concat hdr) /\
       collides (mix m (new20 0 pre hdr) skel20) (new20 0 pre hdr) /\ crc32 h = 4.
Proof.
  intros pre hdr i k j h B1 B2 Hi V.
  destruct (Nat.le_gt_cases k (9 + i)) as [Hk|Hk].
  { rewrite image_lost_same in V by exact Hk.
    destruct (create_crash_safe_proof pre hdr k j h V) as [e|r]; [left | right; exact r].
    rewrite e, (create_final_accepts_proof pre hdr B1 B2) in V. injection V as V. left. now symmetry. }
  destruct (create_body_state pre hdr i (Nat.lt_le_incl _ _ Hi)) as [Sc Sl].
  assert (Ld : (9 + i < length (create_trace pre hdr))%nat).
  { unfold create_trace, skeleton_writes, sig_writes. rewrite !app_length, !map_length. cbn [length].
    rewrite app_length in Hi. unfold bytes in *. lia. }
  destruct (image_lost_sig [] (create_trace pre hdr) (9 + i) k j Hk Ld Sc Sl) as [E L].
  set (img := image_lost [] (create_trace pre hdr) (9 + i) k j) in *.
  rewrite (firstn32_split img L) in V. rewrite E in V.
  destruct (create_images pre hdr k j) as [[t [Ht A]]|[[t A]|[n [Hn A]]]]; rewrite A in V, E.
  - exfalso. destruct (Nat.eq_dec t 32) as [e|ne].
    + subst t. rewrite firstn_firstn in V. change (firstn (Nat.min 32 32) skeleton32) with skeleton32 in V.
      rewrite skeleton_rejected in V. discriminate V.
    + assert (Q : (length (firstn 32 img) < 32)%nat).
      { rewrite E, firstn_firstn, firstn_length. change (length skeleton32) with 32%nat. lia. }
      rewrite firstn_length in Q. lia.
  - exfalso. rewrite firstn_app_le in V by (change (length skeleton32) with 32%nat; lia).
    change (firstn 32 skeleton32) with skeleton32 in V. rewrite skeleton_rejected in V. discriminate V.
  - assert (L24 : length (mix n (new24 0 pre hdr) skel24) = 24%nat)
      by (rewrite mix_length; [apply new24_length | now rewrite new24_length]).
    assert (F : firstn 32 (P8 ++ mix n (new24 0 pre hdr) skel24 ++ body pre hdr) = P8 ++ mix n (new24 0 pre hdr) skel24).
    { rewrite app_assoc. rewrite firstn_app_le by (rewrite app_length, L24; cbn; lia).
      apply firstn_all2. rewrite app_length, L24. cbn. lia. }
    rewrite F in V, E. rewrite <- app_assoc in V.
    destruct (create_sig_analysis pre hdr (skipn 32 img) n h Hn V) as [e|r]; [left | right; exact r].
    apply (create_sig_first_safe_proof pre hdr img h B1 B2); [| rewrite (firstn32_split img L), E, <- app_assoc; exact V].
    rewrite E, e, create_final.
    rewrite app_assoc, firstn_app_le by (rewrite app_length, new24_length; cbn; lia).
    rewrite firstn_all2 by (rewrite app_length, new24_length; cbn; lia). reflexivity.
Qed.

Lemma append_body_state old p pre hdr i : (32 <= p <= length old)%nat -> (i <= length (pre ++ hdr))%nat ->
  (32 <= snd (run (firstn (1 + i) (append_trace old p pre hdr)) (old, O)))%nat /\
  (32 <= length (fst (run (firstn (1 + i) (append_trace old p pre hdr)) (old, O))))%nat.
Proof.
  intros Hp Hi. rewrite append_trace_segs.
  change (seg_trace (p, pre ++ hdr)) with (Seek p :: map Write (pre ++ hdr)).
  cbn [Nat.add firstn app].
  rewrite firstn_app_le by (rewrite map_length; exact Hi).
  rewrite firstn_map.
  change (run (Seek p :: map Write (firstn i (pre ++ hdr))) (old, O))
    with (run (map Write (firstn i (pre ++ hdr))) (old, p)).
  rewrite run_writes by lia. cbn [fst snd]. split; [lia|].
  eapply Nat.le_trans; [|apply write_at_length_ge_gen]. lia.
Qed.

Lemma firstn32_old (old : bytes) : (32 <= length old)%nat ->
  firstn 32 old = firstn 8 old ++ firstn 24 (skipn 8 old).
Proof.
  intros H. rewrite (old_split old) at 1.
  rewrite firstn_app_le by (rewrite app_length, !firstn_length, skipn_length; lia).
  apply firstn_all2. rewrite app_length, !firstn_length, skipn_length. lia.
Qed.

Theorem append_lost_body_write_safe_proof : forall old p pre hdr oh i k j h,
  wf_bytes old = true -> open_view old = Some oh -> (32 <= p <= length old)%nat ->
  Z.of_nat p + zlenb (concat pre) < 2 ^ 63 -> zlenb (concat hdr) < 2 ^ 63 ->
  (i < length (pre ++ hdr))%nat ->
  open_view (image_lost old (append_trace old p pre hdr) (1 + i) k j) = Some h ->
  (h = oh \/ collides h oh) \/ (h = concat hdr \/ collides h (concat hdr))
  \/ exists m, (m < 16)%nat /\
       collides (mix m (new20 (Z.of_nat p - 32) pre hdr) (old20 old)) (new20 (Z.of_nat p - 32) pre hdr).
Proof.
  intros old p pre hdr oh i k j h W Vo Hp B1 B2 Hi V.
  pose proof (open_view_magic _ _ Vo) as Hm.
  destruct (Nat.le_gt_cases k (1 + i)) as [Hk|Hk].
  { rewrite image_lost_same in V by exact Hk.
    destruct (append_crash_safe_proof old p pre hdr oh W Vo Hp k j h V) as [[_ r]|[e|r]].
    - left. exact r.
    - right. left. left.
      rewrite e, (append_final_accepts_proof old p pre hdr oh Vo Hp B1 B2) in V. injection V as V. now symmetry.
    - right. right. exact r. }
  destruct (append_body_state old p pre hdr i Hp (Nat.lt_le_incl _ _ Hi)) as [Sc Sl].
  assert (Ld : (1 + i < length (append_trace old p pre hdr))%nat).
  { unfold append_trace, sig_writes. rewrite !app_length, !map_length. cbn [length].
    rewrite app_length in Hi. unfold bytes in *. lia. }
  destruct (image_lost_sig old (append_trace old p pre hdr) (1 + i) k j Hk Ld Sc Sl) as [E L].
  set (img := image_lost old (append_trace old p pre hdr) (1 + i) k j) in *.
  assert (Lo : (32 <= length old)%nat) by lia.
  destruct (append_images old p pre hdr Hp Hm k j) as [[t A]|[n [Hn A]]]; rewrite A in E.
  - (* the signature header is the old one *)
    left. apply (view_by_sig_proof img old h oh); [| exact V | exact Vo].
    rewrite E. apply write_at_firstn_keep; lia.
  - set (B24 := firstn 24 (skipn 8 old)) in *. set (N24 := new24 (Z.of_nat p - 32) pre hdr) in *.
    assert (L24 : length (mix n N24 B24) = 24%nat).
    { rewrite mix_length; unfold N24; rewrite new24_length; [reflexivity|].
      unfold B24. rewrite firstn_length, skipn_length. lia. }
    assert (F : firstn 32 (firstn 8 old ++ mix n N24 B24 ++ skipn 32 (write_at old p (body pre hdr)))
                = firstn 8 old ++ mix n N24 B24).
    { rewrite app_assoc. rewrite firstn_app_le by (rewrite app_length, L24, firstn_length; lia).
      apply firstn_all2. rewrite app_length, L24, firstn_length. lia. }
    rewrite F in E.
    pose proof V as V'. rewrite (firstn32_split img L), E, <- app_assoc in V'.
    subst B24 N24.
    destruct (append_sig_analysis old p pre hdr Hp oh Vo W (skipn 32 img) n h Hn V') as [e|[e|r]].
    + left. apply (view_by_sig_proof img old h oh); [| exact V | exact Vo].
      rewrite E, e. symmetry. now apply firstn32_old.
    + right. left.
      apply (append_sig_first_safe_proof old p pre hdr oh img h Vo Hp B1 B2); [| exact V].
      rewrite E, e, (append_final old p pre hdr Hp Hm).
      rewrite app_assoc, firstn_app_le by (rewrite app_length, firstn_length, new24_length; lia).
      symmetry. apply firstn_all2. rewrite app_length, firstn_length, new24_length. lia.
    + right. right. rewrite old20_fields in r. exact r.
Qed.

(* ------------------------------------------------------------------ *)
(* append, down to the plain header: raw and encoded old headers, any decoder *)
(* ------------------------------------------------------------------ *)
Lemma plain_header_view lim dec img h : plain_header lim dec img = Some h -> exists v, open_view img = Some v.
Proof.
  unfold plain_header. destruct (open_view img) as [v|]; [intros _; now exists v | discriminate].
Qed.

(* with the descriptor's CRC defined, whatever is accepted as plain header under a given next header
   has the CRC the descriptor names *)
Lemma plain_header_protected lim dec a b v ha hb :
  open_view a = Some v -> open_view b = Some v -> desc_protected lim v = true ->
  plain_header lim dec a = Some ha -> plain_header lim dec b = Some hb -> ha = hb \/ collides ha hb.
Proof.
  intros Va Vb Pr Ha Hb. unfold plain_header in Ha, Hb. rewrite Va in Ha. rewrite Vb in Hb.
  unfold desc_protected in Pr.
  destruct (enc_desc lim v) as [[f [[pp ps] us]]|] eqn:ED.
  - apply andb_true_iff in Pr as [Pd Pc]. rewrite Pd in Ha, Hb.
    destruct (f_crc f) as [c|]; [|discriminate Pc].
    destruct (dec f (slice a (32 + pp) ps) us) as [da|]; [|discriminate Ha].
    destruct (dec f (slice b (32 + pp) ps) us) as [db|]; [|discriminate Hb].
    destruct (crc32 da =? c) eqn:Ea; [|discriminate Ha].
    destruct (crc32 db =? c) eqn:Eb; [|discriminate Hb].
    injection Ha as Ha. injection Hb as Hb. subst da db.
    apply collides_or_eq. apply Z.eqb_eq in Ea, Eb. now rewrite Ea, Eb.
  - left. congruence.
Qed.

Theorem append_plain_crash_safe_proof : forall lim dec old p pre hdr oh pho,
  wf_bytes old = true -> open_view old = Some oh -> plain_header lim dec old = Some pho ->
  desc_protected lim oh = true -> (32 <= p <= length old)%nat ->
  forall k j h,
  plain_header lim dec (image_at old (append_trace old p pre hdr) k j) = Some h ->
  (firstn p (image_at old (append_trace old p pre hdr) k j) = firstn p old /\ (h = pho \/ collides h pho))
  \/ (exists v, open_view (image_at old (append_trace old p pre hdr) k j) = Some v /\ collides v oh)
  \/ image_at old (append_trace old p pre hdr) k j = final_image old (append_trace old p pre hdr)
  \/ exists m, (m < 16)%nat /\
       collides (mix m (new20 (Z.of_nat p - 32) pre hdr) (old20 old)) (new20 (Z.of_nat p - 32) pre hdr).
Proof.
  intros lim dec old p pre hdr oh pho W Vo Po Pr Hp k j h Hh.
  destruct (plain_header_view _ _ _ _ Hh) as [v Vv].
  destruct (append_crash_safe_proof old p pre hdr oh W Vo Hp k j v Vv) as [[K [e|c]]|[e|r]].
  - subst v. left. split; [exact K|].
    exact (plain_header_protected lim dec _ old oh h pho Vv Vo Pr Hh Po).
  - right. left. exists v. split; assumption.
  - right. right. left. exact e.
  - right. right. right. exact r.
Qed.

Corollary create_plain_crash_safe_proof : forall lim dec pre hdr k j h,
  plain_header lim dec (image_at [] (create_trace pre hdr) k j) = Some h ->
  image_at [] (create_trace pre hdr) k j = final_image [] (create_trace pre hdr)
  \/ exists m v, (9 <= m <= 15)%nat /\ 256 ^ (Z.of_nat m - 8) <= zlenb (concat hdr) /\
       collides (mix m (new20 0 pre hdr) skel20) (new20 0 pre hdr) /\
       open_view (image_at [] (create_trace pre hdr) k j) = Some v /\ crc32 v = 4.
Proof.
  intros lim dec pre hdr k j h Hh. destruct (plain_header_view _ _ _ _ Hh) as [v Vv].
  destruct (create_crash_safe_proof pre hdr k j v Vv) as [e|[m (A & B & C & D)]]; [left; exact e|].
  right. exists m, v. exact (conj A (conj B (conj C (conj Vv D)))).
Qed.

(* a protected instance: the toy archive with the CRC record in its descriptor *)
Definition toy_desc_crc : bytes :=
  [23; 6; 0; 1; 9; 2; 0; 7; 11; 1; 0; 1; 1; 0; 12; 2; 10; 1] ++ le_bytes 4 (crc32 [1; 0]) ++ [0; 0].
Definition toy_old_crc : bytes :=
  MAGIC ++ [0; 4] ++ sig_fields (start_crc 2 24 (crc32 toy_desc_crc)) 2 24 (crc32 toy_desc_crc) ++ [1; 0] ++ toy_desc_crc.
