(* SelectProofs.v -- theorems about the model of selective extraction (Select.v), property C09. *)
From P7 Require Import Prelude Select.
From Coq Require Import Arith Permutation.
Local Open Scope nat_scope.

(* ---- strings ------------------------------------------------------------------------------ *)
Lemma str_eqb_eq (a b : str) : str_eqb a b = true <-> a = b.
Proof.
  revert b. induction a as [|x a IH]; intros [|y b]; simpl; split; intros H;
    try reflexivity; try discriminate.
  - apply andb_true_iff in H. destruct H as [H1 H2]. apply Z.eqb_eq in H1. apply IH in H2.
    now subst.
  - injection H as -> ->. rewrite Z.eqb_refl. simpl. now apply IH.
Qed.

Lemma str_eqb_refl (a : str) : str_eqb a a = true.
Proof. now apply str_eqb_eq. Qed.

Lemma mem_In (s : str) (l : list str) : mem s l = true <-> In s l.
Proof.
  unfold mem. rewrite existsb_exists. split.
  - intros (x & Hin & He). apply str_eqb_eq in He. now subst.
  - intros Hin. exists s. split; [exact Hin|apply str_eqb_refl].
Qed.

Lemma startswith_app (s t u : str) : startswith s (t ++ u) = true -> startswith s t = true.
Proof.
  revert s. induction t as [|y t IH]; intros s H; [reflexivity|].
  destruct s as [|x s]; simpl in *; [discriminate|].
  apply andb_true_iff in H. destruct H as [H1 H2]. rewrite H1. simpl. now apply IH.
Qed.

Lemma startswith_self_app (t u : str) : startswith (t ++ u) t = true.
Proof. induction t as [|y t IH]; simpl; [reflexivity|]. now rewrite Z.eqb_refl. Qed.

Lemma rts_app_slash (t : str) : remove_trailing_slash (t ++ [47%Z]) = t.
Proof. unfold remove_trailing_slash. rewrite rev_app_distr. simpl. apply rev_involutive. Qed.

(* ---- small list facts --------------------------------------------------------------------- *)
Lemma existsb_same_elements {A} (f : A -> bool) (l l' : list A) :
  (forall x, In x l <-> In x l') -> existsb f l = existsb f l'.
Proof.
  intros H. apply eq_true_iff_eq. rewrite !existsb_exists.
  split; intros (x & Hin & Hf); exists x; (split; [now apply H|exact Hf]).
Qed.

Lemma flat_map_ext_in {A B} (f g : A -> list B) (l : list A) :
  (forall x, In x l -> f x = g x) -> flat_map f l = flat_map g l.
Proof.
  induction l as [|x l IH]; intros H; simpl; [reflexivity|].
  rewrite (H x (or_introl eq_refl)), IH; [reflexivity|]. intros y Hy. apply H. now right.
Qed.

Lemma flat_map_nil_in {A B} (f : A -> list B) (l : list A) :
  (forall x, In x l -> f x = []) -> flat_map f l = [].
Proof.
  induction l as [|x l IH]; intros H; simpl; [reflexivity|].
  rewrite (H x (or_introl eq_refl)), IH; [reflexivity|]. intros y Hy. apply H. now right.
Qed.

Lemma flat_map_filter_neutral {A B} (f : A -> list B) (q : A -> bool) (l : list A) :
  (forall x, In x l -> q x = false -> f x = []) -> flat_map f (filter q l) = flat_map f l.
Proof.
  induction l as [|x l IH]; intros H; simpl; [reflexivity|].
  assert (IH' : flat_map f (filter q l) = flat_map f l) by (apply IH; intros y Hy; apply H; now right).
  destruct (q x) eqn:Hq; simpl; rewrite IH'; [reflexivity|].
  now rewrite (H x (or_introl eq_refl) Hq).
Qed.

Lemma filter_flat_map {A B} (q : B -> bool) (g : A -> list B) (l : list A) :
  filter q (flat_map g l) = flat_map (fun k => filter q (g k)) l.
Proof. induction l as [|x l IH]; simpl; [reflexivity|]. now rewrite filter_app, IH. Qed.

Lemma flat_map_flat_map {A B C} (f : B -> list C) (g : A -> list B) (l : list A) :
  flat_map f (flat_map g l) = flat_map (fun k => flat_map f (g k)) l.
Proof. induction l as [|x l IH]; simpl; [reflexivity|]. now rewrite flat_map_app, IH. Qed.

Lemma fst_snd_eq {A B} (l l' : list (A * B)) :
  map fst l = map fst l' -> map snd l = map snd l' -> l = l'.
Proof.
  revert l'. induction l as [|[a b] l IH]; intros [|[a' b'] l'] H1 H2; simpl in *;
    try reflexivity; try discriminate.
  injection H1 as -> H1. injection H2 as -> H2. f_equal. now apply IH.
Qed.

Lemma nat_list_eqb_eq (l l' : list nat) : nat_list_eqb l l' = true -> l = l'.
Proof.
  revert l'. induction l as [|x l IH]; intros [|y l'] H; simpl in *; try reflexivity; try discriminate.
  apply andb_true_iff in H. destruct H as [H1 H2]. apply Nat.eqb_eq in H1. subst. f_equal. now apply IH.
Qed.

(* ---- enumerate ---------------------------------------------------------------------------- *)
Lemma In_enum_from {A} (l : list A) : forall k i x,
  In (i, x) (enum_from k l) <-> (k <= i /\ nth_error l (i - k) = Some x).
Proof.
  induction l as [|y l IH]; intros k i x; simpl.
  - split; [tauto|]. intros [_ H]. destruct (i - k); discriminate.
  - rewrite IH. split.
    + intros [H|[H1 H2]].
      * injection H as -> ->. rewrite Nat.sub_diag. simpl. auto.
      * split; [lia|]. replace (i - k) with (S (i - S k)) by lia. exact H2.
    + intros [H1 H2]. destruct (Nat.eq_dec i k) as [->|Hne].
      * rewrite Nat.sub_diag in H2. simpl in H2. injection H2 as ->. now left.
      * right. split; [lia|]. replace (i - k) with (S (i - S k)) in H2 by lia. exact H2.
Qed.

Lemma In_enumerate {A} (l : list A) i x : In (i, x) (enumerate l) <-> nth_error l i = Some x.
Proof. unfold enumerate. rewrite In_enum_from, Nat.sub_0_r. split; [tauto|]. split; [lia|assumption]. Qed.

Lemma enum_from_snd {A} (l : list A) k : map snd (enum_from k l) = l.
Proof. revert k. induction l as [|y l IH]; intros k; simpl; [reflexivity|]. now rewrite IH. Qed.

Lemma In_all_files_entry (a : archive) m : In m (all_files a) -> In (snd m) a.
Proof. destruct m as [i e]. intros H. apply In_enumerate in H. eapply nth_error_In; eauto. Qed.

Lemma entry_In_all_files (a : archive) e : In e a -> exists i, In (i, e) (all_files a).
Proof. intros H. apply In_nth_error in H. destruct H as [i H]. exists i. now apply In_enumerate. Qed.

(* members carrying the header index they are stored under *)
Definition good (a : archive) (ms : list (nat * entry)) : Prop :=
  forall m, In m ms -> nth_error a (fst m) = Some (snd m).

Lemma good_all_files a : good a (all_files a).
Proof. intros [i e] H. now apply In_enumerate. Qed.

Lemma good_filter a q ms : good a ms -> good a (filter q ms).
Proof. intros H m Hm. apply filter_In in Hm. now apply H. Qed.

Lemma good_cons a m ms : good a (m :: ms) -> nth_error a (fst m) = Some (snd m) /\ good a ms.
Proof. intros H. split; [apply H; now left|]. intros m' Hm'. apply H. now right. Qed.

(* ---- the worker loop ---------------------------------------------------------------------- *)
Lemma check_skip_app cur pend x : check_skip cur (pend ++ [x]) = check_skip cur pend + x.
Proof. unfold check_skip. now rewrite fold_left_app. Qed.

Lemma reg_of_good a p m :
  nth_error a (fst m) = Some (snd m) ->
  reg_of a p (fst m) = if p (ename (snd m)) && negb (is_dir (snd m)) then Some (ename (snd m)) else None.
Proof. intros H. unfold reg_of. now rewrite H. Qed.

Lemma not_data_content e : is_data e = false -> econtent e = [].
Proof. unfold is_data, econtent. now destruct (ekind e). Qed.

Lemma data_not_dir e : is_data e = true -> is_dir e = false.
Proof. unfold is_data, is_dir. now destruct (ekind e). Qed.

Lemma firstn_skipn_mid {A} (pre c rest : list A) :
  firstn (length c) (skipn (length pre) (pre ++ c ++ rest)) = c.
Proof.
  rewrite skipn_app, skipn_all, Nat.sub_diag. simpl.
  rewrite firstn_app, firstn_all, Nat.sub_diag. simpl. apply app_nil_r.
Qed.

(* cursor invariant: (cursor + queued sizes) = number of bytes of the members already passed *)
Lemma fold_wstep_good a p stream ms : forall pre st,
  good a ms ->
  stream = pre ++ flat_map (fun m => econtent (snd m)) ms ->
  length pre = check_skip (w_cur st) (w_pend st) ->
  w_out (fold_left (wstep (reg_of a p) stream) ms st)
  = w_out st ++ filter (fun x => p (fst x)) (canon ms).
Proof.
  induction ms as [|m ms IH]; intros pre st Hg Hs Hl; simpl.
  - now rewrite app_nil_r.
  - apply good_cons in Hg. destruct Hg as [Hm Hg].
    simpl in Hs. unfold wstep at 2. rewrite (reg_of_good a p m Hm). unfold payload.
    destruct (p (ename (snd m))) eqn:Hp; simpl.
    + destruct (is_dir (snd m)) eqn:Hd; simpl.
      * (* a selected directory: never registered, not a data member *)
        assert (Hnd : is_data (snd m) = false).
        { destruct (is_data (snd m)) eqn:Hx; [|reflexivity]. apply data_not_dir in Hx. congruence. }
        rewrite Hnd. rewrite (not_data_content _ Hnd) in Hs. simpl in Hs.
        now apply (IH pre).
      * rewrite Hp. destruct (is_data (snd m)) eqn:Hx.
        -- rewrite (IH (pre ++ econtent (snd m))); simpl.
           ++ rewrite <- app_assoc. simpl. rewrite Hs, <- Hl. unfold esize.
              now rewrite firstn_skipn_mid.
           ++ exact Hg.
           ++ now rewrite <- app_assoc.
           ++ rewrite app_length, Hl. reflexivity.
        -- rewrite (not_data_content _ Hx) in *. simpl in Hs.
           rewrite (IH pre); simpl; [now rewrite <- app_assoc|exact Hg|exact Hs|exact Hl].
    + destruct (is_data (snd m)) eqn:Hx.
      * rewrite (data_not_dir _ Hx). simpl. rewrite Hp.
        rewrite (IH (pre ++ econtent (snd m))); simpl; [reflexivity|exact Hg|now rewrite <- app_assoc|].
        rewrite app_length, Hl, check_skip_app. reflexivity.
      * rewrite (not_data_content _ Hx) in Hs. simpl in Hs.
        destruct (is_dir (snd m)); simpl; [|rewrite Hp]; now apply (IH pre).
Qed.

Lemma extract_single_good a p stream ms :
  good a ms -> stream = flat_map (fun m => econtent (snd m)) ms ->
  extract_single (reg_of a p) stream ms = filter (fun x => p (fst x)) (canon ms).
Proof.
  intros Hg Hs. unfold extract_single. now rewrite (fold_wstep_good a p stream ms [] (mkW 0 [] []) Hg Hs eq_refl).
Qed.

(* no registered member: nothing is delivered (so skipping the folder changes nothing) *)
Lemma fold_wstep_none reg stream ms : forall st,
  existsb (fun m => is_some (reg (fst m))) ms = false ->
  w_out (fold_left (wstep reg stream) ms st) = w_out st.
Proof.
  induction ms as [|m ms IH]; intros st H; simpl in *; [reflexivity|].
  apply orb_false_iff in H. destruct H as [H1 H2]. rewrite IH by exact H2.
  unfold wstep. destruct (reg (fst m)); [discriminate|]. now destruct (is_data (snd m)).
Qed.

Lemma extract_single_none reg stream ms :
  existsb (fun m => is_some (reg (fst m))) ms = false -> extract_single reg stream ms = [].
Proof. intros H. unfold extract_single. now rewrite fold_wstep_none. Qed.

(* ---- numbering of the folder file lists ---------------------------------------------------- *)
Lemma enum_from_map_snd {A B} (g : A -> B) (l : list A) k :
  map (fun x => g (snd x)) (enum_from k l) = map g l.
Proof. revert k. induction l as [|y l IH]; intros k; simpl; [reflexivity|]. now rewrite IH. Qed.

Lemma folder_files_snd nm a k : map snd (folder_files nm a k) = map snd (folder_members a k).
Proof.
  unfold folder_files. destruct nm; [reflexivity|]. destruct (folder_members a k) as [|[off e0] r] eqn:E; [reflexivity|].
  rewrite map_map. unfold enumerate. simpl. f_equal. apply (enum_from_map_snd snd).
Qed.

Lemma ids_consistent_files nm a k :
  ids_consistent nm a -> 1 < numfolders a -> k < numfolders a -> folder_files nm a k = folder_members a k.
Proof.
  unfold ids_consistent, ids_consistentb. intros H Hn Hk.
  apply orb_true_iff in H. destruct H as [H|H]; [apply Nat.leb_le in H; lia|].
  rewrite forallb_forall in H. specialize (H k). rewrite in_seq in H.
  apply fst_snd_eq; [apply nat_list_eqb_eq, H; lia|apply folder_files_snd].
Qed.

(* ---- Worker.extract ------------------------------------------------------------------------ *)
Lemma data_folder_lt a e f c : In e a -> ekind e = KData f c -> f < numfolders a.
Proof.
  intros Hin He. unfold numfolders.
  assert (H : Forall (fun k => k <= list_max (map (fun e => match ekind e with KData f _ => S f | _ => 0 end) a))
                     (map (fun e => match ekind e with KData f _ => S f | _ => 0 end) a))
    by (apply list_max_le; lia).
  rewrite Forall_forall in H. specialize (H (S f)). apply H.
  apply in_map_iff. exists e. now rewrite He.
Qed.

Lemma single_folder_stream a :
  numfolders a = 1 -> folder_stream a 0 = flat_map (fun m => econtent (snd m)) (all_files a).
Proof.
  intros Hn. unfold folder_stream, folder_members. apply flat_map_filter_neutral.
  intros m Hm Hq. apply In_all_files_entry in Hm. unfold in_folder in Hq. unfold econtent.
  destruct (ekind (snd m)) as [f c| |] eqn:E; try reflexivity.
  pose proof (data_folder_lt a _ f c Hm E) as Hlt. rewrite Hn in Hlt.
  assert (f = 0) by lia. subst. discriminate.
Qed.

Lemma empties_stream a : [] = flat_map (fun m => econtent (snd m)) (empties a).
Proof.
  symmetry. apply flat_map_nil_in. intros m Hm. unfold empties in Hm. apply filter_In in Hm.
  destruct Hm as [_ Hm]. apply negb_true_iff in Hm. now apply not_data_content.
Qed.

Lemma filter_canon_none a p ms :
  good a ms -> existsb (fun m => is_some (reg_of a p (fst m))) ms = false ->
  filter (fun x => p (fst x)) (canon ms) = [].
Proof.
  induction ms as [|m ms IH]; intros Hg H; simpl in *; [reflexivity|].
  apply good_cons in Hg. destruct Hg as [Hm Hg]. apply orb_false_iff in H. destruct H as [H1 H2].
  rewrite filter_app, (IH Hg H2), app_nil_r. rewrite (reg_of_good a p m Hm) in H1. unfold payload.
  destruct (is_dir (snd m)); [reflexivity|]. simpl.
  destruct (p (ename (snd m))); [discriminate|reflexivity].
Qed.

Theorem worker_spec nm a p :
  ids_consistent nm a -> worker nm a (reg_of a p) = filter (fun x => p (fst x)) (all_members a).
Proof.
  intros Hc. unfold worker, all_members, worker_order.
  destruct (numfolders a =? 0) eqn:E0.
  { apply extract_single_good; [apply good_filter, good_all_files|apply empties_stream]. }
  destruct (numfolders a =? 1) eqn:E1.
  { apply Nat.eqb_eq in E1. apply extract_single_good; [apply good_all_files|now apply single_folder_stream]. }
  apply Nat.eqb_neq in E0, E1. unfold canon. rewrite flat_map_app, filter_app. f_equal.
  { apply extract_single_good; [apply good_filter, good_all_files|apply empties_stream]. }
  rewrite flat_map_flat_map, filter_flat_map. apply flat_map_ext_in. intros k Hk. apply in_seq in Hk.
  rewrite (ids_consistent_files nm a k Hc) by lia.
  assert (Hg : good a (folder_members a k)) by apply good_filter, good_all_files.
  destruct (existsb _ (folder_members a k)) eqn:Ex.
  - now apply extract_single_good.
  - symmetry. now apply (filter_canon_none a p).
Qed.

Theorem run_spec nm m a p : ids_consistent nm a -> run nm m a p = spec_run m a p.
Proof. intros Hc. unfold run, spec_run. now rewrite (worker_spec nm a p Hc). Qed.

(* ---- unconditional: selective extraction is the restriction of what extractall delivers,
   whatever the numbering does *)
Definition all_true : str -> bool := fun _ => true.

Lemma reg_of_restrict a p id :
  reg_of a p id = match reg_of a all_true id with
                  | Some n => if p n then Some n else None
                  | None => None
                  end.
Proof.
  unfold reg_of, all_true. destruct (nth_error a id) as [e|]; [|reflexivity]. simpl.
  destruct (is_dir e); simpl; [now rewrite andb_false_r|]. rewrite andb_true_r. reflexivity.
Qed.

Lemma fold_wstep_rel a p stream ms : forall stp sta,
  check_skip (w_cur stp) (w_pend stp) = check_skip (w_cur sta) (w_pend sta) ->
  w_out stp = filter (fun x => p (fst x)) (w_out sta) ->
  w_out (fold_left (wstep (reg_of a p) stream) ms stp)
  = filter (fun x => p (fst x)) (w_out (fold_left (wstep (reg_of a all_true) stream) ms sta)).
Proof.
  induction ms as [|m ms IH]; intros stp sta Hc Ho; simpl; [exact Ho|].
  apply IH.
  - unfold wstep. rewrite (reg_of_restrict a p (fst m)).
    destruct (reg_of a all_true (fst m)) as [n|].
    + destruct (p n); destruct (is_data (snd m)); simpl; rewrite ?check_skip_app, ?Hc; reflexivity.
    + destruct (is_data (snd m)); simpl; rewrite ?check_skip_app, ?Hc; reflexivity.
  - unfold wstep. rewrite (reg_of_restrict a p (fst m)).
    destruct (reg_of a all_true (fst m)) as [n|].
    + destruct (p n) eqn:Hp; destruct (is_data (snd m)); simpl;
        rewrite ?filter_app; simpl; rewrite ?Hp, ?Hc, ?app_nil_r, <- ?Ho; reflexivity.
    + destruct (is_data (snd m)); simpl; exact Ho.
Qed.

Lemma extract_single_rel a p stream ms :
  extract_single (reg_of a p) stream ms
  = filter (fun x => p (fst x)) (extract_single (reg_of a all_true) stream ms).
Proof. unfold extract_single. now apply fold_wstep_rel. Qed.

Lemma skip_immaterial reg stream fs :
  (if existsb (fun m => is_some (reg (fst m))) fs then extract_single reg stream fs else [])
  = extract_single reg stream fs.
Proof.
  destruct (existsb _ fs) eqn:E; [reflexivity|]. symmetry. now apply extract_single_none.
Qed.

Theorem worker_restrict nm a p :
  worker nm a (reg_of a p) = filter (fun x => p (fst x)) (worker nm a (reg_of a all_true)).
Proof.
  unfold worker.
  destruct (numfolders a =? 0); [apply extract_single_rel|].
  destruct (numfolders a =? 1); [apply extract_single_rel|].
  rewrite filter_app, filter_flat_map. f_equal; [apply extract_single_rel|].
  apply flat_map_ext. intros k. rewrite !skip_immaterial. apply extract_single_rel.
Qed.

(* ---- every non-directory member exactly once ------------------------------------------------ *)
Lemma perm_filter_split {A} (q : A -> bool) (l : list A) :
  Permutation (filter (fun x => negb (q x)) l ++ filter q l) l.
Proof.
  induction l as [|x l IH]; simpl; [constructor|].
  destruct (q x); simpl.
  - apply Permutation_sym, Permutation_cons_app, Permutation_sym, IH.
  - now constructor.
Qed.

Lemma flat_map_single {A} (x : A) f n :
  f < n -> flat_map (fun k => if f =? k then [x] else []) (seq 0 n) = [x].
Proof.
  intros Hf. replace n with (f + (1 + (n - f - 1))) by lia.
  rewrite !seq_app, !flat_map_app. simpl.
  rewrite Nat.eqb_refl.
  rewrite (flat_map_nil_in _ (seq 0 f)), (flat_map_nil_in _ (seq (f + 1) (n - f - 1))); [reflexivity| |].
  - intros k Hk. apply in_seq in Hk. destruct (f =? k) eqn:E; [apply Nat.eqb_eq in E; lia|reflexivity].
  - intros k Hk. apply in_seq in Hk. destruct (f =? k) eqn:E; [apply Nat.eqb_eq in E; lia|reflexivity].
Qed.

Lemma perm_flat_map_app {A B} (f g : A -> list B) (l : list A) :
  Permutation (flat_map (fun k => f k ++ g k) l) (flat_map f l ++ flat_map g l).
Proof.
  induction l as [|x l IH]; simpl; [constructor|].
  rewrite <- !app_assoc. apply Permutation_app_head.
  rewrite IH. rewrite !app_assoc. apply Permutation_app_tail. apply Permutation_app_comm.
Qed.

Lemma perm_by_folder (a : archive) (l : list (nat * entry)) n :
  (forall m f c, In m l -> ekind (snd m) = KData f c -> f < n) ->
  Permutation (flat_map (fun k => filter (fun m => in_folder k (snd m)) l) (seq 0 n))
              (filter (fun m => is_data (snd m)) l).
Proof.
  induction l as [|m l IH]; intros H.
  - simpl. rewrite flat_map_nil_in; [constructor|reflexivity].
  - assert (IH' := IH (fun m' f c Hm => H m' f c (or_intror Hm))). clear IH.
    simpl. unfold in_folder at 1, is_data at 1.
    destruct (ekind (snd m)) as [f c| |] eqn:E.
    + rewrite (flat_map_ext _ (fun k => (if f =? k then [m] else []) ++ filter (fun m0 => in_folder k (snd m0)) l)).
      * rewrite perm_flat_map_app. rewrite flat_map_single; [simpl; now constructor|].
        apply (H m f c); [now left|exact E].
      * intros k. now destruct (f =? k).
    + exact IH'.
    + exact IH'.
Qed.

Theorem worker_order_perm a : Permutation (worker_order a) (all_files a).
Proof.
  unfold worker_order.
  destruct (numfolders a =? 0) eqn:E0.
  { apply Nat.eqb_eq in E0. unfold empties. rewrite (proj2 (filter_ext_in_iff _ (fun _ => true) (all_files a))).
    - clear. induction (all_files a) as [|x l IH]; simpl; [constructor|now constructor].
    - intros m Hm. apply In_all_files_entry in Hm. unfold is_data.
      destruct (ekind (snd m)) as [f c| |] eqn:E; try reflexivity.
      pose proof (data_folder_lt a _ f c Hm E). lia. }
  destruct (numfolders a =? 1); [reflexivity|].
  unfold empties, folder_members.
  rewrite (perm_by_folder a (all_files a) (numfolders a)).
  - apply (perm_filter_split (fun m => is_data (snd m))).
  - intros m f c Hm E. apply In_all_files_entry in Hm. exact (data_folder_lt a _ f c Hm E).
Qed.

Lemma canon_perm ms ms' : Permutation ms ms' -> Permutation (canon ms) (canon ms').
Proof.
  unfold canon. induction 1; simpl.
  - constructor.
  - now apply Permutation_app_head.
  - rewrite !app_assoc. apply Permutation_app_tail, Permutation_app_comm.
  - etransitivity; eassumption.
Qed.

Theorem all_members_perm a : Permutation (all_members a) (canon (all_files a)).
Proof. apply canon_perm, worker_order_perm. Qed.

Lemma In_canon x ms : In x (canon ms) <-> exists m, In m ms /\ is_dir (snd m) = false /\
                                                  x = (ename (snd m), econtent (snd m)).
Proof.
  unfold canon. rewrite in_flat_map. split.
  - intros (m & Hm & Hx). exists m. split; [exact Hm|]. unfold payload in Hx.
    destruct (is_dir (snd m)); [destruct Hx|]. destruct Hx as [<-|[]]. auto.
  - intros (m & Hm & Hd & ->). exists m. split; [exact Hm|]. unfold payload. rewrite Hd. now left.
Qed.

Theorem In_all_members a x :
  In x (all_members a) <-> exists e, In e a /\ is_dir e = false /\ x = (ename e, econtent e).
Proof.
  split.
  - intros H. apply (Permutation_in _ (all_members_perm a)) in H. apply In_canon in H.
    destruct H as (m & Hm & Hd & ->). exists (snd m). split; [now apply In_all_files_entry|auto].
  - intros (e & He & Hd & ->). apply (Permutation_in _ (Permutation_sym (all_members_perm a))).
    apply In_canon. destruct (entry_In_all_files a e He) as [i Hi]. exists (i, e). auto.
Qed.

(* ---- dependence on the selection only through the member names ------------------------------ *)
Lemma worker_ext nm a reg reg' : (forall id, reg id = reg' id) -> worker nm a reg = worker nm a reg'.
Proof.
  intros H.
  assert (Hs : forall stream ms, extract_single reg stream ms = extract_single reg' stream ms).
  { intros stream ms. unfold extract_single. generalize (mkW 0 [] []).
    induction ms as [|m ms IH]; intros st; simpl; [reflexivity|].
    rewrite IH. unfold wstep. now rewrite H. }
  unfold worker. rewrite !Hs.
  destruct (numfolders a =? 0); [reflexivity|]. destruct (numfolders a =? 1); [reflexivity|].
  f_equal. apply flat_map_ext. intros k. rewrite Hs.
  replace (existsb (fun m => is_some (reg' (fst m))) (folder_files nm a k))
    with (existsb (fun m => is_some (reg (fst m))) (folder_files nm a k)); [reflexivity|].
  induction (folder_files nm a k) as [|m ms IH]; simpl; [reflexivity|]. now rewrite IH, H.
Qed.

Theorem run_ext nm m a p q : (forall n, In n (names a) -> p n = q n) -> run nm m a p = run nm m a q.
Proof.
  intros H. unfold run.
  assert (Hw : worker nm a (reg_of a p) = worker nm a (reg_of a q)).
  { apply worker_ext. intros id. unfold reg_of. destruct (nth_error a id) as [e|] eqn:E; [|reflexivity].
    rewrite (H (ename e)); [reflexivity|]. apply in_map, (nth_error_In _ _ E). }
  rewrite Hw. destruct m; [|reflexivity]. f_equal. f_equal. f_equal.
  apply filter_ext_in. intros e He. rewrite (H (ename e)); [reflexivity|now apply in_map].
Qed.

Theorem spec_run_ext m a p q : (forall n, In n (names a) -> p n = q n) -> spec_run m a p = spec_run m a q.
Proof.
  intros H. unfold spec_run.
  assert (Hf : filter (fun x => p (fst x)) (all_members a) = filter (fun x => q (fst x)) (all_members a)).
  { apply filter_ext_in. intros x Hx. apply In_all_members in Hx. destruct Hx as (e & He & _ & ->).
    simpl. apply H. now apply in_map. }
  rewrite Hf. destruct m; [|reflexivity]. f_equal. f_equal. f_equal.
  apply filter_ext_in. intros e He. rewrite (H (ename e)); [reflexivity|now apply in_map].
Qed.

(* ---- the selection function ------------------------------------------------------------------ *)
(* the filter of _extract IS the specified selection (recursive matching goes along '/') *)
Theorem sel_spec_agree T recursive n : sel T recursive n = spec_sel T recursive n.
Proof. unfold sel, spec_sel. destruct recursive; simpl; [reflexivity|now rewrite orb_false_r]. Qed.

Lemma sel_same_norm T T' recursive n : targets_norm T = targets_norm T' -> sel T recursive n = sel T' recursive n.
Proof. unfold sel. now intros ->. Qed.

Lemma sel_same_elements T T' recursive n : (forall x, In x T <-> In x T') -> sel T recursive n = sel T' recursive n.
Proof.
  intros H. unfold sel, mem.
  assert (H' : forall x, In x (targets_norm T) <-> In x (targets_norm T')).
  { intros x. unfold targets_norm. rewrite !in_map_iff. split; intros (y & Hy & Hin); exists y; (split; [exact Hy|now apply H]). }
  rewrite (existsb_same_elements (str_eqb n) _ _ H'),
    (existsb_same_elements (fun t => startswith n (t ++ [47%Z])) _ _ H'). reflexivity.
Qed.

Lemma filter_all_true {A} (l : list (str * A)) : filter (fun x => all_true (fst x)) l = l.
Proof. induction l as [|x l IH]; simpl; [reflexivity|]. now rewrite IH. Qed.

(* ---- the theorems of the property ------------------------------------------------------------- *)

(* selective extraction = restriction of full extraction (whole result, directories included),
   and full extraction = every non-directory member with its own bytes *)
Theorem extract_restrict_full nm m a T recursive :
  wf_archive a -> ids_consistent nm a ->
  impl_extract nm m a T recursive = spec_run m a (spec_sel T recursive)
  /\ impl_extract_all nm m a = spec_run m a all_true.
Proof.
  intros _ Hc. unfold impl_extract, impl_extract_all. rewrite !run_spec by exact Hc. split; [|reflexivity].
  apply spec_run_ext. intros n Hn. apply sel_spec_agree.
Qed.

Theorem extract_restrict nm m a T recursive :
  wf_archive a -> ids_consistent nm a ->
  delivered (impl_extract nm m a T recursive)
  = filter (fun x => spec_sel T recursive (fst x)) (delivered (impl_extract_all nm m a))
  /\ delivered (impl_extract_all nm m a) = all_members a.
Proof.
  intros Hw Hc. destruct (extract_restrict_full nm m a T recursive Hw Hc) as [H1 H2].
  rewrite H1, H2. simpl. rewrite (filter_all_true (all_members a)). split; reflexivity.
Qed.

(* what holds with no hypothesis at all (in particular in the defective multi-folder layout) *)
Theorem extract_restrict_relative nm m a T recursive :
  delivered (impl_extract nm m a T recursive)
  = filter (fun x => sel T recursive (fst x)) (delivered (impl_extract_all nm m a)).
Proof. unfold impl_extract, impl_extract_all, run. simpl. apply worker_restrict. Qed.

Theorem absent_ignored nm m a t T recursive :
  ~ In (remove_trailing_slash t) (names a) ->
  (* with recursive: nor is it a directory above a member *)
  (recursive = true -> forall n, In n (names a) -> startswith n (remove_trailing_slash t ++ [47%Z]) = false) ->
  impl_extract nm m a (t :: T) recursive = impl_extract nm m a T recursive.
Proof.
  intros Hab Hrec. unfold impl_extract. apply run_ext. intros n Hn. unfold sel. simpl.
  assert (He : str_eqb n (remove_trailing_slash t) = false).
  { destruct (str_eqb n (remove_trailing_slash t)) eqn:E; [|reflexivity]. apply str_eqb_eq in E. now subst. }
  rewrite He. simpl. destruct recursive; [|reflexivity]. now rewrite (Hrec eq_refl n Hn).
Qed.

Theorem trailing_slash_immaterial nm m a T1 t T2 recursive :
  remove_trailing_slash t = t ->      (* t itself carries no trailing slash *)
  impl_extract nm m a (T1 ++ (t ++ [47%Z]) :: T2) recursive = impl_extract nm m a (T1 ++ t :: T2) recursive.
Proof.
  intros Ht. unfold impl_extract. apply run_ext. intros n _. apply sel_same_norm.
  unfold targets_norm. rewrite !map_app. simpl. now rewrite rts_app_slash, Ht.
Qed.

Theorem targets_as_set nm m a T T' recursive :
  (forall x, In x T <-> In x T') -> impl_extract nm m a T recursive = impl_extract nm m a T' recursive.
Proof. intros H. unfold impl_extract. apply run_ext. intros n _. now apply sel_same_elements. Qed.

(* directories *)
Lemma In_mkdir_p (d q : path) : In d (mkdir_p q) <-> d <> [] /\ exists rest, q = d ++ rest.
Proof.
  unfold mkdir_p. rewrite in_map_iff. split.
  - intros (k & <- & Hk). apply in_seq in Hk. split.
    + destruct q; simpl in *; [lia|]. destruct k; [lia|]. discriminate.
    + exists (skipn k q). now rewrite firstn_skipn.
  - intros (Hd & rest & ->). exists (length d). split.
    + now rewrite firstn_app, Nat.sub_diag, firstn_all, app_nil_r.
    + apply in_seq. rewrite app_length. destruct d; [congruence|simpl; lia].
Qed.

Theorem only_parents_created nm a p d :
  ids_consistent nm a ->
  (In d (dirs_created (run nm true a p)) <->
   d <> [] /\ exists e rest, In e a /\ p (ename e) = true /\ comps (ename e) = d ++ rest
                            /\ (is_dir e = true \/ rest <> [])).
Proof.
  intros Hc. rewrite (run_spec nm true a p Hc). unfold dirs_created, spec_run. simpl.
  rewrite in_flat_map. split.
  - intros (q & Hq & Hd). apply In_mkdir_p in Hd. destruct Hd as (Hne & rest & ->).
    split; [exact Hne|]. apply in_app_or in Hq. destruct Hq as [Hq|Hq].
    + apply in_map_iff in Hq. destruct Hq as (e & He & Hin). apply filter_In in Hin.
      destruct Hin as [Hin Hpd]. apply andb_true_iff in Hpd. destruct Hpd as [Hp Hdir].
      exists e, rest. auto.
    + apply in_map_iff in Hq. destruct Hq as (x & Hx & Hin). apply filter_In in Hin.
      destruct Hin as [Hin Hp]. apply In_all_members in Hin. destruct Hin as (e & He & Hdir & ->).
      simpl in *. destruct (comps (ename e)) as [|c0 cs] eqn:Ec.
      * simpl in Hx. destruct d; [congruence|discriminate].
      * exists e, (rest ++ [last (c0 :: cs) []]). repeat split; auto.
        -- rewrite Ec, app_assoc, <- Hx. apply app_removelast_last. discriminate.
        -- right. destruct rest; discriminate.
  - intros (Hne & e & rest & He & Hp & Hcomps & Hor).
    destruct (is_dir e) eqn:Hdir.
    + exists (comps (ename e)). split.
      * apply in_or_app. left. apply in_map_iff. exists e. split; [reflexivity|].
        apply filter_In. split; [exact He|]. now rewrite Hp, Hdir.
      * apply In_mkdir_p. split; [exact Hne|]. now exists rest.
    + destruct Hor as [Hor|Hor]; [discriminate|].
      exists (removelast (comps (ename e))). split.
      * apply in_or_app. right. apply in_map_iff. exists (ename e, econtent e). split; [reflexivity|].
        apply filter_In. split; [|exact Hp]. apply In_all_members. exists e. auto.
      * apply In_mkdir_p. split; [exact Hne|]. exists (removelast rest).
        rewrite Hcomps. now apply removelast_app.
Qed.

Theorem factory_creates_no_directories nm a p : dirs_created (run nm false a p) = [].
Proof. reflexivity. Qed.

(* ---- witnesses -------------------------------------------------------------------------------- *)
(* "a" "b" | "d1" "e"(directory) "d2" "d3": two folders, a directory entry between the data
   members of the second folder (py7zr's own w(a,b) a(writeall d1; writeall d2) layout) *)
Definition wA : str := [97%Z].
Definition wB : str := [98%Z].
Definition wD1 : str := [100%Z; 49%Z].
Definition wE : str := [101%Z].
Definition wD2 : str := [100%Z; 50%Z].
Definition wD3 : str := [100%Z; 51%Z].
Definition witness_defect : archive :=
  [mkEntry wA (KData 0 [1; 1; 1; 1]%Z); mkEntry wB (KData 0 [2; 2]%Z);
   mkEntry wD1 (KData 1 [3; 3; 3; 3]%Z); mkEntry wE KDir;
   mkEntry wD2 (KData 1 [4; 4; 4; 4; 4; 4]%Z); mkEntry wD3 (KData 1 [5; 5; 5]%Z)].
(* the same members with the directory entry before the folder's data members *)
Definition witness_healthy : archive :=
  [mkEntry wA (KData 0 [1; 1; 1; 1]%Z); mkEntry wB (KData 0 [2; 2]%Z); mkEntry wE KDir;
   mkEntry wD1 (KData 1 [3; 3; 3; 3]%Z);
   mkEntry wD2 (KData 1 [4; 4; 4; 4; 4; 4]%Z); mkEntry wD3 (KData 1 [5; 5; 5]%Z)].

(* documented regression example (stored = false is the numbering py7zr had before the repair) *)
Theorem extract_restrict_multifolder_refuted :
  exists a T, wf_archive a /\ prefix_free_names a /\ (forall t, In t T -> In t (names a)) /\
    ~ ids_consistent false a /\
    delivered (impl_extract false false a T false)
      <> filter (fun x => spec_sel T false (fst x)) (all_members a) /\
    delivered (impl_extract_all false false a) <> all_members a.
Proof.
  exists witness_defect, [wD3].
  split; [reflexivity|]. split; [reflexivity|]. split.
  { intros t [<-|[]]. vm_compute. tauto. }
  split; [intro H; vm_compute in H; discriminate|].
  split; vm_compute; discriminate.
Qed.

(* the concrete behaviour in that layout: the member named in T is not delivered at all, and
   extractall delivers the third member's bytes under the second member's name *)
Theorem multifolder_defect_behaviour :
  delivered (impl_extract false false witness_defect [wD3] false) = [] /\
  delivered (impl_extract_all false false witness_defect)
  = [(wA, [1; 1; 1; 1]%Z); (wB, [2; 2]%Z); (wD1, [3; 3; 3; 3]%Z); (wD2, [5; 5; 5]%Z)] /\
  all_members witness_defect
  = [(wA, [1; 1; 1; 1]%Z); (wB, [2; 2]%Z); (wD1, [3; 3; 3; 3]%Z); (wD2, [4; 4; 4; 4; 4; 4]%Z);
     (wD3, [5; 5; 5]%Z)].
Proof. repeat split. Qed.

(* the hypotheses of extract_restrict are met (also with the former numbering) by a two-folder
   archive with a directory entry outside the folders' runs *)
Theorem healthy_witness_hypotheses :
  wf_archive witness_healthy /\ prefix_free_names witness_healthy /\ ids_consistent false witness_healthy /\
  numfolders witness_healthy = 2.
Proof. repeat split. Qed.

(* an absent name that is a string prefix, but not a path prefix, of a member name is ignored by
   recursive extraction too (it was not while _extract matched with `startswith(target)`) *)
Definition wSubX : str := [115; 117; 98; 47; 120]%Z.   (* "sub/x" *)
Definition wSu : str := [115; 117]%Z.                   (* "su" *)
Theorem absent_string_prefix_ignored :
  let a := [mkEntry wSubX (KData 0 [7%Z])] in
  wf_archive a /\ prefix_free_names a /\ ~ In (remove_trailing_slash wSu) (names a) /\
  startswith wSubX wSu = true /\
  (forall nm m T, impl_extract nm m a (wSu :: T) true = impl_extract nm m a T true) /\
  delivered (impl_extract true false a [wSu] true) = [].
Proof.
  split; [reflexivity|]. split; [reflexivity|].
  assert (Hab : ~ In (remove_trailing_slash wSu) (names [mkEntry wSubX (KData 0 [7%Z])])).
  { vm_compute. intros [H|[]]. discriminate. }
  split; [exact Hab|]. split; [reflexivity|]. split; [|reflexivity].
  intros nm m T. apply absent_ignored; [exact Hab|].
  intros _ n [<-|[]]. reflexivity.
Qed.

(* single-folder archives (any number of members, any interleaving of empty entries) always
   satisfy the numbering hypothesis: the worker iterates self.files itself *)
Theorem ids_consistent_single nm a : numfolders a <= 1 -> ids_consistent nm a.
Proof. intros H. unfold ids_consistent, ids_consistentb. apply Nat.leb_le in H. now rewrite H. Qed.

(* a single-folder solid archive with a directory, an empty file, nested names *)
Definition wDir : str := [115; 117; 98]%Z.                       (* "sub" *)
Definition wNested : str := [115; 117; 98; 47; 100; 47; 120]%Z.  (* "sub/d/x" *)
Definition wEmpty : str := [122]%Z.                              (* "z" *)
Definition witness_single : archive :=
  [mkEntry wA (KData 0 [1; 1; 1]%Z); mkEntry wDir KDir; mkEntry wNested (KData 0 [2; 2]%Z);
   mkEntry wEmpty KEmpty; mkEntry wB (KData 0 [3]%Z)].

Theorem single_witness_behaviour :
  wf_archive witness_single /\ prefix_free_names witness_single /\ numfolders witness_single = 1 /\
  impl_extract false true witness_single [wDir ++ [47%Z]; wB] true
  = mkR [(wNested, [2; 2]%Z); (wB, [3]%Z)] [[wDir]; [wDir; [100%Z]]; []] /\
  dirs_created (impl_extract false true witness_single [wDir ++ [47%Z]; wB] true)
  = [[wDir]; [wDir]; [wDir; [100%Z]]].
Proof. repeat split. Qed.

Theorem absent_ignored_example :
  ~ In (remove_trailing_slash [113%Z]) (names witness_single) /\
  (forall n, In n (names witness_single) -> startswith n (remove_trailing_slash [113%Z] ++ [47%Z]) = false) /\
  impl_extract false true witness_single [[113%Z]; wB] true = impl_extract false true witness_single [wB] true.
Proof.
  split; [vm_compute; intuition discriminate|]. split; [|reflexivity].
  intros n Hn. vm_compute in Hn. intuition (subst; reflexivity).
Qed.

(* with the repaired numbering the hypothesis holds of every archive *)
Theorem ids_consistent_stored a : ids_consistent true a.
Proof.
  unfold ids_consistent, ids_consistentb. apply orb_true_iff. right. apply forallb_forall.
  intros k _. unfold folder_files. generalize (map fst (folder_members a k)).
  induction l as [|x l IH]; simpl; [reflexivity|]. now rewrite Nat.eqb_refl.
Qed.

Theorem extract_restrict_stored m a T recursive :
  wf_archive a ->
  delivered (impl_extract true m a T recursive)
  = filter (fun x => spec_sel T recursive (fst x)) (delivered (impl_extract_all true m a))
  /\ delivered (impl_extract_all true m a) = all_members a.
Proof. intros Hw. apply extract_restrict; auto. apply ids_consistent_stored. Qed.
