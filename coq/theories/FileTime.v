(* FileTime.v -- py7zr/helpers.py ArchiveTimestamp.from_datetime / totimestamp (l.250-265)
   in IEEE-754 binary64 arithmetic, bit-exact: the operations are Flocq's formalised binary64
   (BinarySingleNaN: Bplus, Bmult, Bdiv, Bminus with round-to-nearest-even, Btrunc), all computable on Z,
   so the same definitions are extracted and run against CPython's float arithmetic by
   tools/harness/c02.py.

       TIMESTAMP_ADJUST = -11644473600
       from_datetime(val) = ArchiveTimestamp((val - TIMESTAMP_ADJUST) * 10000000.0)      # int(float): truncation
       totimestamp(self)  = (self / 10000000.0) + TIMESTAMP_ADJUST                        # int -> float: correctly rounded

   Flocq (and through it the real numbers of the standard library) is used for this file only; the
   theorems depend on the three axioms of Coq's classical real numbers and on nothing else. *)
From Coq Require Import ZArith Reals Lia Lra.
From Flocq Require Import Core BinarySingleNaN.
Open Scope Z_scope.

Definition prec : Z := 53.
Definition emax : Z := 1024.
Lemma Hprec : Prec_gt_0 prec. Proof. reflexivity. Qed.
Lemma Hmax : Prec_lt_emax prec emax. Proof. reflexivity. Qed.
#[global] Existing Instance Hprec.
#[global] Existing Instance Hmax.

Definition float64 := binary_float prec emax.

(* float(n) for a Python int n: correctly rounded, ties to even (PyLong_AsDouble); also m * 2^e exactly when
   that is a binary64 number (how the harness hands a float to the model) *)
Definition BofZe (m e : Z) : float64 := binary_normalize prec emax Hprec Hmax mode_NE m e false.
Definition BofZ (n : Z) : float64 := BofZe n 0.

Definition TIMESTAMP_ADJUST : Z := -11644473600.
Definition f_adjust : float64 := BofZ TIMESTAMP_ADJUST.     (* float(TIMESTAMP_ADJUST), exact *)
Definition f_1e7 : float64 := BofZ 10000000.                (* 10000000.0 *)

(* (val - TIMESTAMP_ADJUST) * 10000000.0 *)
Definition from_datetime_f (t : float64) : float64 :=
  Bmult mode_NE (Bminus mode_NE t f_adjust) f_1e7.

(* int(x): None stands for the OverflowError / ValueError of int(inf) / int(nan) *)
Definition py_int (x : float64) : option Z :=
  if is_finite x then Some (Btrunc x) else None.

Definition from_datetime (t : float64) : option Z := py_int (from_datetime_f t).

(* (self / 10000000.0) + TIMESTAMP_ADJUST *)
Definition totimestamp (ft : Z) : float64 :=
  Bplus mode_NE (Bdiv mode_NE (BofZ ft) f_1e7) f_adjust.

(* a finite float as (m, e) with value m * 2^e; (0,0) for zeros; None for inf/nan *)
Definition float_me (x : float64) : option (Z * Z) :=
  match x with
  | B754_zero _ => Some (0, 0)
  | B754_finite s m e _ => Some (cond_Zopp s (Zpos m), e)
  | _ => None
  end.

(* ---------------------------------------------------------------- proofs *)
Open Scope R_scope.

Notation fexp := (FLT_exp (3 - emax - prec) prec).
Notation rnd := (round radix2 fexp ZnearestE).

Lemma fexp_eq : forall e, fexp e = Z.max (e - 53) (-1074).
Proof. intros e. unfold FLT_exp, emax, prec. reflexivity. Qed.

(* half-ulp bound from a magnitude bound *)
Lemma err_bound : forall x e, Rabs x < bpow radix2 e ->
  Rabs (rnd x - x) <= /2 * bpow radix2 (fexp e).
Proof.
  intros x e Hx.
  destruct (Req_dec x 0) as [-> | Hnz].
  - rewrite round_0 by auto with typeclass_instances.
    rewrite Rminus_0_r, Rabs_R0. apply Rmult_le_pos; [lra | apply bpow_ge_0].
  - eapply Rle_trans; [apply error_le_half_ulp; auto with typeclass_instances |].
    apply Rmult_le_compat_l; [lra |].
    rewrite ulp_neq_0 by exact Hnz. apply bpow_le. unfold cexp.
    apply monotone_exp; [auto with typeclass_instances |].
    apply mag_le_bpow; assumption.
Qed.

Lemma rnd_abs_le : forall x e, Rabs x < bpow radix2 e ->
  Rabs (rnd x) <= Rabs x + /2 * bpow radix2 (fexp e).
Proof.
  intros x e Hx. pose proof (err_bound x e Hx) as H.
  replace (rnd x) with ((rnd x - x) + x) by ring.
  eapply Rle_trans; [apply Rabs_triang |]. lra.
Qed.

Lemma generic_Z : forall n : Z, (Z.abs n < 2 ^ 53)%Z -> generic_format radix2 fexp (IZR n).
Proof.
  intros n Hn. apply generic_format_FLT.
  exists (Float radix2 n 0).
  - unfold F2R; simpl. ring.
  - simpl. exact Hn.
  - simpl. unfold emax, prec. lia.
Qed.

Lemma BofZ_exact : forall n : Z, (Z.abs n < 2 ^ 53)%Z ->
  B2R (BofZ n) = IZR n /\ is_finite (BofZ n) = true.
Proof.
  intros n Hn. unfold BofZ, BofZe.
  pose proof (binary_normalize_correct prec emax Hprec Hmax mode_NE n 0 false) as H.
  cbv zeta in H. change (SpecFloat.fexp prec emax) with fexp in H.
  assert (HF : F2R (Float radix2 n 0) = IZR n) by (unfold F2R; simpl; ring).
  rewrite HF in H. simpl round_mode in H.
  rewrite (round_generic radix2 fexp ZnearestE (IZR n) (generic_Z n Hn)) in H.
  rewrite Rlt_bool_true in H.
  - destruct H as (H1 & H2 & _). split; assumption.
  - rewrite <- abs_IZR. apply Rlt_le_trans with (IZR (2 ^ 53)).
    + apply IZR_lt. exact Hn.
    + change (IZR (2 ^ 53)) with (bpow radix2 53). apply bpow_le. unfold emax. lia.
Qed.

Lemma f_adjust_val : B2R f_adjust = -11644473600 /\ is_finite f_adjust = true.
Proof. apply (BofZ_exact TIMESTAMP_ADJUST). unfold TIMESTAMP_ADJUST. simpl. lia. Qed.

Lemma f_1e7_val : B2R f_1e7 = 10000000 /\ is_finite f_1e7 = true.
Proof. apply (BofZ_exact 10000000). simpl. lia. Qed.

(* a binary64 number of magnitude >= 2^53 is an integer *)
Lemma big_float_is_integer : forall x, generic_format radix2 fexp x -> bpow radix2 53 <= Rabs x ->
  exists z : Z, x = IZR z.
Proof.
  intros x Hg Hx.
  assert (Hnz : x <> 0).
  { intros ->. rewrite Rabs_R0 in Hx. pose proof (bpow_gt_0 radix2 53). lra. }
  assert (Hm : (54 <= mag radix2 x)%Z).
  { apply mag_ge_bpow. simpl Z.sub. exact Hx. }
  unfold generic_format in Hg. rewrite Hg. unfold F2R. simpl Fnum. simpl Fexp.
  set (c := cexp radix2 fexp x).
  assert (Hc : (0 <= c)%Z).
  { unfold c, cexp. rewrite fexp_eq. lia. }
  exists (Ztrunc (scaled_mantissa radix2 fexp x) * 2 ^ c)%Z.
  rewrite mult_IZR. f_equal.
  change (bpow radix2 c = IZR (radix2 ^ c)). symmetry. apply (IZR_Zpower radix2 c Hc).
Qed.

Lemma bpowm : forall p : positive, bpow radix2 (Zneg p) = / IZR (Z.pow_pos 2 p).
Proof. reflexivity. Qed.
Lemma bpowp : forall p : positive, bpow radix2 (Zpos p) = IZR (Z.pow_pos 2 p).
Proof. reflexivity. Qed.

Ltac bp := repeat (rewrite ?bpowm, ?bpowp); repeat
  match goal with |- context [Z.pow_pos 2 ?p] =>
    let v := eval vm_compute in (Z.pow_pos 2 p) in change (Z.pow_pos 2 p) with v end.
Ltac bp_in H := repeat (rewrite ?bpowm, ?bpowp in H); repeat
  match type of H with context [Z.pow_pos 2 ?p] =>
    let v := eval vm_compute in (Z.pow_pos 2 p) in change (Z.pow_pos 2 p) with v in H end.

Ltac fe H := rewrite fexp_eq in H;
  match type of H with context [Z.max ?a ?b] =>
    let v := eval vm_compute in (Z.max a b) in change (Z.max a b) with v in H end.

Section Bound.
Variable t : float64.
Hypothesis Hfin : is_finite t = true.
Hypothesis Hrange : 0 <= B2R t <= 4200000000.

Let x := B2R t.
Let s := Bminus mode_NE t f_adjust.
Let p := Bmult mode_NE s f_1e7.

Lemma step_s : is_finite s = true /\ Rabs (B2R s - (x + 11644473600)) <= / 1048576.
Proof.
  destruct f_adjust_val as (Ha & Hfa).
  pose proof (Bminus_correct prec emax Hprec Hmax mode_NE t f_adjust Hfin Hfa) as H.
  change (SpecFloat.fexp prec emax) with fexp in H.
  rewrite Ha in H. simpl round_mode in H. fold x in H.
  replace (x - -11644473600) with (x + 11644473600) in H by ring.
  assert (Hm : Rabs (x + 11644473600) < bpow radix2 34).
  { bp. unfold x. rewrite Rabs_pos_eq; lra. }
  pose proof (err_bound _ _ Hm) as He. pose proof (rnd_abs_le _ _ Hm) as Hr.
  fe He. fe Hr. bp_in He. bp_in Hr. bp_in Hm.
  rewrite Rlt_bool_true in H.
  - destruct H as (H1 & H2 & _). fold s in H1, H2. split; [exact H2 |]. rewrite H1. lra.
  - unfold emax. apply Rle_lt_trans with (1 := Hr).
    apply Rlt_le_trans with (bpow radix2 35); [bp; lra | apply bpow_le; lia].
Qed.

Lemma s_range : 11644473599 <= B2R s <= 15844473601.
Proof.
  destruct step_s as (_ & H). apply Rabs_le_inv in H. unfold x in H. lra.
Qed.

Lemma step_p : is_finite p = true /\ Rabs (B2R p - B2R s * 10000000) <= 16.
Proof.
  destruct f_1e7_val as (Hv & Hf). destruct step_s as (Hfs & _). pose proof s_range as Hs.
  pose proof (Bmult_correct prec emax Hprec Hmax mode_NE s f_1e7) as H.
  change (SpecFloat.fexp prec emax) with fexp in H.
  rewrite Hv in H. simpl round_mode in H.
  assert (Hm : Rabs (B2R s * 10000000) < bpow radix2 58).
  { bp. rewrite Rabs_pos_eq; lra. }
  pose proof (err_bound _ _ Hm) as He. pose proof (rnd_abs_le _ _ Hm) as Hr.
  fe He. fe Hr. bp_in He. bp_in Hr. bp_in Hm.
  rewrite Rlt_bool_true in H.
  - destruct H as (H1 & H2 & _). fold p in H1, H2. rewrite Hfs, Hf in H2. split; [exact H2 |].
    rewrite H1. lra.
  - unfold emax. apply Rle_lt_trans with (1 := Hr).
    apply Rlt_le_trans with (bpow radix2 59); [bp; lra | apply bpow_le; lia].
Qed.

Lemma p_range : 116444735989999984 <= B2R p <= 158444736010000016.
Proof.
  destruct step_p as (_ & H). apply Rabs_le_inv in H. pose proof s_range. lra.
Qed.

(* int() of the product is exact: the product is an integer-valued float *)
Lemma step_ft : exists ft : Z, from_datetime t = Some ft /\ IZR ft = B2R p.
Proof.
  destruct step_p as (Hf & _). pose proof p_range as Hp.
  unfold from_datetime, py_int, from_datetime_f. fold s. fold p. rewrite Hf.
  exists (Btrunc p). split; [reflexivity |].
  rewrite Btrunc_correct.
  destruct (big_float_is_integer (B2R p)) as (z & Hz).
  - apply generic_format_B2R.
  - bp. rewrite Rabs_pos_eq; lra.
  - rewrite Hz. rewrite round_generic; [reflexivity | auto with typeclass_instances |].
    apply generic_format_FIX. exists (Float radix2 z 0); [unfold F2R; simpl; ring | reflexivity].
  - exact Hmax.
Qed.

Theorem mtime_error_bound_t : exists ft : Z,
  from_datetime t = Some ft /\
  (116444735989999984 <= ft <= 158444736010000016)%Z /\
  is_finite (totimestamp ft) = true /\
  Rabs (B2R (totimestamp ft) - B2R t) <= 3746 / 1000000000.
Proof.
  destruct step_ft as (ft & Hft & Hv). exists ft. split; [exact Hft |].
  pose proof p_range as Hp. destruct step_p as (_ & Hpe). destruct step_s as (_ & Hse).
  assert (Hftr : (116444735989999984 <= ft <= 158444736010000016)%Z).
  { split; apply le_IZR; rewrite Hv; lra. }
  split; [exact Hftr |].
  (* float(ft) = p exactly *)
  assert (Hb : B2R (BofZ ft) = B2R p /\ is_finite (BofZ ft) = true).
  { unfold BofZ, BofZe.
    pose proof (binary_normalize_correct prec emax Hprec Hmax mode_NE ft 0 false) as H.
    cbv zeta in H. change (SpecFloat.fexp prec emax) with fexp in H.
    assert (HF : F2R (Float radix2 ft 0) = B2R p) by (unfold F2R; simpl; rewrite Hv; ring).
    rewrite HF in H. simpl round_mode in H.
    rewrite (round_generic radix2 fexp ZnearestE (B2R p) (generic_format_B2R prec emax p)) in H.
    rewrite Rlt_bool_true in H.
    - destruct H as (H1 & H2 & _). split; assumption.
    - apply Rlt_le_trans with (bpow radix2 59); [bp; rewrite Rabs_pos_eq; lra | apply bpow_le; unfold emax; lia]. }
  destruct Hb as (Hbv & Hbf).
  destruct f_1e7_val as (Hv7 & Hf7). destruct f_adjust_val as (Ha & Hfa).
  (* division *)
  set (q := Bdiv mode_NE (BofZ ft) f_1e7).
  assert (Hq : is_finite q = true /\ Rabs (B2R q - B2R p / 10000000) <= / 1048576).
  { pose proof (Bdiv_correct prec emax Hprec Hmax mode_NE (BofZ ft) f_1e7) as H.
  change (SpecFloat.fexp prec emax) with fexp in H.
    rewrite Hv7, Hbv in H. simpl round_mode in H.
    assert (Hm : Rabs (B2R p / 10000000) < bpow radix2 34).
    { bp. rewrite Rabs_pos_eq; lra. }
    pose proof (err_bound _ _ Hm) as He. pose proof (rnd_abs_le _ _ Hm) as Hr.
    fe He. fe Hr. bp_in He. bp_in Hr. bp_in Hm.
    rewrite Rlt_bool_true in H.
    - destruct H as (H1 & H2 & _); [lra |]. fold q in H1, H2. rewrite Hbf in H2. split; [exact H2 |].
      rewrite H1. lra.
    - unfold emax. apply Rle_lt_trans with (1 := Hr).
      apply Rlt_le_trans with (bpow radix2 35); [bp; lra | apply bpow_le; lia]. }
  destruct Hq as (Hqf & Hqe).
  (* final addition *)
  pose proof (Bplus_correct prec emax Hprec Hmax mode_NE q f_adjust Hqf Hfa) as H.
  change (SpecFloat.fexp prec emax) with fexp in H.
  rewrite Ha in H. simpl round_mode in H.
  apply Rabs_le_inv in Hqe. apply Rabs_le_inv in Hpe. apply Rabs_le_inv in Hse. fold x.
  assert (Hd : Rabs (B2R q + -11644473600 - x) <= / 1048576 + 16 / 10000000 + / 1048576).
  { apply Rabs_le. lra. }
  apply Rabs_le_inv in Hd.
  assert (Hm : Rabs (B2R q + -11644473600) < bpow radix2 32).
  { bp. apply Rabs_lt. unfold x in *. lra. }
  pose proof (err_bound _ _ Hm) as He. pose proof (rnd_abs_le _ _ Hm) as Hr.
  fe He. fe Hr. bp_in He. bp_in Hr. bp_in Hm.
  rewrite Rlt_bool_true in H.
  - destruct H as (H1 & H2 & _). unfold totimestamp. fold q. split; [exact H2 |].
    rewrite H1. apply Rabs_le_inv in He. apply Rabs_le. lra.
  - unfold emax. apply Rle_lt_trans with (1 := Hr).
    apply Rlt_le_trans with (bpow radix2 33); [bp; lra | apply bpow_le; lia].
Qed.
End Bound.

(* for every finite binary64 t with 0 <= t <= 4.2e9 (1970-01-01 .. 2103-02-04): from_datetime succeeds, its
   FILETIME fits UINT64, and converting back is within 5 microseconds of t *)
Theorem mtime_error_bound : forall t : float64,
  is_finite t = true -> 0 <= B2R t <= 4200000000 ->
  exists ft : Z, from_datetime t = Some ft /\
    (0 <= ft < 2 ^ 64)%Z /\
    is_finite (totimestamp ft) = true /\
    Rabs (B2R (totimestamp ft) - B2R t) <= 5 / 1000000.
Proof.
  intros t Hf Hr. destruct (mtime_error_bound_t t Hf Hr) as (ft & H1 & H2 & H3 & H4).
  exists ft. repeat split; try assumption; try lia. lra.
Qed.

(* the bound the four roundings actually give: 2^-20 + 16e-7 + 2^-20 + 2^-22 < 3.746 microseconds *)
Theorem mtime_error_bound_tight : forall t : float64,
  is_finite t = true -> 0 <= B2R t <= 4200000000 ->
  exists ft : Z, from_datetime t = Some ft /\
    Rabs (B2R (totimestamp ft) - B2R t) <= 3746 / 1000000000.
Proof.
  intros t Hf Hr. destruct (mtime_error_bound_t t Hf Hr) as (ft & H1 & H2 & H3 & H4).
  exists ft. split; assumption.
Qed.
